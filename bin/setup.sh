#!/bin/bash
# Build the overlay venv used by every check (offline; idempotent).
set -e
V=/verif/.venv
if [ ! -x "$V/bin/python" ] || ! "$V/bin/python" -c "import z3, numpy, bionumpy" >/dev/null 2>&1; then
  rm -rf "$V"
  /venv/bin/python -m venv "$V"
  SP=$("$V/bin/python" -c "import sysconfig; print(sysconfig.get_paths()['purelib'])")
  printf '/venv/lib/python3.12/site-packages\n/repo\n' > "$SP/verif_overlay.pth"
  PIP_NO_INDEX=1 "$V/bin/python" -m pip install -q --no-index --find-links /opt/veriftools/wheels z3-solver crosshair-tool >/dev/null
fi
"$V/bin/python" -c "import z3, numpy, bionumpy, npstructures; print('overlay ok', z3.get_version_string(), numpy.__version__)"
