#!/bin/bash
# run every registered quick (or given tier) check sequentially; print one summary line each
tier=${1:-quick}
cd /verif
for pid in $(python3 -c "import json; print(' '.join(c['property_id'] for c in json.load(open('MANIFEST.json'))['checks']))"); do
  s=$(date +%s)
  out=$(./check $pid --tier $tier 2>&1); rc=$?
  echo "$pid rc=$rc $(($(date +%s)-s))s :: $(echo "$out" | tail -1 | cut -c1-230)"
  if [ $rc -ne 0 ]; then echo "$out" | grep -E "^VIOLATION|^INCONC|^HARNESS|^  " | head -6 | cut -c1-300; fi
done
