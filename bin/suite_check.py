#!/usr/bin/env python3
"""run the pinned test suite in a tree and compare with BASELINE.json stable_pass. usage: suite_check.py [tree]"""
import json, subprocess, sys, os, tempfile, xml.etree.ElementTree as ET
tree = sys.argv[1] if len(sys.argv) > 1 else "/repo"
base = json.load(open("/root/.vp/BASELINE.json"))
out = tempfile.mktemp(suffix=".xml")
env = dict(os.environ, PYTHONPATH=tree)
subprocess.run(["rm", "-rf", os.path.join(tree, ".hypothesis")])
subprocess.run(["/venv/bin/python", "-m", "pytest", "-q", "-p", "no:cacheprovider", "--timeout=900",
                "--continue-on-collection-errors", f"--junitxml={out}"], cwd=tree, env=env, stdout=subprocess.DEVNULL, stderr=subprocess.DEVNULL)
passed = set()
for tc in ET.parse(out).getroot().iter("testcase"):
    if not any(c.tag in ("failure", "error", "skipped") for c in tc):
        passed.add(f"{tc.get('classname')}::{tc.get('name')}")
os.unlink(out)
missing = sorted(set(base["stable_pass"]) - passed)
print(f"passed={len(passed)} stable_pass={len(base['stable_pass'])} missing_from_stable={len(missing)}")
for m in missing:
    print("  MISSING", m)
sys.exit(1 if missing else 0)
