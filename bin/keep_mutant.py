#!/usr/bin/env python3
"""confirm a seeded change in a scratch worktree and store it under /verif/seeded/<PID>-<tag>/.
usage: keep_mutant.py PID TAG path/to.diff path/to/demo.py "what it needs to manifest" """
import json, os, shutil, subprocess, sys
pid, tag, diff, demo, needs = sys.argv[1:6]
wt = f"/tmp/wt/verify_{pid}_{tag}"
def sh(cmd, **k):
    return subprocess.run(cmd, shell=True, capture_output=True, text=True, **k)
sh(f"git -C /repo worktree remove --force {wt}")
r = sh(f"git -C /repo worktree add -q --detach {wt} HEAD"); assert r.returncode == 0, r.stderr
head = sh("git -C /repo rev-parse --short HEAD").stdout.strip()
ran = []
try:
    env = f"PYTHONPATH={wt} PYTHONWARNINGS=ignore"
    r0 = sh(f"cd {wt} && {env} /venv/bin/python {demo}"); ran.append(f"demo on clean HEAD {head}: exit {r0.returncode}")
    a = sh(f"cd {wt} && git apply {diff}")
    if a.returncode != 0:
        a = sh(f"cd {wt} && git apply --3way {diff} && git reset -q")
    assert a.returncode == 0, "patch does not apply: " + a.stderr
    patch = sh(f"cd {wt} && git diff").stdout
    r1 = sh(f"cd {wt} && {env} /venv/bin/python {demo}"); ran.append(f"demo with change: exit {r1.returncode}")
    s = sh(f"/verif/bin/suite_check.py {wt}"); ran.append("pinned suite with change: " + s.stdout.strip().splitlines()[0])
    ok = r0.returncode == 0 and r1.returncode != 0 and s.returncode == 0
    print("\n".join(ran)); print("CONFIRMED" if ok else "REJECTED")
    if ok:
        d = f"/verif/seeded/{pid}-{tag}"
        os.makedirs(d, exist_ok=True)
        open(f"{d}/patch.diff", "w").write(patch)
        shutil.copy(demo, f"{d}/demo.py")
        meta = dict(property=pid, needs=needs, base_commit=head, confirmed=ran,
                    demo_failure=(r1.stdout + r1.stderr).strip().splitlines()[-3:], detected_by=None)
        json.dump(meta, open(f"{d}/meta.json", "w"), indent=1)
finally:
    sh(f"git -C /repo worktree remove --force {wt}")
