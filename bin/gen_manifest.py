#!/usr/bin/env python3
"""regenerate MANIFEST.json from the table below (kept valid at all times)"""
import json, os
V = os.path.dirname(os.path.dirname(os.path.abspath(__file__)))
ALL = ["C%02d" % i for i in range(1, 21)]
CHECKS = json.load(open(os.path.join(V, "bin", "checks_table.json")))
m = {
 "version": 1,
 "setup_cmd": "bin/setup.sh",
 "hooks": {"guard": "BIONUMPY_VERIF", "enable": "no source hooks: the checking process rebinds the module global `np` of bionumpy/npstructures modules to the symbolic backend (symnp); /repo is imported from its working tree", "baseline_off_cmd": "cd /repo && /venv/bin/python -m pytest -ra -q -p no:cacheprovider --timeout=900 --continue-on-collection-errors", "source_commits": [], "add_only": True},
 "engines": [
  {"name": "symnp", "path": "symnp/", "serves_properties": sorted(CHECKS), "kind_free_text": "symbolic execution of the real bionumpy/npstructures Python code over z3 terms (symbolic NumPy backend, re-execution DFS path explorer), z3 decides PC => post per path; witness and counterexample replay on the unmodified library"},
 ],
 "checks": [], "notes": "see DESIGN.md; exit 0 = all obligations discharged, 1 = reproduced violation, 2 = inconclusive (never on the unchanged tree)",
 "not_applicable": []}
for pid in ALL:
    if pid in CHECKS:
        c = CHECKS[pid]
        m["checks"].append({
            "property_id": pid, "quick_cmd": f"./check {pid} --tier quick", "thorough_cmd": f"./check {pid} --tier thorough",
            "evidence_file": f"evidence/{pid}.json", "replay_cmd_template": f"./check {pid} --replay {{path}}",
            "engine": "symnp",
            "level_claimed": {"category": "model_checking", "text": c["text"], "design_ref": c.get("design_ref", "DESIGN.md section 7 " + pid)},
            "level_note": c["note"], "technique": c.get("technique", "bounded symbolic execution of the real Python code (symnp) + z3 SMT queries per path; counterexamples replayed concretely")})
    else:
        na = json.load(open(os.path.join(V, "bin", "na_table.json")))
        m["not_applicable"].append({"property_id": pid, "reason": na.get(pid, "check not built yet (framework under construction)")})
json.dump(m, open(os.path.join(V, "MANIFEST.json"), "w"), indent=1)
print("checks:", [c["property_id"] for c in m["checks"]])
