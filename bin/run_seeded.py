#!/usr/bin/env python3
"""run the property's check against every seeded change and record the result in meta.json.
Each change is applied to its own scratch worktree of /repo's HEAD (the check analyses it through VERIF_REPO), which is removed
afterwards; /repo itself is not touched, so the changes are tried in parallel.
usage: run_seeded.py [PID|NAME ...] [--tier quick|thorough] [--par N]"""
import glob, json, os, re, subprocess, sys, tempfile
from concurrent.futures import ThreadPoolExecutor
argv = sys.argv[1:]
def opt(name, default):
    if name in argv:
        i = argv.index(name); v = argv[i + 1]; del argv[i:i + 2]; return v
    return default
tier = opt("--tier", "quick")
par = int(opt("--par", "4"))
args = argv
def sh(c, **k):
    return subprocess.run(c, shell=True, capture_output=True, text=True, **k)
os.makedirs("/tmp/wt", exist_ok=True)

def one(d):
    name = os.path.basename(d.rstrip("/"))
    meta = json.load(open(d + "meta.json"))
    pid = meta["property"]
    if not os.path.exists(f"/verif/checks/{pid}.py"):
        return f"{name}: no check for {pid} yet"
    wt = tempfile.mkdtemp(prefix="seed_", dir="/tmp/wt"); os.rmdir(wt)
    try:
        a = sh(f"git -C /repo worktree add -q --detach {wt} HEAD")
        assert a.returncode == 0, a.stderr
        a = sh(f"git -C {wt} apply {d}patch.diff")
        if a.returncode:
            a = sh(f"cd {wt} && git apply --3way {d}patch.diff && git reset -q")
        if a.returncode:
            meta["detected_by"] = "patch no longer applies to HEAD"
            json.dump(meta, open(d + "meta.json", "w"), indent=1)
            return f"{name}: PATCH DOES NOT APPLY"
        r = sh(f"cd /verif && VERIF_REPO={wt} ./check {pid} --tier {tier} --no-evidence --jobs {max(2, 16 // par)}")
    finally:
        sh(f"git -C /repo worktree remove --force {wt}"); sh(f"rm -rf {wt}")
    out = r.stdout
    harn = sorted(set(re.findall(r"^  harness=(\S+)", out, re.M)))
    nviol = len(re.findall(r"^VIOLATION", out, re.M))
    verdict = {0: "NOT DETECTED", 1: "DETECTED", 2: "INCONCLUSIVE"}.get(r.returncode, f"exit {r.returncode}")
    first = re.search(r"^  harness=.*\n(.*)", out, re.M)
    meta["detected_by"] = dict(tier=tier, exit=r.returncode, verdict=verdict, harnesses=harn, violations=nviol,
                               example=(first.group(0).strip()[:500] if first else None),
                               summary=out.strip().splitlines()[-1][:300] if out.strip() else "")
    json.dump(meta, open(d + "meta.json", "w"), indent=1)
    return f"{name}: {verdict} exit={r.returncode} harnesses={harn} violations={nviol}"

todo = []
for d in sorted(glob.glob("/verif/seeded/*/")):
    name = os.path.basename(d.rstrip("/"))
    pid = json.load(open(d + "meta.json"))["property"]
    if args and pid not in args and name not in args:
        continue
    todo.append(d)
with ThreadPoolExecutor(par) as ex:
    for line in ex.map(one, todo):
        print(line, flush=True)
