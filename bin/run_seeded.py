#!/usr/bin/env python3
"""apply every seeded change to /repo in turn, run the property's check, undo; record the result in meta.json.
usage: run_seeded.py [PID ...] [--tier quick|thorough]"""
import glob, json, os, re, subprocess, sys
tier = "quick"
args = [a for a in sys.argv[1:] if not a.startswith("--")]
if "--tier" in sys.argv:
    tier = sys.argv[sys.argv.index("--tier") + 1]; args = [a for a in args if a != tier]
def sh(c):
    return subprocess.run(c, shell=True, capture_output=True, text=True)
assert sh("git -C /repo status --porcelain --untracked-files=no").stdout.strip() == "", "/repo has uncommitted changes"
for d in sorted(glob.glob("/verif/seeded/*/")):
    name = os.path.basename(d.rstrip("/"))
    meta = json.load(open(d + "meta.json"))
    pid = meta["property"]
    if args and pid not in args and name not in args:
        continue
    if not os.path.exists(f"/verif/checks/{pid}.py"):
        print(f"{name}: no check for {pid} yet"); continue
    a = sh(f"git -C /repo apply {d}patch.diff")
    if a.returncode:
        print(f"{name}: PATCH DOES NOT APPLY"); meta["detected_by"] = "patch no longer applies to HEAD"; continue
    try:
        r = sh(f"cd /verif && ./check {pid} --tier {tier} --no-evidence")
    finally:
        sh("git -C /repo checkout -- .")
    out = r.stdout
    harn = sorted(set(re.findall(r"^  harness=(\S+)", out, re.M)))
    nviol = len(re.findall(r"^VIOLATION", out, re.M))
    verdict = {0: "NOT DETECTED", 1: "DETECTED", 2: "INCONCLUSIVE"}.get(r.returncode, f"exit {r.returncode}")
    first = re.search(r"^  harness=.*\n(.*)", out, re.M)
    meta["detected_by"] = dict(tier=tier, exit=r.returncode, verdict=verdict, harnesses=harn, violations=nviol,
                               example=(first.group(0).strip()[:500] if first else None),
                               summary=out.strip().splitlines()[-1][:300] if out.strip() else "")
    json.dump(meta, open(d + "meta.json", "w"), indent=1)
    print(f"{name}: {verdict} exit={r.returncode} harnesses={harn} violations={nviol}")
