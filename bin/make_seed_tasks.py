#!/usr/bin/env python3
"""prepare one scratch worktree + TASK.md per property for a round of seeded changes made by fresh sub-agents.
usage: make_seed_tasks.py ROUND [ids...]     (e.g. make_seed_tasks.py r4 C01 C02)
The task text contains the property (from properties.jsonl), the rules a kept change must meet, and the mechanisms already used
in earlier rounds (from seeded/*/meta.json) so that a new round looks elsewhere.  Nothing from /verif is given to the sub-agent."""
import glob, json, os, re, subprocess, sys
rnd = sys.argv[1]
only = sys.argv[2:]
props = {}
for ln in open("/verif/properties.jsonl"):
    d = json.loads(ln)
    props[d["id"]] = d
head = subprocess.check_output(["git", "-C", "/repo", "rev-parse", "--short", "HEAD"], text=True).strip()
for pid, d in props.items():
    if only and pid not in only:
        continue
    wt, out = f"/tmp/wt/{pid}{rnd}", f"/tmp/wt/out_{pid}{rnd}"
    subprocess.run(["git", "-C", "/repo", "worktree", "remove", "--force", wt], capture_output=True)
    subprocess.run(["git", "-C", "/repo", "worktree", "add", "-q", "--detach", wt, "HEAD"], check=True)
    os.makedirs(out, exist_ok=True)
    used = []
    for m in sorted(glob.glob(f"/verif/seeded/{pid}-*/meta.json")):
        meta = json.load(open(m))
        files = sorted(set(re.findall(r"^\+\+\+ b/(\S+)", open(os.path.dirname(m) + "/patch.diff").read(), re.M)))
        used.append(f"  - in {', '.join(files)}: {meta['needs']}")
    files = ", ".join(d["anchors"]["files"])
    task = f"""# Task: seed a realistic, subtle defect into bionumpy that breaks one stated property

You are working in a scratch git worktree of the bionumpy repository at `{wt}` (detached HEAD, commit {head}).
Work ONLY inside `{wt}` (source edits) and `{out}` (your deliverables). Never touch `/repo` or `/verif`
and do not read anything under `/verif`. There is no network.

## The property ({pid}: {d['title']})

{d['statement']}

Quantified over: {d['quantifier']['text']}

Why the existing tests cannot settle it: {d['why_tests_cant']}

Files where the relevant behaviour lives: {files}

## What to produce

Produce TWO independent changes ("mutants" A and B, different mechanisms / different code sites) to the library source under
`{wt}/bionumpy/` (library code only, not tests), each of which:

1. still imports/compiles, and still passes the existing test suite exactly as before: run, from the worktree,
   `cd {wt} && rm -rf .hypothesis && PYTHONPATH={wt} /venv/bin/python -m pytest -q -p no:cacheprovider --timeout=900 -rA 2>&1 | grep -E "^PASSED" | sort > {out}/X_passed.txt`
   once on the unmodified tree (baseline) and once per change, and compare the PASSED ids: the set of passing tests must not
   shrink (a few tests fail without any change, e.g. tests needing missing data files or hitting incompatibilities
   of a dependency; one hypothesis test is flaky).
   Make sure the worktree's code is what is imported (`PYTHONPATH={wt} /venv/bin/python -c "import bionumpy; print(bionumpy.__file__)"`
   must print a path under {wt}).
2. breaks the property above for SOME inputs — but NOT in a way ordinary use exposes at once. It must need something specific
   to manifest: an unusual input value (a boundary value, a particular byte, a particular length relation), a particular chunk
   size / alignment, a multi-step sequence of operations, state left behind by an earlier call in the same process, or two
   cooperating sites that each look fine alone. Think of the kind of off-by-one, wrong comparison operator, missing copy, wrong
   fill value, wrong dtype, swapped table entry, stale cache or lost carry-over that a real refactoring could introduce and
   code review could miss.
3. comes with a small demonstration program `demo_A.py` / `demo_B.py` (plain Python using the public bionumpy API, run as
   `PYTHONPATH=<tree> /venv/bin/python demo_A.py`) that exits 0 and prints OK on the UNMODIFIED tree and exits non-zero
   (assertion failure showing expected vs actual) on the tree with your change. Verify both directions yourself
   (for the unmodified behaviour use `git diff > {out}/patch; git checkout -- .; ...; git apply {out}/patch` inside your
   worktree. NEVER use `git stash`: the stash is shared between all worktrees of the repository and other agents are working
   in sibling worktrees).
   If the unmodified tree already violates the property for the input you picked (the library has some pre-existing defects),
   pick a different input / mechanism: the demo must pass on the unmodified tree. Mention such pre-existing defects in notes.md.

Small inputs are preferred: ideally the defect manifests already on small inputs (files of <= 4 records, <= 4 intervals, sequences
of <= 6 letters, short fields), even though it needs a specific value/alignment among them.

## Already used in earlier rounds (do NOT reuse these mechanisms or code sites; find different ones, preferably in files or functions not listed here)

{chr(10).join(used)}

Also: the repository HEAD already contains many recent bug fixes (commits whose message starts with 'fix:'); do not simply revert one of those.

## Deliverables (in `{out}/`)

- `A.diff`, `B.diff`  — `git diff` output (relative to the worktree root, applicable with `git apply`) of each change ALONE
  (A.diff applies to the clean tree; B.diff applies to the clean tree).
- `demo_A.py`, `demo_B.py`
- `notes.md` — for each mutant: what was changed, why the tests still pass, what exactly is needed for it to manifest (one
  line beginning `NEEDS A:` / `NEEDS B:` that states it compactly), and the test-suite summary line you observed with the change applied.

When finished leave the worktree clean (`git checkout -- .`), and reply with a 5-line summary per mutant.
"""
    open(f"{out}/TASK.md", "w").write(task)
    print(pid, wt, out, f"{len(used)} earlier changes listed")
