#!/usr/bin/env python3
"""confirm several seeded changes in parallel. stdin: lines 'PID TAG OUTDIR LETTER | needs'"""
import subprocess, sys
from concurrent.futures import ThreadPoolExecutor
jobs = []
for ln in sys.stdin:
    ln = ln.strip()
    if not ln:
        continue
    head, needs = ln.split("|", 1)
    pid, tag, outdir, letter = head.split()
    jobs.append((pid, tag, f"{outdir}/{letter}.diff", f"{outdir}/demo_{letter}.py", needs.strip()))
def run(j):
    r = subprocess.run(["/verif/bin/keep_mutant.py", *j], capture_output=True, text=True)
    return f"{j[0]}-{j[1]}: " + " / ".join((r.stdout + r.stderr).strip().splitlines()[-4:])
with ThreadPoolExecutor(5) as ex:
    for line in ex.map(run, jobs):
        print(line, flush=True)
