#!/bin/bash
# usage: bin/try_mutant.sh <PID> <diff> [extra check args]   -- apply a seeded change to /repo, run the check, undo
pid=$1; diff=$2; shift 2
cd /repo
if ! git apply --check "$diff" 2>/dev/null; then
  if ! git apply --3way "$diff" >/dev/null 2>&1; then echo "PATCH-DOES-NOT-APPLY $diff"; git checkout -- . ; git reset -q; exit 3; fi
  git reset -q
else
  git apply "$diff"
fi
git diff --stat | tail -1
cd /verif && ./check $pid --no-evidence "$@" 2>&1 | grep -E "^VIOLATION|^  harness|^INCONCLUSIVE|^HARNESS-ERROR|^KNOWN|tier=" | cut -c1-400 | head -12
rc=${PIPESTATUS[0]}
cd /repo && git checkout -- . && git status --short | grep -v '^??' 
exit 0
