#!/bin/bash
# usage: bin/try_mutant.sh <PID> <diff> [extra check args]
# runs the check against a scratch worktree of /repo's HEAD with the seeded change applied (VERIF_REPO); /repo itself is not touched,
# so several changes can be tried in parallel.  (Equivalent to: git -C /repo apply <diff>; ./check; git -C /repo checkout -- .)
pid=$1; diff=$(readlink -f "$2"); shift 2
wt=$(mktemp -d /tmp/wt/try_XXXXXX); rmdir "$wt"
git -C /repo worktree add -q --detach "$wt" HEAD || exit 3
cleanup() { git -C /repo worktree remove --force "$wt" 2>/dev/null; rm -rf "$wt"; }
trap cleanup EXIT
cd "$wt"
if ! git apply "$diff" 2>/dev/null; then
  if ! git apply --3way "$diff" >/dev/null 2>&1; then echo "PATCH-DOES-NOT-APPLY $diff"; exit 3; fi
  git reset -q
fi
git diff --stat | tail -1
cd /verif && VERIF_REPO="$wt" ./check $pid --no-evidence "$@" 2>&1 | grep -E "^VIOLATION|^  harness|^INCONCLUSIVE|^HARNESS-ERROR|^KNOWN|tier=" | cut -c1-400 | head -12
exit 0
