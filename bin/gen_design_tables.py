#!/usr/bin/env python3
"""regenerate the generated parts of DESIGN.md (between <!-- BEGIN:name --> / <!-- END:name --> markers) from
known_findings.json and seeded/*/meta.json"""
import glob, json, os, re
V = "/verif"
k = json.load(open(f"{V}/known_findings.json"))["findings"]
fixed = "\n".join(f"* `{e['line']}`" for e in k if e["status"] == "fixed")
opn = []
for e in k:
    if e["status"] != "open":
        continue
    extra = f", obligation `{e['obligation']}`" if e.get("obligation") else ""
    opn.append(f"* **{e['id']}** ({e['property']}, harness `{e.get('harness', 'any')}`{extra}): {e['description']}  \n  region: `{e['region']}`")
rows = ["| Seeded change | Needs, in order to manifest | Quick check verdict | Detecting harness(es) |", "|---|---|---|---|"]
n = det = 0
missed = []
for d in sorted(glob.glob(f"{V}/seeded/*/")):
    m = json.load(open(d + "meta.json"))
    name = os.path.basename(d.rstrip("/"))
    db = m.get("detected_by")
    verdict = db["verdict"] if isinstance(db, dict) else str(db)
    harn = ",".join(db["harnesses"]) if isinstance(db, dict) and db["harnesses"] else "-"
    n += 1
    det += verdict == "DETECTED"
    if verdict != "DETECTED":
        missed.append(name)
    rows.append(f"| {name} | {m['needs'].replace('|', '/')} | {verdict} | {harn} |")
parts = dict(fixed=fixed, open="\n".join(opn), seeded="\n".join(rows) + f"\n\n{det} of {n} are detected by the quick tier" +
             (f" (not detected: {', '.join(missed)})." if missed else "."))
s = open(f"{V}/DESIGN.md").read()
for name, body in parts.items():
    pat = re.compile(rf"(<!-- BEGIN:{name} -->\n).*?(<!-- END:{name} -->)", re.S)
    assert pat.search(s), name
    s = pat.sub(lambda mm: mm.group(1) + body + "\n" + mm.group(2), s)
open(f"{V}/DESIGN.md", "w").write(s)
print(f"fixed={sum(e['status'] == 'fixed' for e in k)} open={len(opn)} seeded={n} detected={det}")

# ---- harness inventory (from the check modules themselves)
import importlib, sys
sys.path.insert(0, V)
inv = ["| Property | Harness | Real functions driven | Quick-tier bounds |", "|---|---|---|---|"]
for i in range(1, 21):
    pid = f"C{i:02d}"
    try:
        mod = importlib.import_module(f"checks.{pid}")
    except Exception as e:      # the inventory needs bionumpy importable; keep the old table otherwise
        inv = None
        break
    for h in mod.HARNESSES:
        fn = "; ".join(h.functions) if isinstance(h.functions, (tuple, list)) else str(h.functions)
        inv.append(f"| {pid} | `{h.name}` | {fn.replace('|', '/')[:400]} | {h.bounds.get('quick', '').replace('|', '/')} |")
if inv:
    s = open(f"{V}/DESIGN.md").read()
    pat = re.compile(r"(<!-- BEGIN:harnesses -->\n).*?(<!-- END:harnesses -->)", re.S)
    if pat.search(s):
        s = pat.sub(lambda mm: mm.group(1) + "\n".join(inv) + "\n" + mm.group(2), s)
        open(f"{V}/DESIGN.md", "w").write(s)
        print("harness inventory:", len(inv) - 2, "harnesses")
