"""SymFile: stand-in for OS files / gzip streams.  Contract: read(n) returns the next min(n, remaining)
bytes; seek relative/absolute; readline/iteration split on LF."""
from .core import SV, S_eq
from .arrays import SymBytes


class SymFile:
    mode = "rb"
    name = "<symfile>"

    def __init__(self, content=()):
        self.content = list(content)
        self.pos = 0
        self.n_reads = 0
        self.closed = False

    def read(self, n=-1):
        if n is None or (not isinstance(n, SV) and n < 0):
            n = len(self.content) - self.pos
        n = int(n)  # forks if symbolic
        out = self.content[self.pos:self.pos + n]
        self.pos += len(out)
        self.n_reads += 1
        return SymBytes(out)

    def readinto(self, arr):
        n = min(len(arr), len(self.content) - self.pos)
        for i in range(n):
            arr[i] = self.content[self.pos + i]
        self.pos += n
        return n

    def write(self, b):
        data = list(b.sym) if isinstance(b, SymBytes) else list(bytes(b))
        self.content[self.pos:self.pos + len(data)] = data
        self.pos += len(data)
        return len(data)

    def seek(self, off, whence=0):
        off = int(off)
        self.pos = off if whence == 0 else (self.pos + off if whence == 1 else len(self.content) + off)
        if self.pos < 0:
            raise OSError("negative seek position")
        return self.pos

    def tell(self):
        return self.pos

    def readline(self):
        out = []
        while self.pos < len(self.content):
            c = self.content[self.pos]
            self.pos += 1
            out.append(c)
            if bool(S_eq(c, 10)):
                break
        return SymBytes(out)

    def peek(self, n=1):
        return SymBytes(self.content[self.pos:self.pos + int(n)])

    def __iter__(self):
        while True:
            l = self.readline()
            if not len(l):
                return
            yield l

    def flush(self):
        pass

    def close(self):
        self.closed = True

    def __enter__(self):
        return self

    def __exit__(self, *a):
        self.close()
