"""symnp.core -- symbolic scalars (SV), path engine and re-execution DFS explorer.

A harness body is an ordinary Python function that calls the real bionumpy code on SymArrays.
Whenever Python needs a concrete answer from a symbolic value (``if x:``, ``int(x)``, a mask used
for selection) the engine decides feasibility with z3 and forks.
"""
import operator
import time
import z3

_np = None  # set by arrays.py (real numpy)


class EngineAbort(BaseException):
    """engine control flow (never caught by library code, which catches Exception at most)"""


class UnsupportedSymbolicOp(EngineAbort):
    pass


class BudgetExceeded(EngineAbort):
    pass


class SolverUnknown(EngineAbort):
    pass


# ------------------------------------------------------------------------------------------------
# scalars
# ------------------------------------------------------------------------------------------------
class SV:
    """symbolic scalar wrapping a z3 Int / Bool / Real term, with optional integer bounds."""
    __slots__ = ("t", "lo", "hi")
    __array_priority__ = 1000

    def __init__(self, t, lo=None, hi=None):
        self.t = t
        self.lo = lo
        self.hi = hi

    def is_bool(self):
        return z3.is_bool(self.t)

    def is_real(self):
        return z3.is_real(self.t)

    def __repr__(self):
        return f"SV({self.t})"

    def __hash__(self):
        return hash(self.t)

    # escapes: routed to the path explorer
    def __bool__(self):
        return ENGINE.branch(self)

    def __index__(self):
        return ENGINE.concretize(self)

    def __int__(self):
        return ENGINE.concretize(self)

    def __float__(self):
        if z3.is_real(self.t):
            raise UnsupportedSymbolicOp("float() of symbolic real")
        return float(ENGINE.concretize(self))

    @property
    def dtype(self):
        import numpy
        if self.is_bool():
            return numpy.dtype(bool)
        if self.is_real():
            return numpy.dtype(float)
        return numpy.dtype(numpy.int64)

    shape = ()
    ndim = 0
    size = 1

    def item(self):
        return self

    def astype(self, dt, **k):
        import numpy
        dt = numpy.dtype(dt)
        if dt == bool:
            return S_ne(self, 0) if not self.is_bool() else self
        if dt.kind in "iu":
            return mk(_as_int(self.t))
        return self

    def __round__(self, n=None):
        return self


import numbers as _numbers
_numbers.Number.register(SV)      # library code dispatches scalars with isinstance(x, Number)


def mk(t, lo=None, hi=None):
    """wrap a z3 term, folding constants to Python values"""
    if z3.is_true(t):
        return True
    if z3.is_false(t):
        return False
    if z3.is_int_value(t):
        return t.as_long()
    if z3.is_rational_value(t):
        from fractions import Fraction
        return Fraction(t.numerator_as_long(), t.denominator_as_long())
    return SV(t, lo, hi)


def simp(t):
    return z3.simplify(t)


def _pyval(x):
    """normalise concrete scalars to plain Python values"""
    if isinstance(x, (bool, int, float)):
        return x
    import numpy
    if isinstance(x, numpy.bool_):
        return bool(x)
    if isinstance(x, numpy.integer):
        return int(x)
    if isinstance(x, numpy.floating):
        return float(x)
    from fractions import Fraction
    if isinstance(x, Fraction):
        return x
    raise TypeError(f"not a scalar: {type(x)}")


def T(x):
    """z3 term of a scalar (SV or concrete)"""
    if isinstance(x, SV):
        return x.t
    if isinstance(x, XorSet):
        return T(x.to_sv())
    x = _pyval(x)
    if isinstance(x, bool):
        return z3.BoolVal(x)
    if isinstance(x, int):
        return z3.IntVal(x)
    from fractions import Fraction
    if isinstance(x, Fraction):
        return z3.RealVal(x)
    if isinstance(x, float):
        if x != x or x in (float("inf"), float("-inf")):
            raise UnsupportedSymbolicOp("nan/inf mixed with symbolic value")
        return z3.RealVal(Fraction(x))
    raise TypeError(type(x))


def _as_int(t):
    if z3.is_bool(t):
        return z3.If(t, z3.IntVal(1), z3.IntVal(0))
    return t


def _as_bool(t):
    if z3.is_bool(t):
        return t
    return t != 0


def TI(x):
    return _as_int(T(x))


def TB(x):
    return _as_bool(T(x))


def is_conc(x):
    return not isinstance(x, SV)


def _bnd(x):
    if isinstance(x, SV):
        if x.is_bool():
            return 0, 1
        return x.lo, x.hi
    try:
        x = _pyval(x)
    except TypeError:
        return None, None
    if isinstance(x, (bool, int)):
        return int(x), int(x)
    return None, None


def _num_terms(a, b):
    ta, tb = T(a), T(b)
    if z3.is_bool(ta):
        ta = _as_int(ta)
    if z3.is_bool(tb):
        tb = _as_int(tb)
    if z3.is_real(ta) != z3.is_real(tb):
        if not z3.is_real(ta):
            ta = z3.ToReal(ta)
        else:
            tb = z3.ToReal(tb)
    return ta, tb


def S_add(a, b):
    if is_conc(a) and is_conc(b):
        return a + b
    ta, tb = _num_terms(a, b)
    (la, ha), (lb, hb) = _bnd(a), _bnd(b)
    lo = la + lb if la is not None and lb is not None else None
    hi = ha + hb if ha is not None and hb is not None else None
    return mk(simp(ta + tb), lo, hi)


def S_sub(a, b):
    if is_conc(a) and is_conc(b):
        return a - b
    ta, tb = _num_terms(a, b)
    (la, ha), (lb, hb) = _bnd(a), _bnd(b)
    lo = la - hb if la is not None and hb is not None else None
    hi = ha - lb if ha is not None and lb is not None else None
    return mk(simp(ta - tb), lo, hi)


def S_mul(a, b):
    if is_conc(a) and is_conc(b):
        return a * b
    if is_conc(a) and _pyval(a) == 0 or is_conc(b) and _pyval(b) == 0:
        return 0
    ta, tb = _num_terms(a, b)
    (la, ha), (lb, hb) = _bnd(a), _bnd(b)
    lo = hi = None
    if None not in (la, ha, lb, hb):
        c = [la * lb, la * hb, ha * lb, ha * hb]
        lo, hi = min(c), max(c)
    return mk(simp(ta * tb), lo, hi)


def S_fdiv(a, b):
    if is_conc(a) and is_conc(b):
        return a // b
    if not is_conc(b):
        raise UnsupportedSymbolicOp("floor division by a symbolic value")
    b = _pyval(b)
    if not isinstance(b, int) or b == 0:
        raise UnsupportedSymbolicOp(f"floor division by {b!r}")
    if b < 0:       # floor(a / b) == floor(-a / -b)
        return S_fdiv(S_neg(a), -b)
    ta = TI(a)
    if z3.is_real(ta):
        raise UnsupportedSymbolicOp("floor division of a symbolic real")
    la, ha = _bnd(a)
    return mk(simp(ta / b), la // b if la is not None else None, ha // b if ha is not None else None)


def S_mod(a, b):
    if is_conc(a) and is_conc(b):
        return a % b
    if not is_conc(b):
        raise UnsupportedSymbolicOp("modulo by a symbolic value")
    b = _pyval(b)
    if not isinstance(b, int) or b == 0:
        raise UnsupportedSymbolicOp(f"modulo by {b!r}")
    if b < 0:       # python/numpy: a % b == -((-a) % (-b))
        return S_neg(S_mod(S_neg(a), -b))
    ta = TI(a)
    la, ha = _bnd(a)
    if la is not None and ha is not None and 0 <= la and ha < b:
        return a if not (isinstance(a, SV) and a.is_bool()) else mk(ta, 0, 1)
    return mk(simp(ta % b), 0, b - 1)


def S_truediv(a, b):
    if is_conc(a) and is_conc(b):
        return a / b
    if not is_conc(b):
        # a symbolic divisor is accepted when the path condition proves it non-zero (z3's x/0 is not NumPy's inf/nan)
        tb0 = _as_int(T(b))
        if not ENGINE.prove(tb0 != 0):
            raise UnsupportedSymbolicOp("division by a symbolic value that may be zero")
    ta, tb = T(a), T(b)
    ta = _as_int(ta)
    if not z3.is_real(ta):
        ta = z3.ToReal(ta)
    tb = _as_int(tb)
    if not z3.is_real(tb):
        tb = z3.ToReal(tb)
    return mk(simp(ta / tb))


def _isnan(v):
    return isinstance(v, float) and v != v


def _cmp(pyop, zop):
    def f(a, b):
        if is_conc(a) and is_conc(b):
            return pyop(a, b)
        if (is_conc(a) and _isnan(_pyval(a))) or (is_conc(b) and _isnan(_pyval(b))):
            return pyop is operator.ne          # IEEE: every comparison with nan is false, except !=
        # cheap bound reasoning
        ta, tb = T(a), T(b)
        if z3.is_bool(ta) and z3.is_bool(tb) and pyop in (operator.eq, operator.ne):
            return mk(simp(zop(ta, tb)))
        ta, tb = _num_terms(a, b)
        (la, ha), (lb, hb) = _bnd(a), _bnd(b)
        r = _bound_cmp(pyop, la, ha, lb, hb)
        if r is not None:
            return r
        return mk(simp(zop(ta, tb)))
    return f


def _bound_cmp(pyop, la, ha, lb, hb):
    if pyop is operator.lt:
        if ha is not None and lb is not None and ha < lb: return True
        if la is not None and hb is not None and la >= hb: return False
    elif pyop is operator.le:
        if ha is not None and lb is not None and ha <= lb: return True
        if la is not None and hb is not None and la > hb: return False
    elif pyop is operator.gt:
        if la is not None and hb is not None and la > hb: return True
        if ha is not None and lb is not None and ha <= lb: return False
    elif pyop is operator.ge:
        if la is not None and hb is not None and la >= hb: return True
        if ha is not None and lb is not None and ha < lb: return False
    elif pyop is operator.eq:
        if ha is not None and lb is not None and ha < lb: return False
        if la is not None and hb is not None and la > hb: return False
    elif pyop is operator.ne:
        if ha is not None and lb is not None and ha < lb: return True
        if la is not None and hb is not None and la > hb: return True
    return None


S_eq = _cmp(operator.eq, lambda a, b: a == b)
S_ne = _cmp(operator.ne, lambda a, b: a != b)
S_lt = _cmp(operator.lt, lambda a, b: a < b)
S_le = _cmp(operator.le, lambda a, b: a <= b)
S_gt = _cmp(operator.gt, lambda a, b: a > b)
S_ge = _cmp(operator.ge, lambda a, b: a >= b)


def _is_boolish(x):
    if isinstance(x, SV):
        return x.is_bool()
    import numpy
    return isinstance(x, (bool, numpy.bool_))


def _bitop(pyop, zop, name):
    def f(a, b):
        if is_conc(a) and is_conc(b):
            return pyop(a, b)
        if _is_boolish(a) and _is_boolish(b):
            return mk(simp(zop(TB(a), TB(b))))
        return _int_bitop(name, a, b)
    return f


def _pow2m1(c):
    return c >= 0 and (c & (c + 1)) == 0


def _int_bitop(name, a, b):
    """bitwise ops between a symbolic integer and a constant mask (non-negative operands assumed
    where stated); anything else is unsupported."""
    if name == "and":
        if is_conc(a):
            a, b = b, a
        if is_conc(b):
            c = _pyval(b)
            if isinstance(c, bool):
                c = int(c)
            ta = TI(a)
            if c == 0:
                return 0
            if _pow2m1(c):                      # x & (2^k-1) == x mod 2^k (also for negative x in two's complement)
                return S_mod(mk(ta, *_bnd(a)), c + 1)
            if c > 0 and (c & (c - 1)) == 0:    # single bit
                return mk(simp(((ta / c) % 2) * c), 0, c)
            # general mask: sum of bits
            res = 0
            bit = 1
            while bit <= c:
                if c & bit:
                    res = S_add(res, mk(simp(((ta / bit) % 2) * bit), 0, bit))
                bit <<= 1
            return res
        # bool & int mixes
        if _is_boolish(a) or _is_boolish(b):
            x, y = (a, b) if _is_boolish(a) else (b, a)
            return mk(simp(z3.If(TB(x), TI(y) % 2, 0)), 0, 1)
    if name == "or" and (_is_boolish(a) or _is_boolish(b)):
        pass
    raise UnsupportedSymbolicOp(f"bitwise {name} on symbolic integers {a!r} {b!r}")


S_and = _bitop(operator.and_, z3.And, "and")
S_or = _bitop(operator.or_, z3.Or, "or")


def S_xor(a, b):
    if is_conc(a) and is_conc(b):
        return a ^ b
    if _is_boolish(a) and _is_boolish(b):
        return mk(simp(z3.Xor(TB(a), TB(b))))
    return XorSet.make(a, b)


def _solver_bounds(a):
    """tighten the bounds of a symbolic int to a small range with the solver when the syntactic interval is too weak"""
    if not isinstance(a, SV) or a.is_bool() or a.is_real():
        return a
    if a.lo is not None and a.hi is not None and a.lo >= -128 and a.hi < 256:
        return a
    if not ENGINE.has_path:
        return a
    lo = hi = None
    if ENGINE.prove(a.t >= 0):
        lo = 0
    else:
        for k in (1, 2, 3, 4, 7):
            if ENGINE.prove(a.t >= -(1 << k)):
                lo = -(1 << k)
                break
    if lo is None:
        return a
    for k in (1, 2, 3, 4, 8):
        if ENGINE.prove(a.t < (1 << k)):
            hi = (1 << k) - 1
            break
    if hi is None:
        return a
    return SV(a.t, lo, hi)


def _xor_bits(a, b):
    """a ^ b for small integers by exact bit decomposition of their two's complement (bounds from the solver if needed)"""
    if is_conc(a) and is_conc(b):
        return a ^ b
    if is_conc(a) and _pyval(a) == 0:
        return b
    if is_conc(b) and _pyval(b) == 0:
        return a
    a, b = _solver_bounds(a), _solver_bounds(b)
    (la, ha), (lb, hb) = _bnd(a), _bnd(b)
    if None in (la, ha, lb, hb) or min(la, lb) < -128 or max(ha, hb) >= 256:
        raise UnsupportedSymbolicOp(f"integer xor of unbounded symbolic values {a!r} ^ {b!r}")
    ta, tb = TI(a), TI(b)
    if la >= 0 and lb >= 0:
        nbits = max(ha, hb).bit_length()
        tot = z3.IntVal(0)
        for k in range(nbits):
            w = 1 << k
            tot = tot + ((ta / w) % 2 + (tb / w) % 2) % 2 * w
        return mk(simp(tot), 0, (1 << nbits) - 1)
    # signed: work modulo 2^(n+1) where -2^n <= v < 2^n, then re-centre
    n = max(max(ha, hb).bit_length(), (-min(la, lb) - 1).bit_length() if min(la, lb) < 0 else 0)
    m = 1 << (n + 1)
    ua, ub = ta % m, tb % m
    tot = z3.IntVal(0)
    for k in range(n + 1):
        w = 1 << k
        tot = tot + ((ua / w) % 2 + (ub / w) % 2) % 2 * w
    return mk(simp(z3.If(tot >= (1 << n), tot - m, tot)), -(1 << n), (1 << n) - 1)


class XorSet:
    """multiset normal form for integer xor: a ^ a cancels syntactically (used by the xor-accumulate
    tricks in run-length expansion).  Only ^ is supported; resolving to a value requires <=1 operand
    (plus a concrete part of 0)."""
    __slots__ = ("items", "const")

    def __init__(self, items, const):
        self.items = items   # dict key(hash of term) -> SV
        self.const = const

    @staticmethod
    def make(a, b):
        items = {}
        const = 0
        for x in (a, b):
            if isinstance(x, XorSet):
                for k, v in x.items.items():
                    if k in items:
                        del items[k]
                    else:
                        items[k] = v
                const ^= x.const
            elif isinstance(x, SV):
                k = x.t.get_id()
                if k in items:
                    del items[k]
                else:
                    items[k] = x
            else:
                const ^= int(_pyval(x))
        if not items:
            return const
        if len(items) == 1 and const == 0:
            return next(iter(items.values()))
        return XorSet(items, const)

    def __xor__(self, o):
        return XorSet.make(self, o)
    __rxor__ = __xor__

    def to_sv(self):
        """resolve the normal form to one term (bit decomposition; needs small non-negative operands)"""
        acc = self.const
        for it in self.items.values():
            acc = _xor_bits(acc, it)
        return acc

    def __repr__(self):
        return f"XorSet({list(self.items.values())}, {self.const})"


def S_max(a, b):
    if is_conc(a) and is_conc(b):
        return max(a, b)
    ta, tb = _num_terms(a, b)
    (la, ha), (lb, hb) = _bnd(a), _bnd(b)
    if la is not None and hb is not None and la >= hb:
        return a
    if lb is not None and ha is not None and lb >= ha:
        return b
    lo = max(la, lb) if la is not None and lb is not None else (la if lb is None else lb)
    hi = max(ha, hb) if ha is not None and hb is not None else None
    return mk(simp(z3.If(ta >= tb, ta, tb)), lo, hi)


def S_min(a, b):
    if is_conc(a) and is_conc(b):
        return min(a, b)
    ta, tb = _num_terms(a, b)
    (la, ha), (lb, hb) = _bnd(a), _bnd(b)
    if ha is not None and lb is not None and ha <= lb:
        return a
    if hb is not None and la is not None and hb <= la:
        return b
    lo = min(la, lb) if la is not None and lb is not None else None
    hi = min(ha, hb) if ha is not None and hb is not None else (ha if hb is None else hb)
    return mk(simp(z3.If(ta <= tb, ta, tb)), lo, hi)


def S_where(c, a, b):
    if is_conc(c):
        return a if c else b
    if isinstance(a, XorSet):
        a = a.to_sv()
    if isinstance(b, XorSet):
        b = b.to_sv()
    if is_conc(a) and is_conc(b) and type(_pyval(a)) == type(_pyval(b)) and _pyval(a) == _pyval(b):
        return a
    ta, tb = T(a), T(b)
    if z3.is_bool(ta) != z3.is_bool(tb) or z3.is_real(ta) != z3.is_real(tb):
        ta, tb = _num_terms(a, b)
    (la, ha), (lb, hb) = _bnd(a), _bnd(b)
    lo = min(la, lb) if la is not None and lb is not None else None
    hi = max(ha, hb) if ha is not None and hb is not None else None
    return mk(simp(z3.If(TB(c), ta, tb)), lo, hi)


def S_not(a):
    if is_conc(a):
        import numpy
        if isinstance(a, (bool, numpy.bool_)):
            return not a
        return ~a
    if not a.is_bool():
        return mk(simp(-a.t - 1))
    return mk(simp(z3.Not(a.t)))


def S_lnot(a):
    if is_conc(a):
        return not a
    return mk(simp(z3.Not(TB(a))))


def S_neg(a):
    if is_conc(a):
        return -a
    la, ha = _bnd(a)
    return mk(simp(-_as_int(a.t)), -ha if ha is not None else None, -la if la is not None else None)


def S_abs(a):
    if is_conc(a):
        return abs(a)
    t = _as_int(a.t)
    la, ha = _bnd(a)
    if la is not None and la >= 0:
        return a
    hi = max(abs(la), abs(ha)) if la is not None and ha is not None else None
    return mk(simp(z3.If(t >= 0, t, -t)), 0, hi)


def S_sign(a):
    if is_conc(a):
        return (a > 0) - (a < 0)
    t = _as_int(a.t)
    return mk(simp(z3.If(t > 0, 1, z3.If(t < 0, -1, 0))), -1, 1)


def S_land(a, b):
    if is_conc(a) and is_conc(b):
        return bool(a) and bool(b)
    if is_conc(a):
        return S_lnot(S_lnot(b)) if a else False
    if is_conc(b):
        return S_lnot(S_lnot(a)) if b else False
    return mk(simp(z3.And(TB(a), TB(b))))


def S_lor(a, b):
    if is_conc(a) and is_conc(b):
        return bool(a) or bool(b)
    if is_conc(a):
        return True if a else S_lnot(S_lnot(b))
    if is_conc(b):
        return True if b else S_lnot(S_lnot(a))
    return mk(simp(z3.Or(TB(a), TB(b))))


def S_lxor(a, b):
    if is_conc(a) and is_conc(b):
        return bool(a) != bool(b)
    return mk(simp(z3.Xor(TB(a), TB(b))))


def S_rshift(a, b):
    if is_conc(a) and is_conc(b):
        return a >> b
    if not is_conc(b):
        raise UnsupportedSymbolicOp("shift by symbolic amount")
    return S_fdiv(a, 1 << int(_pyval(b)))


def S_lshift(a, b):
    if is_conc(a) and is_conc(b):
        return a << b
    if not is_conc(b):
        raise UnsupportedSymbolicOp("shift by symbolic amount")
    return S_mul(a, 1 << int(_pyval(b)))


def S_pow(a, b):
    if is_conc(a) and is_conc(b):
        return a ** b
    if is_conc(b) and isinstance(_pyval(b), int) and 0 <= _pyval(b) <= 4:
        r = 1
        for _ in range(_pyval(b)):
            r = S_mul(r, a)
        return r
    if is_conc(a) and isinstance(b, SV) and not z3.is_real(b.t) and not z3.is_bool(b.t):
        # concrete base, symbolic integer exponent with known small bounds: a table over the exponent values.
        # A float base gives the exact rational power (exact-real model), an integer base with a negative exponent is left out.
        lo, hi = _bnd(b)
        base = _pyval(a)
        if lo is not None and hi is not None and hi - lo <= 256 and isinstance(base, (int, float)) and base != 0:
            from fractions import Fraction
            if isinstance(base, float) or lo >= 0:
                fb = Fraction(base)
                isint = isinstance(base, int)
                t = None
                for k in range(hi, lo - 1, -1):
                    v = fb ** k
                    vt = z3.IntVal(int(v)) if isint else z3.RealVal(f"{v.numerator}/{v.denominator}")
                    t = vt if t is None else z3.If(b.t == k, vt, t)
                if isint:
                    return mk(simp(t), int(min(fb ** lo, fb ** hi)), int(max(fb ** lo, fb ** hi)))
                return mk(simp(t))
    raise UnsupportedSymbolicOp("power with symbolic operand")


def _bin(fn):
    def f(a, b):
        if hasattr(b, "vals") or hasattr(b, "__array_ufunc__") and not isinstance(b, SV):
            return NotImplemented
        return fn(a, b)

    def r(a, b):
        if hasattr(b, "vals") or hasattr(b, "__array_ufunc__") and not isinstance(b, SV):
            return NotImplemented
        return fn(b, a)
    return f, r


for _name, _fn in [("add", S_add), ("sub", S_sub), ("mul", S_mul), ("floordiv", S_fdiv), ("mod", S_mod),
                   ("truediv", S_truediv), ("and", S_and), ("or", S_or), ("xor", S_xor),
                   ("rshift", S_rshift), ("lshift", S_lshift), ("pow", S_pow)]:
    _f, _r = _bin(_fn)
    setattr(SV, f"__{_name}__", _f)
    setattr(SV, f"__r{_name}__", _r)
def _cmp_op(fn, name):
    f = _bin(fn)[0]

    def g(a, b):
        if b is None or isinstance(b, (str, bytes)) and not isinstance(b, SV):
            # like a Python number: equal to no such object, unordered with it
            if name == "eq":
                return False
            if name == "ne":
                return True
            return NotImplemented
        return f(a, b)
    return g


for _name, _fn in [("eq", S_eq), ("ne", S_ne), ("lt", S_lt), ("le", S_le), ("gt", S_gt), ("ge", S_ge)]:
    setattr(SV, f"__{_name}__", _cmp_op(_fn, _name))
SV.__neg__ = S_neg
SV.__pos__ = lambda a: a
SV.__abs__ = S_abs
SV.__invert__ = S_not


def S_select(tab, i, n=None):
    """tab[i] for symbolic i over a concrete-shape 1-d table (list of SV|concrete)."""
    n = len(tab)
    if is_conc(i):
        return tab[i]
    lo, hi = _bnd(i)
    it = TI(i)
    # bounds: numpy semantics (negative wrap, IndexError when out of range)
    if not (lo is not None and hi is not None and 0 <= lo and hi < n):
        inb = mk(simp(z3.And(it >= -n, it < n)))
        if not (is_conc(inb) and inb):
            if not ENGINE.branch_term(TB(inb)):
                raise IndexError(f"index out of bounds for axis 0 with size {n}")
        if not (lo is not None and lo >= 0):
            nonneg = mk(simp(it >= 0))
            if not (is_conc(nonneg) and nonneg):
                it = simp(z3.If(it < 0, it + n, it))
        lo, hi = 0, n - 1
    k0, k1 = max(lo, 0), min(hi, n - 1)
    # 1. segment the feasible index range into runs that are constant or affine with slope 1
    segs = []          # [start, end, kind, param]  kind in {"c","a","s"}; param = value / offset / SV
    for k in range(k0, k1 + 1):
        v = tab[k]
        if isinstance(v, XorSet):
            raise UnsupportedSymbolicOp("gather from xor normal form")
        if not is_conc(v):
            if segs and segs[-1][2] == "s" and segs[-1][3].t.get_id() == v.t.get_id():
                segs[-1][1] = k
            else:
                segs.append([k, k, "s", v])
            continue
        v = _pyval(v)
        if segs and segs[-1][2] != "s":
            sg = segs[-1]
            isint = isinstance(v, int) and not isinstance(v, bool)
            if sg[2] == "c" and type(sg[3]) == type(v) and sg[3] == v:
                sg[1] = k
                continue
            if sg[2] == "a" and isint and v == k + sg[3]:
                sg[1] = k
                continue
            if sg[2] == "c" and sg[0] == sg[1] and isint and isinstance(sg[3], int) and not isinstance(sg[3], bool) \
                    and v == sg[3] + 1:
                sg[2] = "a"; sg[3] = v - k; sg[1] = k
                continue
        segs.append([k, k, "c", v])
    # affine runs of length 2 are not worth it: split them back into constants
    segs2 = []
    for sg in segs:
        if sg[2] == "a" and sg[1] - sg[0] < 2:
            for k in range(sg[0], sg[1] + 1):
                segs2.append([k, k, "c", k + sg[3]])
        else:
            segs2.append(sg)
    # 2. group constant segments by value
    groups = {}
    order = []
    for sg in segs2:
        if sg[2] == "c":
            key = ("c", type(sg[3]).__name__, sg[3])
        elif sg[2] == "a":
            key = ("a", sg[0], sg[3])
        else:
            key = ("s", sg[3].t.get_id())
        if key not in groups:
            groups[key] = (sg[2], sg[3], [])
            order.append(key)
        groups[key][2].append((sg[0], sg[1]))
    items = sorted((groups[k] for k in order), key=lambda g: -sum(e - s + 1 for s, e in g[2]))
    if len(items) == 1 and items[0][0] != "a":
        return items[0][1]
    vals = [g[1] for g in items if g[0] != "a"]
    anyreal = any(isinstance(v, SV) and v.is_real() or isinstance(v, float) for v in vals)
    allbool = bool(vals) and all(_is_boolish(v) for v in vals) and not any(g[0] == "a" for g in items)

    def term(kind, v):
        if kind == "a":
            t = it + v
        else:
            t = T(v)
            if allbool:
                return t
            t = _as_int(t)
        if anyreal and not z3.is_real(t):
            t = z3.ToReal(t)
        return t

    def cond(ranges):
        cs = []
        for s_, e_ in ranges:
            if s_ == e_:
                cs.append(it == s_)
            else:
                lo_c = [it >= s_] if s_ > k0 else []
                hi_c = [it <= e_] if e_ < k1 else []
                cs.append(z3.And(*(lo_c + hi_c)) if lo_c + hi_c else z3.BoolVal(True))
        return z3.Or(*cs) if len(cs) > 1 else cs[0]
    res = term(items[0][0], items[0][1])
    for kind, v, ranges in items[1:]:
        res = z3.If(cond(ranges), term(kind, v), res)
    los, his = [], []
    for kind, v, ranges in items:
        if kind == "a":
            los.append(min(s_ for s_, _ in ranges) + v); his.append(max(e_ for _, e_ in ranges) + v)
        else:
            b = _bnd(v)
            los.append(b[0]); his.append(b[1])
    rlo = min(los) if all(b is not None for b in los) else None
    rhi = max(his) if all(b is not None for b in his) else None
    return mk(simp(res), rlo, rhi)


# ------------------------------------------------------------------------------------------------
# engine
# ------------------------------------------------------------------------------------------------
class Engine:
    def __init__(self):
        self.solver = z3.Solver()
        self.base_pc = []
        self.pc = []
        self.trace = []
        self.replay = []
        self.pending = []
        self.n_queries = 0
        self.n_decisions = 0
        self.solver_s = 0.0
        self.model = None
        self.max_decisions_per_path = 20000
        self.query_timeout_ms = 60000
        self.deadline = None
        self.realisations = 0
        self.forbid_realisation = True
        self.active = False
        self.has_path = False
        self.counter = 0

    # -- solver plumbing
    def _check(self, *extra):
        if self.deadline is not None and time.time() > self.deadline:
            raise BudgetExceeded("wall time budget")
        self.n_queries += 1
        t0 = time.time()
        self.solver.set("timeout", self.query_timeout_ms)
        if extra:
            self.solver.push()
            self.solver.add(*extra)
        r = self.solver.check()
        m = self.solver.model() if r == z3.sat else None
        if extra:
            self.solver.pop()
        self.solver_s += time.time() - t0
        if r == z3.unknown:
            raise SolverUnknown(self.solver.reason_unknown())
        return r == z3.sat, m

    def start_path(self, replay):
        self.solver.reset()
        self.pc = list(self.base_pc)
        if self.pc:
            self.solver.add(*self.pc)
        self.trace = []
        self.replay = replay
        self.model = None
        self.active = True
        self.has_path = True

    def add(self, c):
        if c is True or z3.is_true(c):
            return
        self.pc.append(c)
        self.solver.add(c)
        if self.model is not None:
            try:
                if not z3.is_true(self.model.eval(c, model_completion=True)):
                    self.model = None
            except z3.Z3Exception:
                self.model = None

    def assume(self, x):
        """harness-level assumption (before the run: goes to base_pc if no path active)"""
        c = TB(x) if not z3.is_expr(x) else _as_bool(x)
        if self.active:
            self.add(c)
        else:
            self.base_pc.append(c)

    def get_model(self):
        if self.model is None:
            ok, m = self._check()
            if not ok:
                raise EngineAbort("path condition unsatisfiable")
            self.model = m
        return self.model

    def _decide(self):
        self.n_decisions += 1
        if len(self.trace) > self.max_decisions_per_path:
            raise BudgetExceeded("decisions per path")

    def branch(self, sv):
        return self.branch_term(TB(sv))

    def branch_term(self, c):
        c = simp(c)
        if z3.is_true(c):
            return True
        if z3.is_false(c):
            return False
        self._decide()
        i = len(self.trace)
        if i < len(self.replay):
            v = self.replay[i]
            if v not in (True, False):
                raise EngineAbort(f"non-deterministic replay: expected bool decision, got {v!r}")
        else:
            m = self.get_model()
            cur = z3.is_true(m.eval(c, model_completion=True))
            other, m2 = self._check(z3.Not(c) if cur else c)
            if other:
                self.pending.append(self.trace + [not cur])
            v = cur
        self.trace.append(v)
        self.add(c if v else z3.Not(c))
        return v

    def concretize(self, sv):
        t = TI(sv) if not z3.is_expr(sv) else _as_int(sv)
        t = simp(t)
        if z3.is_int_value(t):
            return t.as_long()
        self._decide()
        i = len(self.trace)
        excl = []
        v = None
        if i < len(self.replay):
            r = self.replay[i]
            if isinstance(r, tuple):
                excl = list(r[1])
            elif isinstance(r, bool):
                raise EngineAbort("non-deterministic replay: expected int decision")
            else:
                v = r
        if v is None:
            if excl:
                ok, m = self._check(*[t != e for e in excl])
                if not ok:
                    raise EngineAbort("replay exclusion infeasible")
            else:
                m = self.get_model()
            v = m.eval(t, model_completion=True).as_long()
            other, _ = self._check(*[t != e for e in excl + [v]])
            if other:
                self.pending.append(self.trace + [("not", excl + [v])])
        self.trace.append(v)
        self.add(t == v)
        return v

    def prove(self, c):
        """True iff the path condition entails c (no fork)"""
        c = simp(c)
        if z3.is_true(c):
            return True
        if z3.is_false(c):
            return False
        m = self.model
        if m is not None and z3.is_false(m.eval(c, model_completion=True)):
            return False
        other, _ = self._check(z3.Not(c))
        return not other

    def fresh(self, prefix="v"):
        self.counter += 1
        return f"{prefix}!{self.counter}"


ENGINE = Engine()


def fresh_int(name, lo=None, hi=None):
    v = z3.Int(name)
    if lo is not None:
        ENGINE.assume(v >= lo)
    if hi is not None:
        ENGINE.assume(v <= hi)
    return SV(v, lo, hi)


def fresh_bool(name):
    return SV(z3.Bool(name))


def fresh_real(name):
    return SV(z3.Real(name))


class PathResult:
    __slots__ = ("trace", "pc", "value", "exc", "abort")

    def __init__(self, trace, pc, value=None, exc=None, abort=None):
        self.trace, self.pc, self.value, self.exc, self.abort = trace, pc, value, exc, abort


def explore(fn, max_paths=100000):
    """run fn() once per feasible path of the base path condition; yields PathResult.
    Library exceptions (Exception) are outcomes; engine aborts are reported in .abort."""
    ENGINE.pending = [[]]
    n = 0
    while ENGINE.pending:
        if n >= max_paths:
            yield PathResult([], [], abort=BudgetExceeded(f"more than {max_paths} paths"))
            return
        replay = ENGINE.pending.pop()
        ENGINE.start_path(replay)
        value = exc = abort = None
        try:
            value = fn()
        except EngineAbort as e:
            abort = e
        except Exception as e:   # library outcome
            exc = e
        finally:
            ENGINE.active = False
        n += 1
        yield PathResult(list(ENGINE.trace), list(ENGINE.pc), value, exc, abort)
