"""symnp.proxy -- the module object that replaces `np` inside bionumpy / npstructures modules."""
import builtins as _b
import functools
import types
import numpy as _np
import z3

from . import core, arrays as A
from .core import (SV, XorSet, ENGINE, UnsupportedSymbolicOp, mk, simp, T, TI, TB, is_conc, S_add, S_sub, S_mul,
                   S_where, S_eq, S_ne, S_lt, S_le, S_gt, S_ge, S_max, S_min, S_land, S_lor, S_select)
from .arrays import (SymArray, SymBytes, obj, has_sym, has_symarray, to_real, wrap_real, dtype_of, conc_index,
                     apply_ufunc, FP, FP1, wrap_array, wrap_elem)


class _NdMeta(type(_np.ndarray)):
    def __instancecheck__(cls, inst):
        return isinstance(inst, (_np.ndarray, SymArray))

    def __subclasscheck__(cls, sub):
        return issubclass(sub, (_np.ndarray, SymArray))

    # library code also tests the exact type: `type(x) == np.ndarray`, `type(x) in (np.ndarray, RaggedArray)`
    def __eq__(cls, other):
        return other is cls or other is _np.ndarray or other is SymArray

    def __ne__(cls, other):
        return not cls.__eq__(other)

    def __hash__(cls):
        return hash(_np.ndarray)


class ndarray(_np.ndarray, metaclass=_NdMeta):
    pass


A.NDARRAY_PROXY = ndarray


class _StrideTricks(types.ModuleType):
    @staticmethod
    def as_strided(x, shape=None, strides=None, **k):
        if isinstance(x, SymArray):
            it = x.dtype.itemsize
            shape = tuple(int(s) for s in shape)
            ostr = tuple(int(s) // it * 8 for s in strides)
            v = x.vals
            if not v.flags.c_contiguous:
                v = _np.ascontiguousarray(v)
            r = _np.lib.stride_tricks.as_strided(v, shape, ostr, writeable=False)
            return SymArray(r, x.dtype)
        return _np.lib.stride_tricks.as_strided(x, shape, strides, **k)

    def __getattr__(self, n):
        return getattr(_np.lib.stride_tricks, n)


class _Lib(types.ModuleType):
    stride_tricks = _StrideTricks("symnp.lib.stride_tricks")

    def __getattr__(self, n):
        return getattr(_np.lib, n)


class SymNp(types.ModuleType):
    ndarray = ndarray
    lib = _Lib("symnp.lib")

    def __getattr__(self, name):
        real = getattr(_np, name)
        if isinstance(real, _np.ufunc) or not callable(real) or isinstance(real, type):
            return real
        cached = _GUARDED.get(name)
        if cached is not None:
            return cached

        @functools.wraps(real)
        def guarded(*a, **k):
            r = _dispatch(guarded, a, k)
            if r is not NotImplemented:
                return r
            if has_sym(a) or has_sym(k):
                raise UnsupportedSymbolicOp(f"np.{name} on symbolic data")
            with _np.errstate(all="ignore"):
                return wrap_real(real(*to_real(a), **to_real(k)))
        _GUARDED[name] = guarded
        return guarded


_GUARDED = {}
symnp = SymNp("symnp")


def _reg(f):
    setattr(symnp, f.__name__.rstrip("_"), f)
    return f


_PLAIN = None


def _foreign_all(a, k):
    """arguments (one level into lists/tuples) of non-ndarray types implementing __array_function__, in NumPy's
    dispatch order: first appearance, a subclass before its superclasses"""
    def it():
        for x in list(a) + list(k.values()):
            yield x
            if isinstance(x, (list, tuple)):
                yield from x
    out = []
    for x in it():
        if isinstance(x, (SymArray, _np.ndarray, SV, XorSet, int, float, bool, str, type(None), _np.generic, list, tuple, dict, slice)):
            continue
        if hasattr(type(x), "__array_function__") and not _b.any(type(y) is type(x) for y in out):
            pos = len(out)
            for i, y in enumerate(out):
                if issubclass(type(x), type(y)):
                    pos = i
                    break
            out.insert(pos, x)
    return out


def _foreign(a, k):
    """first dispatch candidate of _foreign_all (None when there is none)"""
    f = _foreign_all(a, k)
    return f[0] if f else None


def _dispatch(func, a, k):
    """NumPy's __array_function__ protocol: every overloading type is asked in turn; NotImplemented from all -> fall through"""
    fs = _foreign_all(a, k)
    if not fs:
        return NotImplemented
    types = tuple(type(x) for x in fs)
    for x in fs:
        r = x.__array_function__(func, types, a, k)
        if r is not NotImplemented:
            return r
    return NotImplemented


def sym_or_real(name):
    real = getattr(_np, name)

    def deco(f):
        @functools.wraps(f)
        def g(*a, **k):
            r = _dispatch(g, a, k)
            if r is not NotImplemented:
                return r
            if not (has_sym(a) or has_sym(k)):
                o = k.get("out")
                with _np.errstate(all="ignore"):
                    if isinstance(o, SymArray):
                        kk = {x: y for x, y in k.items() if x != "out"}
                        r = real(*to_real(a), **to_real(kk))
                        o.vals[...] = obj(r)
                        return o
                    return wrap_real(real(*to_real(a), **to_real(k)))
            return f(*a, **k)
        setattr(symnp, name, g)
        return g
    return deco


def _shape(s):
    if isinstance(s, (tuple, list)):
        return tuple(int(x) for x in s)
    return int(s)


# ---- creators: always SymArray
@_reg
def zeros(shape, dtype=float, **k):
    if _np.dtype(dtype).kind == "S":
        return SymArray.from_S(_np.zeros(_shape(shape), dtype=dtype))
    return SymArray(obj(_np.zeros(_shape(shape), dtype=dtype)), dtype)


@_reg
def ones(shape, dtype=float, **k):
    if _np.dtype(dtype).kind == "S":
        return SymArray.from_S(_np.zeros(_shape(shape), dtype=dtype))
    return SymArray(obj(_np.ones(_shape(shape), dtype=dtype)), dtype)


@_reg
def empty(shape, dtype=float, **k):
    if _np.dtype(dtype).kind == "S":
        return SymArray.from_S(_np.zeros(_shape(shape), dtype=dtype))
    return SymArray(obj(_np.zeros(_shape(shape), dtype=dtype)), dtype)


@_reg
def full(shape, fill_value, dtype=None, **k):
    if isinstance(fill_value, (SV, SymArray)):
        if isinstance(fill_value, SymArray):
            dt = dtype or fill_value.dtype
            return SymArray(_np.broadcast_to(fill_value.vals, _shape(shape) if isinstance(shape, (tuple, list)) else (_shape(shape),)).copy(), dt)
        out = _np.empty(_shape(shape), dtype=object)
        out.fill(fill_value)
        return SymArray(out, dtype or fill_value.dtype)
    a = _np.full(_shape(shape), fill_value, dtype=dtype)
    return wrap_real(a)


def _like(maker, name):
    def f(a, dtype=None, shape=None, **k):
        fx = _foreign((a,), {})
        if fx is not None:
            kw = dict(k)
            if dtype is not None:
                kw["dtype"] = dtype
            if shape is not None:
                kw["shape"] = shape
            r = fx.__array_function__(f, (type(fx),), (a,), kw)
            if r is not NotImplemented:
                return r
        dt = dtype or a.dtype
        return maker(a.shape if shape is None else shape, dtype=dt)
    f.__name__ = name
    return f


symnp.zeros_like = _like(zeros, "zeros_like")
symnp.ones_like = _like(ones, "ones_like")
symnp.empty_like = _like(empty, "empty_like")


@_reg
def full_like(a, fill_value, dtype=None, shape=None, **k):
    fx = _foreign((a,), {})
    if fx is not None:
        r = fx.__array_function__(full_like, (type(fx),), (a, fill_value), {kk: vv for kk, vv in (("dtype", dtype), ("shape", shape)) if vv is not None})
        if r is not NotImplemented:
            return r
    return full(a.shape if shape is None else shape, fill_value, dtype=dtype or a.dtype)


@_reg
def arange(*a, **k):
    a = tuple(int(x) if isinstance(x, SV) else (x.item() if isinstance(x, _np.generic) else x) for x in a)
    a = tuple(int(x) if isinstance(x, SymArray) else x for x in a)
    return wrap_real(_np.arange(*a, **k))


@_reg
def asanyarray(a, dtype=None, **k):
    if isinstance(a, SymArray):
        if dtype is not None and _np.dtype(dtype).kind == "S" and _np.dtype(dtype).itemsize == 0 and a.dtype.kind == "S":
            return a
        if k.get("order") in ("C", "F") and a.dtype.kind != "S" and not a.vals.flags["C_CONTIGUOUS" if k["order"] == "C" else "F_CONTIGUOUS"]:
            # NumPy returns a COPY when the requested memory order does not hold (a reversed / strided view): writes through the
            # result no longer reach the array the view was taken from
            a = a.copy()
        return a if dtype is None or _np.dtype(dtype) == a.dtype else a.astype(dtype)
    if isinstance(a, SymBytes):
        raise UnsupportedSymbolicOp("asarray(bytes)")
    if isinstance(a, (SV, XorSet)) or (isinstance(a, (list, tuple)) and has_symarray(a)):
        v = obj(a)
        dt = dtype or dtype_of(a)
        return SymArray(wrap_array(v, _np.dtype(dt)) if v.size else v, dt)
    if isinstance(a, _np.ndarray) and a.dtype == object and a.size and _b.any(isinstance(x, SV) for x in a.ravel()):
        return SymArray(a, dtype or int)
    r = _np.asanyarray(a, dtype=dtype, **k)
    if type(r) is _np.ndarray and r.dtype.kind in "iubf":
        return SymArray(obj(r), r.dtype)
    if type(r) is _np.ndarray and r.dtype.kind == "S":
        return SymArray.from_S(r)
    return r


symnp.asarray = asanyarray


@_reg
def array(a, dtype=None, copy=True, **k):
    r = asanyarray(a, dtype=dtype)
    if r is a and isinstance(r, SymArray):
        return r.copy()
    return r


@_reg
def ascontiguousarray(a, dtype=None):
    return asanyarray(a, dtype=dtype, order="C")


@_reg
def frombuffer(b, dtype=float, count=-1, offset=0, **k):
    if isinstance(b, SymBytes):
        sym = b.sym[offset:]
        arr = SymArray(_np.array(sym + [None], dtype=object)[:-1], _np.uint8)
        dt = _np.dtype(dtype)
        if dt != _np.uint8:
            n = (len(sym) // dt.itemsize) * dt.itemsize
            arr = arr[:n].view(dt)
        if count >= 0:
            arr = arr[:count]
        return arr
    return wrap_real(_np.frombuffer(b, dtype=dtype, count=count, offset=offset, **k))


# ---- structural
def _rdt(arrs):
    return _np.result_type(*[dtype_of(a) for a in arrs])


@sym_or_real("concatenate")
def concatenate(arrs, axis=0, out=None, dtype=None, **k):
    arrs = list(arrs)
    if _b.any(not isinstance(a, (SymArray, _np.ndarray, list, tuple, SV, int)) and hasattr(a, "__array_function__") for a in arrs):
        for a in arrs:
            if not isinstance(a, (SymArray, _np.ndarray)) and hasattr(a, "__array_function__"):
                return a.__array_function__(_np.concatenate, (type(a),), (arrs,), {"axis": axis})
    if _b.any(isinstance(a, SymArray) and a.dtype.kind == "S" for a in arrs):
        arrs = [SymArray.from_S(a) if isinstance(a, _np.ndarray) else a for a in arrs]
        k = _b.max(a.dtype.itemsize for a in arrs)
        parts = [a.astype(f"S{k}").vals for a in arrs]
        return SymArray(_np.concatenate(parts, axis=axis), f"S{k}")
    dt = dtype or _rdt(arrs)
    return SymArray(_np.concatenate([obj(a) for a in arrs], axis=axis), dt)


@sym_or_real("append")
def append(a, b, axis=None):
    dt = _rdt([a, b])
    return SymArray(wrap_array(_np.append(obj(a), obj(b), axis=axis), dt), dt)


@sym_or_real("hstack")
def hstack(arrs, **k):
    arrs = list(arrs)
    return SymArray(_np.hstack([obj(a) for a in arrs]), _rdt(arrs))


@sym_or_real("vstack")
def vstack(arrs, **k):
    arrs = list(arrs)
    return SymArray(_np.vstack([obj(a) for a in arrs]), _rdt(arrs))


@sym_or_real("stack")
def stack(arrs, axis=0, **k):
    arrs = list(arrs)
    return SymArray(_np.stack([obj(a) for a in arrs], axis=axis), _rdt(arrs))


@sym_or_real("insert")
def insert(a, idx, v, axis=None):
    a = asanyarray(a)
    idx = conc_index(idx) if isinstance(idx, (SymArray, SV)) else idx
    vv = obj(v) if isinstance(v, (SymArray, list, tuple, _np.ndarray)) else v
    vv = wrap_array(vv, a.dtype) if isinstance(vv, _np.ndarray) else wrap_elem(vv, a.dtype)
    return SymArray(_np.insert(a.vals, idx, vv, axis=axis), a.dtype)


@sym_or_real("delete")
def delete(a, idx, axis=None):
    idx = conc_index(idx) if isinstance(idx, (SymArray, SV)) else idx
    if isinstance(idx, (list, tuple)):
        idx = _np.array([int(i) for i in idx], dtype=_np.int64)
    return SymArray(_np.delete(a.vals, idx, axis=axis), a.dtype)


@sym_or_real("repeat")
def repeat(a, n, axis=None):
    a = asanyarray(a)
    n = conc_index(n) if isinstance(n, (SymArray, SV)) else n
    return SymArray(_np.repeat(a.vals, n, axis=axis), a.dtype)


@sym_or_real("resize")
def resize(a, new_shape):
    a = asanyarray(a)
    return SymArray(_np.resize(a.vals, _shape(new_shape)), a.dtype)


@sym_or_real("tile")
def tile(a, reps):
    a = asanyarray(a)
    return SymArray(_np.tile(a.vals, reps), a.dtype)


@sym_or_real("pad")
def pad(a, pad_width, mode="constant", constant_values=0, **k):
    if mode != "constant":
        raise UnsupportedSymbolicOp(f"pad mode {mode}")
    a = asanyarray(a)
    cv = constant_values
    if isinstance(cv, (SymArray, _np.ndarray)) and getattr(cv, "ndim", 0) == 0:
        cv = cv[()]
    if isinstance(cv, _np.generic):
        cv = cv.item()
    if isinstance(cv, (bytes, str)) and len(cv) == 1:
        cv = ord(cv)
    if not isinstance(cv, (int, bool, SV)):
        raise UnsupportedSymbolicOp(f"pad with constant_values of type {type(cv).__name__}")
    out = _np.pad(a.vals, pad_width, mode="constant", constant_values=0)
    mask = _np.pad(_np.zeros(a.vals.shape, dtype=bool), pad_width, mode="constant", constant_values=True)
    out = out.copy()
    out[mask] = cv
    return SymArray(out, a.dtype)


@sym_or_real("broadcast_to")
def broadcast_to(a, shape, **k):
    a = asanyarray(a)
    return SymArray(_np.broadcast_to(a.vals, shape), a.dtype)


@sym_or_real("atleast_1d")
def atleast_1d(a):
    if isinstance(a, SymArray):
        return a if a.ndim else a.reshape(1)
    return SymArray(obj([a]), dtype_of(a))


@sym_or_real("atleast_2d")
def atleast_2d(a):
    a = asanyarray(a)
    return SymArray(_np.atleast_2d(a.vals), a.dtype)


@sym_or_real("squeeze")
def squeeze(a, axis=None):
    return a.squeeze(axis)


@sym_or_real("ravel")
def ravel(a, **k):
    return asanyarray(a).ravel()


@sym_or_real("reshape")
def reshape(a, shape, **k):
    return asanyarray(a).reshape(shape)


@sym_or_real("transpose")
def transpose(a, axes=None):
    return SymArray(_np.transpose(a.vals, axes), a.dtype)


@sym_or_real("flip")
def flip(a, axis=None):
    return SymArray(_np.flip(a.vals, axis), a.dtype)


@sym_or_real("roll")
def roll(a, shift, axis=None):
    return SymArray(_np.roll(a.vals, shift, axis), a.dtype)


@sym_or_real("expand_dims")
def expand_dims(a, axis):
    return SymArray(_np.expand_dims(a.vals, axis), a.dtype)


def sliding_window_view(x, window_shape, axis=None, *, subok=False, writeable=False):
    if isinstance(x, SymArray):
        return SymArray(_np.lib.stride_tricks.sliding_window_view(x.vals, int(window_shape) if not isinstance(window_shape, tuple) else window_shape, axis=axis), x.dtype)
    fx = _foreign((x,), {})
    if fx is not None:
        return fx.__array_function__(sliding_window_view, (type(fx),), (x, window_shape), dict(subok=subok) if subok else {})
    return _np.lib.stride_tricks.sliding_window_view(x, window_shape, axis=axis, subok=subok, writeable=writeable)


symnp.sliding_window_view = sliding_window_view
_StrideTricks.sliding_window_view = staticmethod(sliding_window_view)


@sym_or_real("copy")
def copy(a, **k):
    return a.copy()


@sym_or_real("take")
def take(a, idx, axis=None, **k):
    return asanyarray(a).take(idx, axis=axis)


@sym_or_real("split")
def split(a, idx, axis=0):
    idx = conc_index(idx) if isinstance(idx, (SymArray, SV)) else idx
    return [SymArray(p, a.dtype) for p in _np.split(a.vals, idx, axis=axis)]


@_reg
def issubdtype(a, b):
    return _np.issubdtype(a.dtype if isinstance(a, SymArray) else a, b)


@_reg
def result_type(*a):
    return _np.result_type(*[x.dtype if isinstance(x, (SymArray, SV)) else x for x in a])


@_reg
def isscalar(x):
    return isinstance(x, SV) or _np.isscalar(x)


@_reg
def ndim(x):
    return x.ndim if isinstance(x, (SymArray, SV)) else _np.ndim(x)


@_reg
def shape(x):
    return x.shape if isinstance(x, (SymArray, SV)) else _np.shape(x)


@_reg
def size(x, axis=None):
    return (x.size if axis is None else x.shape[axis]) if isinstance(x, SymArray) else _np.size(x, axis)


# ---- reductions / scans
def _axis_reduce(name, a, axis, keepdims=False):
    return apply_ufunc(getattr(_np, name), "reduce", (a,), None, {"axis": axis, "keepdims": keepdims})


@sym_or_real("cumsum")
def cumsum(a, axis=None, dtype=None, out=None):
    a = asanyarray(a)
    if axis is None:
        a = a.ravel(); axis = 0
    res = apply_ufunc(_np.add, "accumulate", (a,), None, {"axis": axis})
    if dtype is not None:
        res = res.astype(dtype)
    if out is not None:
        out.vals[...] = res.vals
        return out
    return res


@sym_or_real("sum")
def sum(a, axis=None, dtype=None, out=None, keepdims=False, **k):
    if not isinstance(a, (SymArray, list, tuple, _np.ndarray)):
        if hasattr(a, "sum"):
            return a.sum(axis=axis)
        return a
    a = asanyarray(a)
    if a.size == 0 and axis is None:
        return 0
    r = _axis_reduce("add", a, axis, keepdims)
    return r


@sym_or_real("max")
def max(a, axis=None, out=None, keepdims=False, initial=None, **k):
    a = asanyarray(a)
    if a.size == 0 and initial is not None:
        return initial
    r = _axis_reduce("maximum", a, axis, keepdims)
    if initial is not None:
        r = apply_ufunc(_np.maximum, "__call__", (r, initial), None, {})
    return r


symnp.amax = symnp.max


@sym_or_real("min")
def min(a, axis=None, out=None, keepdims=False, initial=None, **k):
    a = asanyarray(a)
    r = _axis_reduce("minimum", a, axis, keepdims)
    return r


symnp.amin = symnp.min


@sym_or_real("any")
def any(a, axis=None, out=None, keepdims=False, **k):
    a = asanyarray(a)
    if a.size == 0 and axis is None:
        return False
    if a.dtype != bool:
        a = a != 0
    return _axis_reduce("logical_or", a, axis, keepdims)


@sym_or_real("all")
def all(a, axis=None, out=None, keepdims=False, **k):
    a = asanyarray(a)
    if a.size == 0 and axis is None:
        return True
    if a.dtype != bool:
        a = a != 0
    return _axis_reduce("logical_and", a, axis, keepdims)


@sym_or_real("prod")
def prod(a, axis=None, **k):
    return _axis_reduce("multiply", asanyarray(a), axis)


@sym_or_real("mean")
def mean(a, axis=None, **k):
    a = asanyarray(a)
    n = a.size if axis is None else a.shape[axis]
    s = sum(a, axis=axis)
    return s / n


@sym_or_real("count_nonzero")
def count_nonzero(a, axis=None, **k):
    a = asanyarray(a)
    return sum(a != 0 if a.dtype != bool else a, axis=axis)


@sym_or_real("diff")
def diff(a, n=1, axis=-1, prepend=None, append=None):
    a = asanyarray(a)
    if a.ndim != 1 or n != 1:
        raise UnsupportedSymbolicOp("diff n-d")
    if prepend is not None or append is not None:
        parts = ([atleast_1d(asanyarray(prepend))] if prepend is not None else []) + [a] + \
                ([atleast_1d(asanyarray(append))] if append is not None else [])
        a = concatenate(parts)
    if a.dtype == bool:
        return a[1:] != a[:-1]
    return a[1:] - a[:-1]


@sym_or_real("where")
def where(c, a=None, b=None):
    if a is None:
        return nonzero(c)
    for x in (a, b):
        if not isinstance(x, (SymArray, _np.ndarray, SV, int, float, bool, _np.generic, list, tuple)) and hasattr(x, "__array_function__"):
            return x.__array_function__(_np.where, (type(x),), (c, a, b), {})
    f = _np.frompyfunc(S_where, 3, 1)
    sc = lambda x: x if isinstance(x, (SV, int, float, bool)) else (x.item() if isinstance(x, _np.generic) else obj(x))
    r = f(obj(c), sc(a), sc(b))
    dt = _np.result_type(*[(x if isinstance(x, (int, float, bool)) else dtype_of(x)) for x in (a, b)])
    return SymArray(r, dt) if isinstance(r, _np.ndarray) else r


@sym_or_real("flatnonzero")
def flatnonzero(a):
    flat = [bool(v) for v in obj(a).ravel()]
    return wrap_real(_np.flatnonzero(_np.array(flat, dtype=bool)))


@sym_or_real("nonzero")
def nonzero(a):
    a = asanyarray(a)
    flat = [bool(v) for v in a.vals.ravel()]
    return wrap_real(_np.nonzero(_np.array(flat, dtype=bool).reshape(a.shape)))


@sym_or_real("argwhere")
def argwhere(a):
    a = asanyarray(a)
    flat = [bool(v) for v in a.vals.ravel()]
    return wrap_real(_np.argwhere(_np.array(flat, dtype=bool).reshape(a.shape)))


@sym_or_real("clip")
def clip(a, lo=None, hi=None, out=None, **k):
    r = a
    if lo is not None:
        r = apply_ufunc(_np.maximum, "__call__", (r, lo), None, {})
    if hi is not None:
        r = apply_ufunc(_np.minimum, "__call__", (r, hi), None, {})
    return r


@sym_or_real("abs")
def abs(a, **k):
    return apply_ufunc(_np.absolute, "__call__", (a,), None, {})


@sym_or_real("dot")
def dot(a, b):
    a, b = asanyarray(a), asanyarray(b)
    dt = _np.result_type(a.dtype, b.dtype)
    r = a.vals.dot(b.vals)
    return SymArray(wrap_array(r, dt), dt) if isinstance(r, _np.ndarray) else wrap_elem(r, dt)


@sym_or_real("isin")
def isin(a, b, **k):
    a = asanyarray(a); b = asanyarray(b).ravel()
    out = _np.empty(a.vals.shape, dtype=object)
    for pos in _np.ndindex(*a.vals.shape):
        r = False
        for v in b.vals:
            r = S_lor(r, S_eq(a.vals[pos], v))
        out[pos] = r
    return SymArray(out, bool)


@sym_or_real("array_equal")
def array_equal(a, b, **k):
    a, b = asanyarray(a), asanyarray(b)
    if a.shape != b.shape:
        return False
    return bool(all(a == b))


@sym_or_real("allclose")
def allclose(a, b, **k):
    raise UnsupportedSymbolicOp("allclose on symbolic data")


# ---- order-dependent: fork into feasible orderings
def _insertion_order(n, gt):
    idx = list(range(n))
    for i in range(1, n):
        j = i
        while j > 0 and bool(gt(idx[j - 1], idx[j])):   # forks; stable
            idx[j - 1], idx[j] = idx[j], idx[j - 1]
            j -= 1
    return idx


def _argsort_stable(a):
    v = obj(a)
    if v.ndim != 1:
        raise UnsupportedSymbolicOp("argsort n-d")
    idx = _insertion_order(len(v), lambda i, j: S_gt(v[i], v[j]))
    return v, idx


@sym_or_real("argsort")
def argsort(a, axis=-1, kind=None, **k):
    v, idx = _argsort_stable(a)
    n = len(idx)
    if kind in (None, "quicksort", "heapsort") and n > 1:
        # NumPy's default sort is not stable: where equal keys end up is whatever the installed routine does for this order
        # pattern.  Decide the ties between neighbours of the sorted order (forks only where equality is feasible) and let the
        # real routine sort a concrete array with the same weak order, dtype and kind.
        ranks = [0]
        for p in range(1, n):
            tie = _b.bool(S_eq(v[idx[p]], v[idx[p - 1]]))
            ranks.append(ranks[-1] + (0 if tie else 1))
        if ranks[-1] < n - 1:
            dt = getattr(a, "dtype", None)
            dt = dt if dt is not None and _np.dtype(dt).kind in "iuf" else _np.dtype(_np.int64)
            conc = _np.empty(n, dtype=dt)
            for p in range(n):
                conc[idx[p]] = ranks[p]
            return wrap_real(_np.argsort(conc, kind=kind).astype(_np.int64))
    return wrap_real(_np.array(idx, dtype=_np.int64))


@sym_or_real("sort")
def sort(a, axis=-1, kind=None, **k):
    a = asanyarray(a)
    if a.ndim != 1:
        raise UnsupportedSymbolicOp("sort n-d")
    return a[wrap_real(_np.array(_argsort_stable(a)[1], dtype=_np.int64))]       # equal keys are indistinguishable in the values


@sym_or_real("lexsort")
def lexsort(keys, axis=-1):
    ks = [obj(k) for k in keys][::-1]   # last key is primary
    n = len(ks[0])

    def gt(i, j):
        res = False
        for k in reversed(ks):          # build from least significant
            res = S_lor(S_gt(k[i], k[j]), S_land(S_eq(k[i], k[j]), res))
        return res
    idx = _insertion_order(n, gt)
    return wrap_real(_np.array(idx, dtype=_np.int64))


@sym_or_real("searchsorted")
def searchsorted(a, v, side="left", sorter=None):
    a = asanyarray(a)
    if sorter is not None:
        a = a[sorter]
    cmp = S_lt if side == "left" else S_le
    n = len(a)

    def one(x):
        tot = 0
        for e in a.vals:
            tot = S_add(tot, S_where(cmp(e, x), 1, 0))
        if isinstance(tot, SV):
            tot = mk(tot.t, 0, n)
        return tot
    if isinstance(v, (SymArray, _np.ndarray, list, tuple)):
        vv = obj(v)
        out = _np.empty(vv.shape, dtype=object)
        for pos in _np.ndindex(*vv.shape):
            out[pos] = one(vv[pos])
        return SymArray(out, _np.int64)
    return one(v.item() if isinstance(v, _np.generic) else v)


@sym_or_real("unique")
def unique(a, return_index=False, return_inverse=False, return_counts=False, **k):
    a = asanyarray(a).ravel()
    order = wrap_real(_np.array(_argsort_stable(a)[1], dtype=_np.int64))   # np.unique sorts stably when it reports indices
    s = a[order]
    n = len(s)
    keep = [True] + [bool(S_ne(s.vals[i], s.vals[i - 1])) for i in range(1, n)]   # forks
    keep = _np.array(keep, dtype=bool) if n else _np.zeros(0, dtype=bool)
    res = [SymArray(s.vals[keep], a.dtype)]
    ordr = _np.asarray(to_real(order))
    if return_index:
        res.append(wrap_real(ordr[keep]))
    if return_inverse:
        grp = _np.cumsum(keep) - 1
        inv = _np.empty(n, dtype=_np.int64)
        inv[ordr] = grp
        res.append(wrap_real(inv))
    if return_counts:
        pos = _np.flatnonzero(keep)
        res.append(wrap_real(_np.diff(_np.append(pos, n))))
    return res[0] if len(res) == 1 else tuple(res)


@sym_or_real("bincount")
def bincount(x, weights=None, minlength=0):
    x = asanyarray(x)
    if x.size == 0:
        return wrap_real(_np.bincount(_np.zeros(0, dtype=int), minlength=minlength))
    his = [core._bnd(v)[1] for v in x.vals.ravel()]
    if int(minlength) > 0 and _b.all(h is not None and h < int(minlength) for h in his):
        size = int(minlength)            # the result length does not depend on the data
    else:
        m = max(x)
        m = int(m)   # shape-determining: fork on the maximum
        size = _b.max(m + 1, int(minlength))
    w = obj(weights) if weights is not None else None
    out = _np.empty(size, dtype=object)
    for c in range(size):
        tot = 0
        for i, xi in enumerate(x.vals):
            tot = S_add(tot, S_where(S_eq(xi, c), w[i] if w is not None else 1, 0))
        out[c] = tot
    return SymArray(out, _np.int64 if weights is None else dtype_of(weights) if dtype_of(weights).kind == "f" else float)


@sym_or_real("histogram")
def histogram(a, bins=10, range=None, density=None, weights=None):
    """equal-width bins, exact-real model of the edges: count_i = #{x : e_i <= x < e_{i+1}} (last bin closed)"""
    if density or weights is not None or not isinstance(bins, (int, _np.integer)):
        raise UnsupportedSymbolicOp("histogram with density / weights / explicit edges")
    a = asanyarray(a).ravel()
    bins = int(bins)
    xs = list(a.vals)
    if range is None:
        if not xs:
            lo, hi = 0, 1
        else:
            lo, hi = xs[0], xs[0]
            for v in xs[1:]:
                lo, hi = S_min(lo, v), S_max(hi, v)
            if _b.bool(S_eq(lo, hi)):            # forks: a degenerate range is widened by NumPy
                lo, hi = S_sub(lo, core.S_truediv(1, 2)), S_add(hi, core.S_truediv(1, 2))
    else:
        lo, hi = range
        if not (is_conc(lo) and is_conc(hi)):
            raise UnsupportedSymbolicOp("histogram with a symbolic range")
    width = S_sub(hi, lo)
    edges = [S_add(lo, core.S_truediv(S_mul(width, i), bins)) for i in _b.range(bins + 1)]
    edges[-1] = hi
    counts = _np.empty(bins, dtype=object)
    for i in _b.range(bins):
        tot = 0
        for v in xs:
            inside = S_land(S_le(edges[i], v), S_le(v, hi) if i == bins - 1 else S_lt(v, edges[i + 1]))
            tot = S_add(tot, S_where(inside, 1, 0))
        counts[i] = tot
    e = _np.empty(bins + 1, dtype=object)
    for i, v in enumerate(edges):
        e[i] = v
    return SymArray(counts, _np.int64), SymArray(e, _np.float64)


@sym_or_real("argmax")
def argmax(a, axis=None, **k):
    a = asanyarray(a)
    if a.ndim != 1 or axis not in (None, 0, -1):
        if a.ndim == 2 and axis in (1, -1):
            return SymArray(obj([argmax(SymArray(r, a.dtype)) for r in a.vals]), _np.int64)
        raise UnsupportedSymbolicOp("argmax n-d")
    bi, bv = 0, a.vals[0]
    for i in range(1, len(a)):
        c = S_gt(a.vals[i], bv)
        bi = S_where(c, i, bi)
        bv = S_where(c, a.vals[i], bv)
    return bi


@sym_or_real("argmin")
def argmin(a, axis=None, **k):
    a = asanyarray(a)
    if a.ndim != 1:
        raise UnsupportedSymbolicOp("argmin n-d")
    bi, bv = 0, a.vals[0]
    for i in range(1, len(a)):
        c = S_lt(a.vals[i], bv)
        bi = S_where(c, i, bi)
        bv = S_where(c, a.vals[i], bv)
    return bi


@sym_or_real("packbits")
def packbits(a, **k):
    raise UnsupportedSymbolicOp("np.packbits on symbolic data")


@sym_or_real("logical_not")
def logical_not(a, **k):
    return apply_ufunc(_np.logical_not, "__call__", (a,), None, {})


# real ufuncs dispatch through SymArray.__array_ufunc__; but scalars SV need wrappers
def _ufunc_wrapper(uf):
    class U:
        __name__ = uf.__name__
        identity = uf.identity
        nin = uf.nin

        def __call__(self, *a, **k):
            if _b.any(isinstance(x, (SV, XorSet)) for x in a) and not _b.any(isinstance(x, SymArray) for x in a) and \
                    not _b.any(hasattr(x, "__array_ufunc__") and not isinstance(x, (_np.ndarray, _np.generic)) for x in a):
                return apply_ufunc(uf, "__call__", a, k.pop("out", None), k)
            if _b.any(isinstance(x, (list, tuple)) and has_symarray(x) for x in a):
                a = tuple(asanyarray(x) if isinstance(x, (list, tuple)) else x for x in a)
            return uf(*a, **k)

        def __getattr__(self, n):
            return getattr(uf, n)

        def reduce(self, a, *r, **k):
            if isinstance(a, (list, tuple)) and has_symarray(a):
                a = asanyarray(a)
            return uf.reduce(a, *r, **k)

        def accumulate(self, a, *r, **k):
            return uf.accumulate(a, *r, **k)

        def reduceat(self, a, idx, *r, **k):
            if isinstance(a, SymArray):
                return apply_ufunc(uf, "reduceat", (a, idx), k.pop("out", None), k)
            if isinstance(idx, SymArray):
                idx = conc_index(idx)
            return uf.reduceat(a, idx, *r, **k)

        def at(self, a, idx, b=None):
            if isinstance(a, SymArray) or has_sym(idx) or has_sym(b):
                return _ufunc_at(uf, a, idx, b)
            return uf.at(a, to_real(idx), to_real(b)) if b is not None else uf.at(a, to_real(idx))

        def outer(self, a, b, **k):
            if has_symarray((a, b)):
                return apply_ufunc(uf, "outer", (a, b), None, k)
            return uf.outer(a, b, **k)
    return U()


def _ufunc_at(uf, a, idx, b):
    if isinstance(a, SymArray) and not has_sym(a) and not has_sym(idx) and not has_sym(b) and a.dtype.kind != "S":
        # everything concrete: the real routine on a real copy, written back
        real = to_real(a)
        uf.at(real, to_real(idx), to_real(b)) if b is not None else uf.at(real, to_real(idx))
        a.vals[...] = obj(real)
        return
    if uf.__name__ not in ("add", "minimum", "maximum"):
        raise UnsupportedSymbolicOp(f"{uf.__name__}.at")
    if not isinstance(a, SymArray):
        raise UnsupportedSymbolicOp("ufunc.at on real array with symbolic operands")
    combine = {"add": S_add, "minimum": lambda u, v: S_where(S_lt(v, u), v, u), "maximum": lambda u, v: S_where(S_lt(u, v), v, u)}[uf.__name__]
    idx_c = conc_index(idx) if not isinstance(idx, tuple) else tuple(conc_index(i) for i in idx)
    vals = obj(b) if isinstance(b, (SymArray, _np.ndarray, list, tuple)) else b
    it = _np.broadcast(*(idx_c if isinstance(idx_c, tuple) else (idx_c,)))
    shape = it.shape
    bv = _np.broadcast_to(vals, shape) if isinstance(vals, _np.ndarray) else None
    for n, pos in enumerate(_np.ndindex(*shape)):
        ii = tuple(_np.broadcast_to(_np.asarray(i), shape)[pos] for i in (idx_c if isinstance(idx_c, tuple) else (idx_c,)))
        a.vals[ii] = wrap_elem(combine(a.vals[ii], bv[pos] if bv is not None else vals), a.dtype)


for _n in ("add", "subtract", "multiply", "maximum", "minimum", "logical_and", "logical_or", "logical_xor", "logical_not",
           "bitwise_and", "bitwise_or", "bitwise_xor", "equal", "not_equal", "less", "less_equal", "greater",
           "greater_equal", "floor_divide", "remainder", "mod", "true_divide", "divide", "negative", "absolute",
           "invert", "sign", "power", "log10", "log", "right_shift", "left_shift"):
    setattr(symnp, _n, _ufunc_wrapper(getattr(_np, _n)))
