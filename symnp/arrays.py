"""symnp.arrays -- SymArray: object-dtype ndarray of SV|concrete plus a logical dtype.
Structural work is delegated to real NumPy on the object array; scalar semantics come from core.S_*.
"""
import builtins as _b
import numpy as _np
import z3

from . import core
from .core import (SV, XorSet, ENGINE, UnsupportedSymbolicOp, is_conc, mk, simp, T, TI, TB,
                   S_add, S_sub, S_mul, S_fdiv, S_mod, S_truediv, S_eq, S_ne, S_lt, S_le, S_gt, S_ge,
                   S_and, S_or, S_xor, S_max, S_min, S_where, S_not, S_lnot, S_neg, S_abs, S_sign,
                   S_land, S_lor, S_lxor, S_rshift, S_lshift, S_pow, S_select)

core._np = _np


def _sym(v):
    return isinstance(v, SYMTYPES)


class SymMarker:
    """base class of non-SV symbolic cell values (e.g. floats.Log10OfInt)"""


SYMTYPES = (SV, XorSet, SymMarker)


def conc_array(vals):
    """True if the object array has no symbolic elements"""
    for v in vals.ravel():
        if isinstance(v, SYMTYPES):
            return False
    return True


def has_sym(x):
    if isinstance(x, SYMTYPES):
        return True
    if isinstance(x, SymArray):
        return not conc_array(x.vals)
    if isinstance(x, SymBytes):
        return _b.any(isinstance(v, SV) for v in x.sym)
    if isinstance(x, (list, tuple)):
        return _b.any(has_sym(i) for i in x)
    if isinstance(x, dict):
        return _b.any(has_sym(i) for i in x.values())
    if isinstance(x, slice):
        return has_sym((x.start, x.stop, x.step))
    return False


def has_symarray(x):
    if isinstance(x, (SymArray, SV, XorSet)):
        return True
    if isinstance(x, (list, tuple)):
        return _b.any(has_symarray(i) for i in x)
    if isinstance(x, dict):
        return _b.any(has_symarray(i) for i in x.values())
    return False


def obj(x):
    """object-dtype ndarray view of anything array-like (python scalars inside)"""
    if isinstance(x, SymArray):
        return x.vals
    if isinstance(x, (SV, XorSet)):
        out = _np.empty((), dtype=object)
        out[()] = x
        return out
    if isinstance(x, (list, tuple)) and has_symarray(x):
        parts = [obj(i) for i in x]
        if not parts:
            return _np.empty((0,), dtype=object)
        out = _np.empty((len(parts),) + parts[0].shape, dtype=object)
        for i, p in enumerate(parts):
            out[i] = p if p.ndim else p[()]
        return out
    a = _np.asarray(x)
    if a.dtype == object:
        return a
    out = _np.empty(a.shape, dtype=object)
    if a.ndim == 0:
        out[()] = a.item()
    elif a.size:
        out.ravel()[:] = a.ravel().tolist()
    return out


def dtype_of(x):
    if isinstance(x, SymArray):
        return x.dtype
    if isinstance(x, SV):
        return x.dtype
    if isinstance(x, XorSet):
        return _np.dtype(_np.int64)
    if hasattr(x, "dtype") and isinstance(getattr(x, "dtype"), _np.dtype):
        return x.dtype
    if isinstance(x, (list, tuple)) and has_symarray(x):
        return _np.result_type(*[dtype_of(i) for i in x]) if len(x) else _np.dtype(float)
    return _np.asarray(x).dtype


def to_real(x):
    """convert all-concrete SymArrays (recursively) to real ndarrays of the logical dtype"""
    if isinstance(x, SymArray):
        if x.dtype.kind == "S":
            return _np.array(x.vals.tolist(), dtype=_np.uint8).reshape(x.vals.shape).view(x.dtype).reshape(x.shape)
        return _np.array(x.vals.tolist(), dtype=x.dtype).reshape(x.shape)
    if isinstance(x, list):
        return [to_real(i) for i in x]
    if isinstance(x, tuple):
        return tuple(to_real(i) for i in x)
    if isinstance(x, dict):
        return {k: to_real(v) for k, v in x.items()}
    if isinstance(x, slice):
        return slice(to_real(x.start), to_real(x.stop), to_real(x.step))
    return x


def wrap_real(r):
    """wrap results of real numpy calls back into SymArrays (numeric / bool / bytes arrays only)"""
    if isinstance(r, _np.ndarray) and type(r) in (_np.ndarray, NDARRAY_PROXY) and r.dtype.kind in "iubf":
        return SymArray(obj(r), r.dtype)
    if isinstance(r, _np.ndarray) and r.dtype.kind == "S" and type(r) is _np.ndarray:
        return SymArray.from_S(r)
    if isinstance(r, tuple):
        return tuple(wrap_real(i) for i in r)
    if isinstance(r, list):
        return [wrap_real(i) for i in r]
    return r


NDARRAY_PROXY = None   # set in proxy.py

_INT_RANGE = {}


def _int_range(dt):
    r = _INT_RANGE.get(dt)
    if r is None:
        ii = _np.iinfo(dt)
        r = _INT_RANGE[dt] = (int(ii.min), int(ii.max))
    return r


def wrap_elem(v, dt):
    """fixed-width wrap-around for one element of logical dtype dt (64-bit types are not wrapped:
    stated assumption)."""
    if dt.kind not in "iu":
        return v
    if isinstance(v, XorSet):
        return v
    lo, hi = _int_range(dt)
    if not isinstance(v, SV):
        if isinstance(v, (bool, _np.bool_)):
            return int(v)
        if isinstance(v, float):
            return v
        if lo <= v <= hi:
            return v
        if dt.itemsize == 8:
            return (v - lo) % (1 << 64) + lo
        return (v - lo) % (hi - lo + 1) + lo
    if v.is_bool():
        return mk(core._as_int(v.t), 0, 1)
    if v.is_real():
        return v
    if v.lo is not None and v.hi is not None and lo <= v.lo and v.hi <= hi:
        return v
    if dt.itemsize == 8 and (v.lo is None or v.hi is None):
        return v      # unbounded 64-bit values: overflow not modelled (stated assumption)
    m = hi - lo + 1
    if lo == 0:
        return mk(simp(v.t % m), 0, hi)
    return mk(simp((v.t - lo) % m + lo), lo, hi)


_wrap_cache = {}


def wrap_array(vals, dt):
    if dt.kind not in "iu":
        return vals
    f = _wrap_cache.get(dt)
    if f is None:
        f = _wrap_cache[dt] = _np.frompyfunc(lambda v: wrap_elem(v, dt), 1, 1)
    if isinstance(vals, _np.ndarray):
        if vals.size == 0:
            return vals
        return f(vals)
    return wrap_elem(vals, dt)


# ------------------------------------------------------------------------------------------------
class SymBytes(bytes):
    """bytes subclass whose real content is a placeholder; .sym holds the payload (list of SV|int)"""
    def __new__(cls, sym):
        sym = list(sym)
        self = super().__new__(cls, bytes((v if not isinstance(v, SV) else 0xAA) for v in sym))
        self.sym = sym
        return self

    def __getitem__(self, i):
        r = self.sym[i]
        return SymBytes(r) if isinstance(i, slice) else r

    def __iter__(self):
        return iter(self.sym)

    def __add__(self, o):
        return SymBytes(self.sym + (o.sym if isinstance(o, SymBytes) else list(o)))

    def __radd__(self, o):
        return SymBytes((o.sym if isinstance(o, SymBytes) else list(o)) + self.sym)

    def decode(self, encoding="utf-8", errors="strict"):
        """text of the bytes; a byte outside ASCII is decided per path (strict ascii / utf-8 refuse it: for a lone byte >= 128 both raise
        UnicodeDecodeError; multi-byte utf-8 sequences of symbolic bytes are not modelled)"""
        from .strs import SymStr
        if not any(isinstance(v, SV) for v in self.sym):
            return bytes(self.sym).decode(encoding, errors)
        enc = encoding.lower().replace("-", "").replace("_", "")
        if enc in ("latin1", "iso88591", "latin"):
            return SymStr(self.sym)
        if enc not in ("ascii", "utf8") or errors != "strict":
            raise UnsupportedSymbolicOp(f"bytes.decode({encoding!r}, {errors!r}) of symbolic bytes")
        for k, v in enumerate(self.sym):
            bad = ENGINE.branch_term(v.t >= 128) if isinstance(v, SV) else v >= 128
            if bad:
                if enc == "utf8" and not isinstance(v, SV):
                    raise UnsupportedSymbolicOp("utf-8 decoding of non-ASCII bytes next to symbolic ones")
                raise UnicodeDecodeError(enc, bytes([0x80]), 0, 1, "ordinal not in range(128)" if enc == "ascii" else "invalid start byte")
        return SymStr(self.sym)


# ------------------------------------------------------------------------------------------------
class SymArray:
    __array_priority__ = 2000

    def __init__(self, vals, dtype):
        self.vals = vals if isinstance(vals, _np.ndarray) and vals.dtype == object else obj(vals)
        self.dtype = _np.dtype(dtype)

    # 'S<k>' arrays: vals has one extra trailing axis of length k holding the bytes
    @classmethod
    def from_S(cls, real):
        k = real.dtype.itemsize
        b = _np.frombuffer(real.tobytes(), dtype=_np.uint8).reshape(real.shape + (k,))
        return cls(obj(b), real.dtype)

    @property
    def shape(self):
        if self.dtype.kind == "S":
            return self.vals.shape[:-1]
        return self.vals.shape

    @property
    def size(self):
        if self.dtype.kind == "S":
            return int(_np.prod(self.vals.shape[:-1], dtype=int))
        return self.vals.size

    @property
    def ndim(self):
        return len(self.shape)

    @property
    def itemsize(self):
        return self.dtype.itemsize

    @property
    def nbytes(self):
        return self.size * self.dtype.itemsize

    @property
    def strides(self):
        return tuple(x // 8 * self.dtype.itemsize for x in self.vals.strides)

    @property
    def T(self):
        return SymArray(self.vals.T, self.dtype)

    @property
    def flat(self):
        return iter(self.ravel())

    @property
    def base(self):
        return self.vals.base

    @property
    def flags(self):
        return self.vals.flags

    @property
    def real(self):
        return self

    def __len__(self):
        return self.shape[0]

    def __array__(self, dtype=None, copy=None):
        # hand-over to real numpy C code: concretise every element (forks where not determined)
        if has_sym(self):
            ENGINE.realisations += 1
            if getattr(ENGINE, "forbid_realisation", False):
                raise UnsupportedSymbolicOp("SymArray handed to real NumPy code (__array__)")
        if self.dtype == bool:
            flat = [bool(v) for v in self.vals.ravel()]
        elif self.dtype.kind == "f":
            flat = [float(v) for v in self.vals.ravel()]
        else:
            flat = [int(v) for v in self.vals.ravel()]
        if self.dtype.kind == "S":
            return _np.array(flat, dtype=_np.uint8).reshape(self.vals.shape).view(self.dtype).reshape(self.shape)
        r = _np.array(flat, dtype=self.dtype).reshape(self.shape)
        return r if dtype is None else r.astype(dtype)

    def __repr__(self):
        return f"SymArray({self.vals.tolist()}, {self.dtype})"

    def __iter__(self):
        for i in range(len(self)):
            yield self[i]

    def __bool__(self):
        if self.size != 1:
            raise ValueError("The truth value of an array with more than one element is ambiguous.")
        return bool(self.vals.ravel()[0])

    def __int__(self):
        if self.ndim != 0:      # NumPy >= 2.x: only 0-dimensional arrays convert
            raise TypeError("only 0-dimensional arrays can be converted to Python scalars")
        return int(self.vals[()])

    def __index__(self):
        if self.ndim != 0:
            raise TypeError("only integer scalar arrays can be converted to a scalar index")
        return int(self.vals[()])

    def __float__(self):
        if self.ndim != 0:
            raise TypeError("only 0-dimensional arrays can be converted to Python scalars")
        return float(self.vals[()])

    def _wrap(self, v, dtype=None):
        dtype = dtype or self.dtype
        if isinstance(v, _np.ndarray):
            return SymArray(v, dtype)
        return v

    # ---- indexing
    def __getitem__(self, idx):
        if self.dtype.kind == "S":
            idx2 = idx if isinstance(idx, tuple) else (idx,)
            r = self.vals[tuple(conc_index(i) for i in idx2)]
            return SymArray(r, self.dtype)
        if isinstance(idx, slice) and hasattr(idx.start, "__len__") and hasattr(idx.stop, "__len__"):
            # npstructures.mixin.NPSArray semantics (arrays of starts/stops -> ragged slices)
            from npstructures.raggedarray.raggedslice import ragged_slice
            return ragged_slice(self, idx.start, idx.stop)
        g = _sym_gather(self, idx)
        if g is not None:
            return g
        idx = conc_index(idx)
        return self._wrap(self.vals[idx])

    def __setitem__(self, idx, value):
        if _sym_scatter(self, idx, value):
            return
        idx = conc_index(idx)
        v = value
        if isinstance(v, SymArray):
            v = v.vals
        elif isinstance(v, (list, tuple)) and has_symarray(v):
            v = obj(v)
        elif isinstance(v, _np.ndarray) and v.dtype != object:
            v = obj(v)
        elif isinstance(v, _np.generic):
            v = v.item()
        elif hasattr(v, "raw") and not isinstance(v, (SV, XorSet)):
            raise UnsupportedSymbolicOp(f"assignment of {type(v).__name__} into SymArray")
        if self.dtype.kind in "iu":
            v = wrap_array(v, self.dtype) if isinstance(v, _np.ndarray) else wrap_elem(v, self.dtype)
        if self.dtype.kind == "S":
            idx = idx if isinstance(idx, tuple) else (idx,)
        elif isinstance(v, _np.ndarray) and v.ndim > 0:
            try:
                single = not isinstance(self.vals[idx], _np.ndarray)
            except Exception:
                single = False
            if single:      # an object array would store the array as one element; NumPy (>= 2.4) rejects it
                raise ValueError("setting an array element with a sequence.")
        self.vals[idx] = v

    def reshape(self, *a, **k):
        if len(a) == 1 and isinstance(a[0], (tuple, list)):
            a = tuple(a[0])
        a = tuple(int(x) for x in a)
        if self.dtype.kind == "S":
            return SymArray(self.vals.reshape(a + (self.vals.shape[-1],)), self.dtype)
        return SymArray(self.vals.reshape(*a, **k), self.dtype)

    def ravel(self, order="C"):
        if self.dtype.kind == "S":
            return self.reshape(-1)
        return SymArray(self.vals.ravel(), self.dtype)

    def flatten(self):
        return SymArray(self.vals.flatten() if self.dtype.kind != "S" else self.reshape(-1).vals.copy(), self.dtype)

    def squeeze(self, axis=None):
        return SymArray(self.vals.squeeze(axis), self.dtype)

    def transpose(self, *a):
        return SymArray(self.vals.transpose(*a), self.dtype)

    def swapaxes(self, a, b):
        return SymArray(self.vals.swapaxes(a, b), self.dtype)

    def repeat(self, n, axis=None):
        return SymArray(self.vals.repeat(conc_index(n), axis=axis), self.dtype)

    def take(self, idx, axis=None):
        return self[idx] if axis in (None, 0) and self.ndim == 1 else SymArray(self.vals.take(conc_index(idx), axis=axis), self.dtype)

    def copy(self, order="C"):
        return SymArray(self.vals.copy(), self.dtype)

    def __copy__(self):
        return self.copy()

    def __deepcopy__(self, memo):
        return self.copy()

    def view(self, t=None, *a):
        from .views import view
        return view(self, t)

    def astype(self, dt, **k):
        from .views import astype
        return astype(self, dt, **k)

    def tolist(self):
        if self.dtype.kind == "S":
            if has_sym(self):
                raise UnsupportedSymbolicOp("tolist() of symbolic byte strings")
            return to_real(self).tolist()
        return self.vals.tolist()

    def tobytes(self):
        return bytes(self)

    def __bytes__(self):
        from .views import to_bytes
        return to_bytes(self)

    def item(self, *a):
        return self.vals.item(*a)

    def fill(self, v):
        self.vals.fill(wrap_elem(v, self.dtype))

    def nonzero(self):
        from . import proxy
        return proxy.symnp.nonzero(self)

    def searchsorted(self, v, side="left", sorter=None):
        from . import proxy
        return proxy.symnp.searchsorted(self, v, side=side, sorter=sorter)

    def dot(self, other):
        from . import proxy
        return proxy.symnp.dot(self, other)

    def __matmul__(self, other):
        return self.dot(other)

    def clip(self, lo=None, hi=None, **k):
        from . import proxy
        return proxy.symnp.clip(self, lo, hi)

    def byteswap(self, *a, **k):
        raise UnsupportedSymbolicOp("byteswap")

    def __array_ufunc__(self, ufunc, method, *inputs, out=None, **kwargs):
        return apply_ufunc(ufunc, method, inputs, out, kwargs)

    def __array_function__(self, func, types, args, kwargs):
        from . import proxy
        f = getattr(proxy.symnp, func.__name__, None)
        if f is None:
            raise UnsupportedSymbolicOp(f"np.{func.__name__} (array_function)")
        return f(*args, **kwargs)


def _method(name):
    def m(self, *a, **k):
        from . import proxy
        return getattr(proxy.symnp, name)(self, *a, **k)
    m.__name__ = name
    return m


for _n in ("sum", "max", "min", "any", "all", "cumsum", "argsort", "argmax", "argmin", "mean", "prod", "cumprod"):
    setattr(SymArray, _n, _method(_n))


def _sort_method(self, axis=-1, kind=None, **k):
    from . import proxy
    self.vals[...] = proxy.symnp.sort(self, axis=axis).vals


SymArray.sort = _sort_method


def _binop(name):
    uf = getattr(_np, name)

    def op(a, b):
        if not isinstance(b, (SymArray, SV, XorSet, _np.ndarray, _np.generic, int, float, bool, list, tuple, bytes)):
            if hasattr(b, "__array_ufunc__"):
                return NotImplemented if type(b).__array_ufunc__ is None else b.__array_ufunc__(uf, "__call__", a, b)
            return NotImplemented
        return apply_ufunc(uf, "__call__", (a, b), None, {})

    def rop(a, b):
        return apply_ufunc(uf, "__call__", (b, a), None, {})

    def iop(a, b):
        res = op(a, b)
        if res is NotImplemented:
            return res
        if isinstance(res, SymArray):
            a.vals[...] = wrap_array(_np.broadcast_to(res.vals, a.vals.shape), a.dtype)
        else:
            a.vals[...] = wrap_elem(res, a.dtype)
        return a
    return op, rop, iop


for _py, _uf in [("add", "add"), ("sub", "subtract"), ("mul", "multiply"), ("floordiv", "floor_divide"),
                 ("truediv", "true_divide"), ("mod", "remainder"), ("and", "bitwise_and"), ("or", "bitwise_or"),
                 ("xor", "bitwise_xor"), ("pow", "power"), ("rshift", "right_shift"), ("lshift", "left_shift")]:
    _o, _r, _i = _binop(_uf)
    setattr(SymArray, f"__{_py}__", _o)
    setattr(SymArray, f"__r{_py}__", _r)
    setattr(SymArray, f"__i{_py}__", _i)
for _py, _uf in [("eq", "equal"), ("ne", "not_equal"), ("lt", "less"), ("le", "less_equal"), ("gt", "greater"),
                 ("ge", "greater_equal")]:
    setattr(SymArray, f"__{_py}__", _binop(_uf)[0])
SymArray.__neg__ = lambda a: apply_ufunc(_np.negative, "__call__", (a,), None, {})
SymArray.__pos__ = lambda a: a
SymArray.__invert__ = lambda a: apply_ufunc(_np.invert, "__call__", (a,), None, {})
SymArray.__abs__ = lambda a: apply_ufunc(_np.absolute, "__call__", (a,), None, {})
SymArray.__hash__ = None


# ------------------------------------------------------------------------------------------------
# indexing helpers
# ------------------------------------------------------------------------------------------------
def conc_index(idx):
    """make an index expression concrete (forking where it is symbolic and shape-determining)"""
    if isinstance(idx, tuple):
        return tuple(conc_index(i) for i in idx)
    if isinstance(idx, SymArray):
        if idx.dtype == bool:
            flat = [bool(v) for v in idx.vals.ravel()]   # forks via SV.__bool__
            return _np.array(flat, dtype=bool).reshape(idx.shape)
        flat = [int(v) for v in idx.vals.ravel()]
        return _np.array(flat, dtype=_np.int64).reshape(idx.shape)
    if isinstance(idx, SV):
        return int(idx)
    if isinstance(idx, slice):
        return slice(conc_index(idx.start), conc_index(idx.stop), conc_index(idx.step))
    if isinstance(idx, list) and has_symarray(idx):
        return [conc_index(i) for i in idx]
    return idx


def concretize_array(x):
    """explicit, shape-determining concretisation of a SymArray (forks on undetermined elements)"""
    if x.dtype == bool:
        flat = [bool(v) for v in x.vals.ravel()]
    elif x.dtype.kind == "f":
        flat = [float(v) for v in x.vals.ravel()]
    else:
        flat = [int(v) for v in x.vals.ravel()]
    return _np.array(flat, dtype=x.dtype).reshape(x.shape)


def _is_sym_int_index(i):
    if isinstance(i, SV) and not i.is_bool():
        return True
    return isinstance(i, SymArray) and i.dtype != bool and i.dtype.kind in "iu" and not conc_array(i.vals)


def _sym_gather(arr, idx):
    """gather with symbolic integer indices: 1-d tables, and n-d tables indexed by a tuple of
    integer arrays/scalars (pure advanced indexing).  Returns None when idx is not symbolic."""
    if _is_sym_int_index(idx):
        if arr.ndim == 1:
            tab = arr.vals.tolist()
            if isinstance(idx, SV):
                return S_select(tab, idx)
            f = _np.frompyfunc(lambda i: S_select(tab, i), 1, 1)
            return SymArray(f(idx.vals), arr.dtype)
        # first-axis gather on n-d: gather each trailing cell
        if isinstance(idx, SV):
            cells = [arr.vals[k] for k in range(arr.vals.shape[0])]
            out = _np.empty(arr.vals.shape[1:], dtype=object)
            for pos in _np.ndindex(*out.shape):
                out[pos] = S_select([c[pos] for c in cells], idx)
            return SymArray(out, arr.dtype)
        out = _np.empty(idx.vals.shape + arr.vals.shape[1:], dtype=object)
        for ipos in _np.ndindex(*idx.vals.shape):
            i = idx.vals[ipos]
            for pos in _np.ndindex(*arr.vals.shape[1:]):
                out[ipos + pos] = S_select([arr.vals[(k,) + pos] for k in range(arr.vals.shape[0])], i)
        return SymArray(out, arr.dtype)
    if isinstance(idx, tuple) and _b.any(_is_sym_int_index(i) for i in idx):
        if len(idx) != arr.ndim or not _b.all(isinstance(i, (SymArray, SV, int, _np.integer, _np.ndarray, list)) for i in idx):
            # mixed slices + symbolic: concretise (forks)
            return None
        parts = [obj(i) for i in idx]
        bc = _np.broadcast_arrays(*parts)
        out = _np.empty(bc[0].shape, dtype=object)
        shape = arr.vals.shape
        flat = arr.vals.ravel().tolist()
        for pos in _np.ndindex(*out.shape):
            lin = 0
            for ax, p in enumerate(bc):
                i = p[pos]
                n = shape[ax]
                if isinstance(i, SV):
                    inb = mk(simp(z3.And(i.t >= -n, i.t < n)))
                    if not (is_conc(inb) and inb) and not ENGINE.branch_term(TB(inb)):
                        raise IndexError("index out of bounds")
                    if not (i.lo is not None and i.lo >= 0):
                        i = S_where(S_lt(i, 0), S_add(i, n), i)
                        i = mk(i.t, 0, n - 1) if isinstance(i, SV) else i
                    else:
                        i = mk(i.t, _b.max(i.lo, 0), _b.min(i.hi if i.hi is not None else n - 1, n - 1))
                elif i < 0:
                    i += n
                lin = S_add(S_mul(lin, n), i)
            out[pos] = S_select(flat, lin)
        return SymArray(out, arr.dtype) if out.ndim else out[()]
    return None


def _sym_scatter(arr, idx, value):
    """a[idx] = value with symbolic integer idx (1-d) or symbolic boolean mask + scalar/broadcast
    value: per-cell ite, no fork.  Returns False if not applicable."""
    if isinstance(idx, SymArray) and idx.dtype == bool and not conc_array(idx.vals) and idx.shape == arr.shape:
        v = value
        if isinstance(v, SymArray) and v.ndim == 0:
            v = v.vals[()]
        if isinstance(v, _np.generic):
            v = v.item()
        if isinstance(v, (SV, int, float, bool)):
            v = wrap_elem(v, arr.dtype)
            f = _np.frompyfunc(lambda m, old: S_where(m, v, old), 2, 1)
            arr.vals[...] = f(idx.vals, arr.vals)
            return True
        return False   # array value: needs a concrete mask (fork)
    if _is_sym_int_index(idx) and arr.ndim == 1:
        ids = [idx] if isinstance(idx, SV) else list(idx.vals.ravel())
        vs = value.vals if isinstance(value, SymArray) else value
        if isinstance(idx, SV) and isinstance(vs, _np.ndarray) and vs.ndim > 0:     # as NumPy (>= 2.4): one element cannot take an array
            raise ValueError("setting an array element with a sequence.")
        if isinstance(vs, _np.ndarray):
            vs = list(_np.broadcast_to(vs if vs.dtype == object else obj(vs), (len(ids),)).ravel()) if vs.size != len(ids) or True else vs
        elif isinstance(vs, (list, tuple)):
            vs = list(vs)
        else:
            vs = [vs] * len(ids)
        n = arr.vals.shape[0]
        for i, v in zip(ids, vs):
            v = wrap_elem(v.item() if isinstance(v, _np.generic) else v, arr.dtype)
            if isinstance(i, SV) and (isinstance(v, XorSet) or (arr.dtype != bool and isinstance(v, SV))):
                # symbolic value at a symbolic position of a non-boolean array: concretise the position (fork).
                # Keeps cells free of If(pos == c, v, old) chains, so that the xor-accumulate expansion of run-length
                # arrays still cancels syntactically (a ^ a) instead of needing a bit-level encoding.
                i = int(i)
            if isinstance(i, SV):
                inb = mk(simp(z3.And(i.t >= -n, i.t < n)))
                if not (is_conc(inb) and inb) and not ENGINE.branch_term(TB(inb)):
                    raise IndexError("index out of bounds")
                ii = i
                if not (i.lo is not None and i.lo >= 0):
                    ii = S_where(S_lt(i, 0), S_add(i, n), i)
                lo = ii.lo if isinstance(ii, SV) and ii.lo is not None else 0
                hi = ii.hi if isinstance(ii, SV) and ii.hi is not None else n - 1
                for c in range(_b.max(lo, 0), _b.min(hi, n - 1) + 1):
                    arr.vals[c] = S_where(S_eq(ii, c), v, arr.vals[c])
            else:
                arr.vals[int(i)] = v
        return True
    return False


# ------------------------------------------------------------------------------------------------
# ufuncs
# ------------------------------------------------------------------------------------------------
UF = {
    "add": S_add, "subtract": S_sub, "multiply": S_mul, "floor_divide": S_fdiv, "remainder": S_mod,
    "true_divide": S_truediv, "divide": S_truediv,
    "equal": S_eq, "not_equal": S_ne, "less": S_lt, "less_equal": S_le, "greater": S_gt, "greater_equal": S_ge,
    "maximum": S_max, "minimum": S_min, "logical_and": S_land, "logical_or": S_lor, "logical_xor": S_lxor,
    "bitwise_and": S_and, "bitwise_or": S_or, "bitwise_xor": S_xor, "right_shift": S_rshift,
    "left_shift": S_lshift, "power": S_pow,
}
UF1 = {"negative": S_neg, "absolute": S_abs, "logical_not": S_lnot, "invert": S_not, "sign": S_sign,
       "positive": lambda a: a}
FP = {k: _np.frompyfunc(v, 2, 1) for k, v in UF.items()}
FP1 = {k: _np.frompyfunc(v, 1, 1) for k, v in UF1.items()}
BOOLRES = {"logical_xor", "equal", "not_equal", "less", "less_equal", "greater", "greater_equal", "logical_and",
           "logical_or", "logical_not"}

_rdt_cache = {}


def result_dtype(ufunc, inputs):
    """NumPy's own promotion, obtained by running the real ufunc on empty arrays / weak scalars"""
    key = [ufunc.__name__]
    dummies = []
    for i in inputs:
        if isinstance(i, SymArray) or (isinstance(i, _np.ndarray)):
            dt = i.dtype if i.dtype.kind != "S" else _np.dtype(_np.uint8)
            if dt == object:
                dt = _np.dtype(_np.int64)
            key.append(dt.str)
            dummies.append(_np.empty(0, dtype=dt))
        elif isinstance(i, SV):
            k = "b" if i.is_bool() else ("f" if i.is_real() else "i")
            key.append("w" + k)
            dummies.append({"b": True, "f": 1.0, "i": 1}[k])
        elif isinstance(i, XorSet):
            key.append("wi")
            dummies.append(1)
        elif isinstance(i, _np.generic):
            key.append(i.dtype.str)
            dummies.append(_np.empty(0, dtype=i.dtype))
        elif isinstance(i, (list, tuple)):
            dt = dtype_of(i)
            key.append(dt.str)
            dummies.append(_np.empty(0, dtype=dt))
        elif isinstance(i, bool):
            key.append("wb"); dummies.append(True)
        elif isinstance(i, int):
            key.append("wi"); dummies.append(1 if abs(i) < 100 else i)
            if abs(i) >= 100:
                key[-1] = f"wi{i}"
        elif isinstance(i, float):
            key.append("wf"); dummies.append(1.0)
        else:
            a = _np.asarray(i)
            key.append(a.dtype.str); dummies.append(_np.empty(0, dtype=a.dtype))
    key = tuple(key)
    r = _rdt_cache.get(key)
    if r is None:
        with _np.errstate(all="ignore"):
            res = ufunc(*dummies)
        r = _rdt_cache[key] = _np.asarray(res).dtype
    return r


def _S_compare(name, a, b):
    """(in)equality of byte strings held as NUL-padded byte matrices (also against bytes scalars): all bytes equal after padding"""
    def mat(v):
        if isinstance(v, SymArray) and v.dtype.kind == "S":
            return v.vals
        if isinstance(v, (bytes, _np.bytes_)):
            return obj(_np.frombuffer(bytes(v), dtype=_np.uint8))
        if isinstance(v, _np.ndarray) and v.dtype.kind == "S":
            return SymArray.from_S(v).vals
        raise UnsupportedSymbolicOp(f"comparison of byte strings with {type(v).__name__}")
    ma, mb = mat(a), mat(b)
    k = _b.max(ma.shape[-1], mb.shape[-1])
    pad = lambda m: _np.concatenate([m, _np.zeros(m.shape[:-1] + (k - m.shape[-1],), dtype=object)], axis=-1) if m.shape[-1] < k else m
    ma, mb = _np.broadcast_arrays(pad(ma), pad(mb))
    out = _np.empty(ma.shape[:-1], dtype=object)
    for pos in _np.ndindex(*out.shape):
        r = True
        for j in _b.range(k):
            r = S_land(r, S_eq(ma[pos][j], mb[pos][j]))
        out[pos] = r if name == "equal" else S_not(r)
    return SymArray(out, bool) if out.ndim else out[()]


def apply_ufunc(ufunc, method, inputs, out, kwargs):
    name = ufunc.__name__
    for i in inputs:
        if not isinstance(i, (SymArray, _np.ndarray, SV, XorSet, _np.generic)) and hasattr(i, "__array_ufunc__") \
                and type(i).__array_ufunc__ is not None and not isinstance(i, (list, tuple)):
            kw = dict(kwargs)
            if out is not None:
                kw["out"] = out
            return i.__array_ufunc__(ufunc, method, *inputs, **kw)
    o = None
    if out is not None:
        o = out[0] if isinstance(out, tuple) else out
    if not has_sym(inputs):
        # all-concrete fast path: exactly NumPy's semantics
        kw = {k: to_real(v) for k, v in kwargs.items()}
        fn = ufunc if method == "__call__" else getattr(ufunc, method)
        with _np.errstate(all="ignore"):
            if o is not None and not isinstance(o, SymArray):
                return fn(*to_real(inputs), out=o, **kw)
            res = fn(*to_real(inputs), **kw)
        if o is not None:
            o.vals[...] = obj(res)
            return o
        return wrap_real(res)
    if name in ("equal", "not_equal") and _b.any(isinstance(i, SymArray) and i.dtype.kind == "S" for i in inputs):
        return _S_compare(name, inputs[0], inputs[1])
    if name == "log10" or name == "log":
        from .floats import sym_log
        return sym_log(name, inputs[0])
    if name in ("isnan", "isinf"):
        a = inputs[0]
        return SymArray(obj(_np.zeros(a.shape, dtype=bool)), bool) if isinstance(a, SymArray) else False
    if name in ("floor", "ceil", "rint", "trunc", "sqrt", "exp"):
        raise UnsupportedSymbolicOp(f"ufunc {name} on symbolic data")
    ins = [obj(i) if isinstance(i, (SymArray, _np.ndarray, list, tuple)) else
           (i.item() if isinstance(i, _np.generic) else i) for i in inputs]
    if name in FP:
        f = FP[name]
    elif name in FP1:
        f = FP1[name]
    else:
        raise UnsupportedSymbolicOp(f"ufunc {name}")
    if method == "__call__":
        rdt = result_dtype(ufunc, inputs)
        # operands of narrower signed/unsigned types are first cast to the result type by numpy
        res = f(*ins)
        if name == "absolute" and rdt.kind == "i":
            lo = _int_range(rdt)[0]
            hi_ = _int_range(rdt)[1]

            def _absmin(r, x):
                if isinstance(x, SV) and not (x.lo is not None and x.lo > lo):
                    r = S_where(S_eq(x, lo), lo, r)
                    if isinstance(r, SV):
                        r = mk(r.t, lo, hi_)
                return r
            res = _np.frompyfunc(_absmin, 2, 1)(res, ins[0])
    elif method in ("reduce", "accumulate"):
        a = inputs[0]
        rdt = a.dtype
        if name in BOOLRES:
            rdt = _np.dtype(bool)
        elif name == "add" and a.dtype.kind in "bui" and a.dtype.itemsize < 8:
            rdt = _np.dtype(_np.int64 if a.dtype.kind in "bi" else _np.uint64)
        axis = kwargs.get("axis", 0)
        v = ins[0]
        if a.dtype == bool and name in ("add",):
            v = _np.frompyfunc(lambda x: S_where(x, 1, 0), 1, 1)(v) if v.size else v
        if method == "reduce":
            if axis is None:
                v = v.ravel(); axis = 0
            if v.shape[axis] == 0:
                ident = ufunc.identity
                if ident is None:
                    raise ValueError("zero-size array to reduction operation which has no identity")
                shp = tuple(s for k, s in enumerate(v.shape) if k != axis % v.ndim)
                res = _np.full(shp, ident, dtype=object) if shp else ident
            else:
                res = f.reduce(v, axis=axis)
            if kwargs.get("keepdims"):
                res = _np.expand_dims(obj(res), axis)
        else:
            res = f.accumulate(v, axis=axis) if v.size else v
    elif method == "reduceat":
        a = inputs[0]
        rdt = a.dtype
        idx = conc_index(inputs[1]) if isinstance(inputs[1], (SymArray, SV)) else _np.asarray(inputs[1]).astype(int)
        v = ins[0]
        if name in BOOLRES:
            rdt = _np.dtype(bool)
        elif a.dtype == bool and name == "add":
            v = _np.frompyfunc(lambda x: S_where(x, 1, 0), 1, 1)(v) if v.size else v
            rdt = _np.dtype(_np.int64)
        res = f.reduceat(v, idx, axis=kwargs.get("axis", 0)) if len(idx) else _np.empty((0,) + v.shape[1:], dtype=object)
    elif method == "outer":
        rdt = result_dtype(ufunc, inputs)
        res = f.outer(*ins)
    else:
        raise UnsupportedSymbolicOp(f"ufunc method {method}")
    if kwargs.get("dtype") is not None:
        rdt = _np.dtype(kwargs["dtype"])
    res = wrap_array(res, rdt)
    if o is not None:
        if isinstance(o, SymArray):
            o.vals[...] = wrap_array(res, o.dtype) if o.dtype != rdt else res
        else:
            o[...] = _np.asarray(SymArray(res, o.dtype))
        return o
    if isinstance(res, _np.ndarray):
        return SymArray(res, rdt)
    return res
