"""symbolic text: str subclasses carrying a symbolic payload, plus the `bytes`/`ord` stand-ins that
are bound into library modules which convert str to arrays."""
from .core import SV
from .arrays import SymBytes

_bytes, _ord = bytes, ord


class SymChar(str):
    def __new__(cls, sv):
        self = str.__new__(cls, "\x00")
        self.sv = sv
        return self


class SymStr(str):
    def __new__(cls, syms):
        syms = list(syms)
        self = str.__new__(cls, "".join(chr(v) if not isinstance(v, SV) else "\x00" for v in syms))
        self.sym = syms
        return self

    def __iter__(self):
        for v in self.sym:
            yield SymChar(v) if isinstance(v, SV) else chr(v)

    def __getitem__(self, i):
        r = self.sym[i]
        if isinstance(i, slice):
            return SymStr(r)
        return SymChar(r) if isinstance(r, SV) else chr(r)


def sym_bytes(*a, **k):
    if a and isinstance(a[0], SymStr):
        return SymBytes(a[0].sym)
    return _bytes(*a, **k)


def sym_ord(c):
    if isinstance(c, SymChar):
        return c.sv
    return _ord(c)
