"""symnp -- a symbolic NumPy backend: runs the real bionumpy/npstructures code over z3 terms."""
import sys
import numpy as _np
from .core import (SV, XorSet, ENGINE, Engine, EngineAbort, UnsupportedSymbolicOp, BudgetExceeded, SolverUnknown,
                   fresh_int, fresh_bool, fresh_real, explore, mk, simp, T, TI, TB, PathResult)
from .arrays import SymArray, SymBytes, has_sym, obj, to_real, wrap_real
from .proxy import symnp, ndarray
from .files import SymFile

_installed = False


def install(verbose=False):
    """rebind the global `np` of every loaded bionumpy / npstructures module to the proxy."""
    global _installed
    import io, contextlib
    import npstructures, npstructures.util
    import bionumpy  # noqa
    import importlib, pkgutil
    # load every submodule first, so that modules imported lazily by the library are rebound too
    for pkg in (bionumpy, npstructures):
        for m in pkgutil.walk_packages(pkg.__path__, pkg.__name__ + "."):
            if any(part in m.name for part in (".tests", ".cli", "plotting", ".scripts", "benchmark", "cupy", "testing")):
                continue
            try:
                importlib.import_module(m.name)
            except Exception:
                pass
    with contextlib.redirect_stdout(io.StringIO()):
        npstructures.util.np.set_backend(symnp)
    n = 0
    for name, mod in list(sys.modules.items()):
        if name.startswith(("bionumpy", "npstructures")) and mod is not None:
            for attr in ("np", "_np"):
                if getattr(mod, attr, None) is _np:
                    setattr(mod, attr, symnp)
                    n += 1
    from . import stubs
    stubs.apply()
    _installed = True
    return n
