"""dtype reinterpretation (view), conversion (astype) and bytes() for SymArray."""
import numpy as _np
import z3

from .core import SV, XorSet, UnsupportedSymbolicOp, mk, simp, TI, S_ne, S_where, S_add, S_mul, S_mod, S_fdiv, S_lt, S_sub
from . import arrays as A


def _le_combine(bytes_, signed):
    n = len(bytes_)
    tot = 0
    for j, b in enumerate(bytes_):
        tot = S_add(tot, S_mul(b, 256 ** j))
    if isinstance(tot, SV):
        tot = mk(tot.t, 0, 256 ** n - 1)
    if signed:
        half = 256 ** n // 2
        if isinstance(tot, SV):
            tot = S_where(S_lt(tot, half), tot, S_sub(tot, 256 ** n))
            if isinstance(tot, SV):
                tot = mk(tot.t, -half, half - 1)
        elif tot >= half:
            tot -= 256 ** n
    return tot


def _le_split(v, n, signed):
    m = 256 ** n
    if isinstance(v, SV):
        u = S_mod(v, m) if not (v.lo is not None and v.lo >= 0 and v.hi is not None and v.hi < m) else v
        return [S_mod(S_fdiv(u, 256 ** j), 256) for j in range(n)]
    u = int(v) % m
    return [(u >> (8 * j)) & 255 for j in range(n)]


def view(self, t):
    SymArray = A.SymArray
    if t is None:
        return SymArray(self.vals, self.dtype)
    if isinstance(t, type) and (issubclass(t, _np.ndarray) or t is A.NDARRAY_PROXY):
        return self
    dt = _np.dtype(t)
    src = self.dtype
    if dt == src:
        return SymArray(self.vals, self.dtype)
    # bytes <-> S<k>
    if src.kind == "S" and dt == _np.uint8:
        return SymArray(self.vals.reshape(self.vals.shape[:-2] + (-1,)) if self.vals.ndim >= 2 else self.vals, dt)
    if src == _np.uint8 and dt.kind == "S":
        k = dt.itemsize
        if self.vals.shape[-1] % k:
            raise ValueError("When changing to a larger dtype, its size must be a divisor of the total size")
        return SymArray(self.vals.reshape(self.vals.shape[:-1] + (self.vals.shape[-1] // k, k)), dt)
    if src.kind == "S" and dt.kind == "S":
        flat = self.vals.reshape(self.vals.shape[:-2] + (-1,))
        return SymArray(flat.reshape(flat.shape[:-1] + (flat.shape[-1] // dt.itemsize, dt.itemsize)), dt)
    if src.kind not in "iub" or dt.kind not in "iub":
        if not A.has_sym(self):
            # bit patterns of concrete values (e.g. float64 <-> uint64): the real reinterpretation
            real = _np.array(self.vals.tolist(), dtype=src).reshape(self.vals.shape).view(dt)
            return A.wrap_real(real) if hasattr(A, "wrap_real") else SymArray(A.obj(real), dt)
        raise UnsupportedSymbolicOp(f"view {src} -> {dt}")
    if src.itemsize == dt.itemsize:
        if dt == bool:
            return SymArray(A.FP["not_equal"](self.vals, 0) if self.vals.size else self.vals, dt)
        if src == bool:
            return SymArray(_np.frompyfunc(lambda x: S_where(x, 1, 0), 1, 1)(self.vals) if self.vals.size else self.vals, dt)
        return SymArray(A.wrap_array(self.vals, dt), dt)   # signed <-> unsigned of same width
    if src.itemsize == 1 and dt.itemsize > 1:
        n = dt.itemsize
        v = self.vals
        if src == _np.int8:
            v = A.wrap_array(v, _np.dtype(_np.uint8))
        if v.shape[-1] % n:
            raise ValueError("When changing to a larger dtype, its size must be a divisor of the total size in bytes of the last axis of the array.")
        grp = v.reshape(v.shape[:-1] + (v.shape[-1] // n, n))
        out = _np.empty(grp.shape[:-1], dtype=object)
        for pos in _np.ndindex(*out.shape):
            out[pos] = _le_combine(list(grp[pos]), dt.kind == "i")
        return SymArray(out, dt)
    if dt.itemsize == 1 and src.itemsize > 1:
        n = src.itemsize
        out = _np.empty(self.vals.shape + (n,), dtype=object)
        for pos in _np.ndindex(*self.vals.shape):
            out[pos] = _le_split(self.vals[pos], n, src.kind == "i")
        out = out.reshape(self.vals.shape[:-1] + (-1,))
        r = SymArray(out, _np.uint8)
        return r if dt == _np.uint8 else view(r, dt)
    # wider <-> wider via bytes
    return view(view(self, _np.uint8), dt)


def astype(self, dt, **k):
    SymArray = A.SymArray
    dt = _np.dtype(dt)
    src = self.dtype
    if dt.kind == "S" and dt.itemsize == 0 and src.kind == "S":
        dt = src
    if dt == src:
        return SymArray(self.vals.copy(), dt) if k.get("copy", True) else self
    if not A.has_sym(self) and src.kind != "S" and dt.kind != "S":
        with _np.errstate(all="ignore"):
            return A.wrap_real(A.to_real(self).astype(dt))
    if not A.has_sym(self) and src.kind in "iub" and dt.kind == "S":     # concrete numbers rendered as text (np.arange(n).astype('S'))
        return A.wrap_real(A.to_real(self).astype(dt))
    if dt == bool:
        return SymArray(A.FP["not_equal"](self.vals, 0) if self.vals.size else self.vals.copy(), dt)
    if src.kind == "f" and dt.kind in "iu":
        from .floats import real_to_int
        return SymArray(_np.frompyfunc(real_to_int, 1, 1)(self.vals) if self.vals.size else self.vals.copy(), dt)
    if src == bool and dt.kind in "iuf":
        return SymArray(_np.frompyfunc(lambda x: S_where(x, 1, 0), 1, 1)(self.vals) if self.vals.size else self.vals.copy(), dt)
    if dt.kind in "iu":
        return SymArray(A.wrap_array(self.vals, dt), dt)
    if dt.kind == "f":
        return SymArray(self.vals.copy(), dt)
    if dt.kind == "S" and src.kind == "S":
        k0, k1 = src.itemsize, dt.itemsize
        if k1 <= k0:
            return SymArray(self.vals[..., :k1].copy(), dt)
        pad = _np.zeros(self.vals.shape[:-1] + (k1 - k0,), dtype=object)
        pad.fill(0)
        return SymArray(_np.concatenate([self.vals, pad], axis=-1), dt)
    raise UnsupportedSymbolicOp(f"astype {src} -> {dt}")


def to_bytes(self):
    if self.dtype.kind == "S" or self.dtype.itemsize == 1:
        v = self.vals
        if self.dtype == bool:
            v = _np.frompyfunc(lambda x: S_where(x, 1, 0), 1, 1)(v) if v.size else v
        elif self.dtype == _np.int8:
            v = A.wrap_array(v, _np.dtype(_np.uint8))
        return A.SymBytes(v.ravel().tolist())
    return to_bytes(view(self.ravel() if self.ndim != 1 else self, _np.uint8))
