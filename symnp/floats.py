"""Floating point models.

(b) IEEE model for the integer-width computation log10(|n|).astype(int): np.log10 of a symbolic
integer yields a Log10OfInt marker; converting it to an integer dtype yields the Int step function
sum_k [n >= B_k], where the integer breakpoints B_k are *measured* on the real composite
trunc(log10(float64(n))) at start-up (and tied to libm's crossings by the conversion lemma proved in
checks/C18).  Any other use of a Log10OfInt is unsupported (inconclusive).
(a) exact-real model: symbolic floats are z3 Real terms.
"""
import numpy as _np
import z3

from .core import SV, UnsupportedSymbolicOp, mk, simp, TI
from . import arrays as A


class Log10OfInt(A.SymMarker):
    __slots__ = ("n",)

    def __init__(self, n):
        self.n = n

    def __repr__(self):
        return f"log10({self.n})"


def _g(n):
    with _np.errstate(all="ignore"):
        return int(_np.log10(_np.array([n], dtype=_np.int64)).astype(int)[0])


_IB = None


def int_breakpoints():
    """B_k = least n in [1, 2^63) with trunc(log10(float64(n))) >= k, k = 1..18 (bisection on the real
    NumPy composite; assumes it is monotone, which the conversion lemma + libm monotonicity give)."""
    global _IB
    if _IB is None:
        out = []
        for k in range(1, 19):
            lo, hi = 1, 2 ** 63 - 1
            while hi - lo > 1:
                mid = (lo + hi) // 2
                if _g(mid) >= k:
                    hi = mid
                else:
                    lo = mid
            out.append(hi)
        _IB = out
    return _IB


def sym_log(name, a):
    if name != "log10":
        raise UnsupportedSymbolicOp(f"np.{name} on symbolic data")
    def f(v):
        if isinstance(v, SV):
            if v.is_real():
                raise UnsupportedSymbolicOp("log10 of symbolic real")
            return Log10OfInt(v)
        with _np.errstate(all="ignore"):
            return float(_np.log10(v))
    if isinstance(a, A.SymArray):
        return A.SymArray(_np.frompyfunc(f, 1, 1)(a.vals), float)
    return f(a)


def real_to_int(v):
    if isinstance(v, Log10OfInt):
        n = TI(v.n)
        t = z3.IntVal(0)
        for k, B in enumerate(int_breakpoints(), 1):
            t = z3.If(n >= B, k, t)
        # log10 of n <= 0 is -inf / nan -> astype(int) gives int64.min: callers clamp with maximum(.,1) first
        return mk(simp(t), 0, 18)
    if isinstance(v, SV):
        if v.is_real():
            t = v.t
            return mk(simp(z3.If(t >= 0, z3.ToInt(t), -z3.ToInt(-t))))
        return v
    from fractions import Fraction
    if isinstance(v, Fraction):
        return int(v)
    with _np.errstate(all="ignore"):
        return int(_np.float64(v).astype(_np.int64))
