"""Stubs / adaptations applied to third-party code at install time.  Every one is listed in the evidence."""
import numpy as _np
from .arrays import SymArray
from .core import SV

APPLIED = []
APPLIED_DESCR = APPLIED


def _concretize_shapes():
    """npstructures shape objects always hold concrete numbers (forks on symbolic lengths)."""
    import npstructures.raggedshape as rs

    def conc(x):
        if isinstance(x, SymArray):
            from .arrays import concretize_array, wrap_real, has_sym
            # concrete values, but still a SymArray: a real ndarray indexed by a symbolic mask would hand the mask to NumPy
            return wrap_real(concretize_array(x)) if has_sym(x) else x
        if isinstance(x, SV):
            return int(x)
        return x
    o1 = rs.RaggedShape.__init__

    def i1(self, codes, is_coded=False):
        return o1(self, conc(codes), is_coded)
    rs.RaggedShape.__init__ = i1
    o2 = rs.ViewBase.__init__

    def i2(self, codes, lengths=None, step=None):
        return o2(self, conc(codes), conc(lengths), step)
    rs.ViewBase.__init__ = i2
    o3 = rs.RaggedView2.__post_init__

    def i3(self):
        self.starts = conc(self.starts)
        self.lengths = conc(self.lengths)
        return o3(self)
    rs.RaggedView2.__post_init__ = i3
    APPLIED.append("npstructures RaggedShape/ViewBase/RaggedView2 constructors concretise their arguments")


def _message_formatting():
    import bionumpy.encodings.alphabet_encoding as ae
    _chr = chr
    ae.chr = lambda c: "?" if isinstance(c, SV) else _chr(c)
    APPLIED.append("alphabet_encoding.chr returns '?' for symbolic bytes (exception message text outside the claim)")


def _repr_stubs():
    """str()/repr() of encoded data with symbolic content (only used to build exception messages) is a placeholder"""
    import bionumpy.encoded_array as ea
    from .arrays import has_sym
    for cls in (ea.EncodedArray, ea.EncodedRaggedArray):
        for meth in ("__str__", "__repr__"):
            orig = getattr(cls, meth)

            def wrapped(self, _orig=orig):
                d = self.raw() if hasattr(self, "raw") else None
                try:
                    d = d.ravel() if hasattr(d, "ravel") else d
                except Exception:
                    pass
                if isinstance(d, SymArray) and has_sym(d):
                    return "<symbolic text>"
                return _orig(self)
            setattr(cls, meth, wrapped)
    APPLIED.append("str()/repr() of EncodedArray/EncodedRaggedArray with symbolic content returns a placeholder (exception message text outside the claim)")


def _function_keyed_tables():
    """tables keyed by NumPy function objects at import time also get the proxy's function objects as keys"""
    import bionumpy.computation_graph as cg
    from .proxy import symnp
    for real_name in ("sum", "histogram"):
        real = getattr(_np, real_name)
        if real in cg.reductions_map:
            cg.reductions_map[getattr(symnp, real_name)] = cg.reductions_map[real]
    APPLIED.append("computation_graph.reductions_map also keyed by the proxy's sum/histogram function objects")
    # npstructures dispatches its __array_function__ through a table keyed by the real NumPy functions
    import npstructures.arrayfunctions as af
    for real in list(af.HANDLED_FUNCTIONS):
        name = getattr(real, "__name__", None)
        prox = getattr(symnp, name, None) if name else None
        if prox is not None and prox is not real:
            af.HANDLED_FUNCTIONS[prox] = af.HANDLED_FUNCTIONS[real]
    APPLIED.append("npstructures HANDLED_FUNCTIONS also keyed by the proxy's function objects")


def _npsarray():
    import bionumpy.encoded_array as ea
    import npstructures.mixin
    orig = ea.get_NPSArray
    ea.get_NPSArray = lambda x: x if isinstance(x, SymArray) else orig(x)
    APPLIED.append("encoded_array.get_NPSArray is the identity on SymArray")


def _text_entry():
    from . import strs
    import bionumpy.encoded_array as ea
    ea.bytes = strs.sym_bytes
    ea.ord = strs.sym_ord
    APPLIED.append("encoded_array.bytes/ord accept symbolic str (SymStr) so that the public str / list-of-str entry points run symbolically")


def _reset_cached_tables():
    """lookup tables initialised under real NumPy before install() are rebuilt under symnp on next use"""
    import gc
    from bionumpy.encodings.alphabet_encoding import AlphabetEncoding
    for o in gc.get_objects():
        if isinstance(o, AlphabetEncoding):
            o._is_initialized = False
    APPLIED.append("AlphabetEncoding lookup tables re-initialised under the symbolic backend")


def _convert_cached_arrays():
    """module-level / class-level lookup tables built at import time under real NumPy become SymArrays
    (a real ndarray indexed by a SymArray would hand the index over to NumPy C code)"""
    import sys
    import inspect
    from .arrays import wrap_real
    from bionumpy.encoded_array import EncodedArray
    n = 0

    def conv(owner, name, v):
        nonlocal n
        if isinstance(v, EncodedArray) and isinstance(v.data, _np.ndarray) and v.data.dtype.kind in "iub":
            v.data = wrap_real(_np.asarray(v.data).view(_np.ndarray))
            n += 1
        elif type(v) is _np.ndarray and v.dtype.kind in "iub" and v.size <= 4096:
            try:
                setattr(owner, name, wrap_real(v))
                n += 1
            except Exception:
                pass
    for mname, mod in list(sys.modules.items()):
        if not mname.startswith("bionumpy") or mod is None:
            continue
        for name, v in list(vars(mod).items()):
            conv(mod, name, v)
            if inspect.isclass(v) and getattr(v, "__module__", "") == mname:
                for cname, cv in list(vars(v).items()):
                    conv(v, cname, cv)
    APPLIED.append(f"import-time lookup tables (module/class attributes) converted to SymArray ({n} tables)")


def _bitarray_model():
    """npstructures.BitArray packs 2-bit letters into uint64 registers with shifts and ors.  For symbolic
    letters it is replaced by its semantic model: sliding_window(k)[j] = sum_i letter[j+i] * 2^(stride*i).
    The model is compared with the real routine on concrete data by checks/C13.prelude."""
    import npstructures.bitarray as ba
    from .arrays import has_sym
    from .proxy import symnp
    real_pack = ba.BitArray.pack.__func__

    class SymBitArray:
        def __init__(self, array, bit_stride):
            self.array, self.bit_stride = array, bit_stride

        def sliding_window(self, k):
            a = self.array
            n = len(a) - k + 1
            if n <= 0:
                return symnp.zeros(0, dtype=_np.uint64)
            tot = symnp.zeros(n, dtype=_np.uint64)
            for i in range(k):
                tot = tot + a[i:i + n].astype(_np.uint64) * _np.uint64(1 << (self.bit_stride * i))
            return tot.astype(_np.uint64)

    def pack(cls, array, bit_stride):
        if isinstance(array, SymArray):          # also for concrete content: the real routine shifts by NumPy scalars the backend does not produce
            return SymBitArray(array, int(bit_stride))
        return real_pack(cls, array, bit_stride)
    ba.BitArray.pack = classmethod(pack)
    APPLIED.append("npstructures BitArray.pack/sliding_window on symbolic letters replaced by the semantic model sum_i letter[j+i]*4^i (validated against the real routine in C13 prelude)")


def apply():
    if APPLIED:
        return
    _bitarray_model()
    _convert_cached_arrays()
    _concretize_shapes()
    _message_formatting()
    _repr_stubs()
    _function_keyed_tables()
    _npsarray()
    _text_entry()
    _reset_cached_tables()
