import time, sys, warnings
warnings.filterwarnings("ignore")
sys.path.insert(0, "/verif")
import numpy as np, z3
import symnp
from symnp import SymArray, SV, ENGINE, fresh_int, T, explore
symnp.install()
from bionumpy.datatypes import Interval
from bionumpy.arithmetics.intervals import merge_intervals
N = 3
st = [fresh_int(f"s{i}") for i in range(N)]
en = [fresh_int(f"e{i}") for i in range(N)]
for i in range(N):
    ENGINE.assume(z3.And(st[i].t >= 0, en[i].t > st[i].t))
    if i: ENGINE.assume(st[i].t >= st[i-1].t)
def run():
    iv = Interval(["c"] * N, SymArray(np.array(st, dtype=object), int), SymArray(np.array(en, dtype=object), int))
    return merge_intervals(iv)
t0 = time.time(); n = 0
p = z3.Int("p")
for r in explore(run):
    n += 1
    if r.abort: print("ABORT", repr(r.abort)); continue
    if r.exc: print("EXC", repr(r.exc)); import traceback; traceback.print_exception(r.exc); continue
    out = r.value
    ms, me = out.start.vals.tolist(), out.stop.vals.tolist()
    cov_in = z3.Or(*[z3.And(st[i].t <= p, p < en[i].t) for i in range(N)])
    cov_out = z3.Or(*[z3.And(T(a) <= p, p < T(b)) for a, b in zip(ms, me)])
    s = z3.Solver(); s.add(*r.pc); s.add(z3.Not(cov_in == cov_out))
    print(r.trace, len(ms), s.check())
print("paths", n, "time", time.time()-t0, "queries", ENGINE.n_queries)
