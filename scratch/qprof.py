import sys, json, time, traceback, collections
sys.path.insert(0,'/verif')
import symnp
from symnp.core import Engine
cnt = collections.Counter(); tm = collections.Counter()
orig = Engine._check
def chk(self, *extra):
    st = traceback.extract_stack(limit=12)
    key = " < ".join(f"{f.name}:{f.lineno}" for f in reversed(st[:-1]) if 'symnp' in f.filename or 'repo' in f.filename)[:260]
    t0=time.time()
    try: return orig(self, *extra)
    finally:
        cnt[key]+=1; tm[key]+=time.time()-t0
Engine._check = chk
from vlib.job import run_job
import importlib
m = importlib.import_module(sys.argv[1]); H={h.name:h for h in m.HARNESSES}[sys.argv[2]]; H.max_paths=int(sys.argv[4]) if len(sys.argv)>4 else 20
r = run_job(dict(module=sys.argv[1], harness=sys.argv[2], skel=json.loads(sys.argv[3]), pid='C', tier='quick', known=[]))
print("paths", r['paths'], 'queries', r['queries'])
for k,v in cnt.most_common(8): print(v, round(tm[k],2), k)
