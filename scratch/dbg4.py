import sys
sys.path.insert(0,'/verif')
import numpy as np
import symnp
from symnp import ENGINE, fresh_int, SymArray
symnp.install()
ENGINE.start_path([])
from bionumpy.datatypes import Interval
s=[fresh_int("s0",0),fresh_int("s1",0)]
from vlib.harness import SymCtx
ctx=SymCtx()
iv = Interval(["chr1","chr2"], ctx.arr(s,"int64"), ctx.arr(s,"int64"))
for i, interval in enumerate(iv):
    print(type(interval.chromosome), interval.chromosome.shape if hasattr(interval.chromosome,'shape') else None, repr(interval.chromosome.to_string()))
