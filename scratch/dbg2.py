import sys
sys.path.insert(0,'/verif')
import symnp
from symnp import ENGINE, fresh_int
from symnp.strs import SymStr
symnp.install()
import symnp.arrays as A
orig = A.conc_index
def ci(idx):
    if isinstance(idx, A.SymArray): print("conc_index on", idx.dtype, idx.vals.tolist(), type(idx.vals.ravel()[0]))
    return orig(idx)
A.conc_index = ci
from bionumpy.encodings.alphabet_encoding import ACGTEncoding
ENGINE.start_path([])
b=[fresh_int(f"b{i}",0,127) for i in range(3)]
try:
    r = ACGTEncoding.encode([SymStr(b[:1]), SymStr(b[1:])])
    print(r)
except BaseException as e:
    print("EXC", repr(e))
