import sys, cProfile, pstats
sys.path.insert(0,'/verif')
from vlib.job import run_job
spec=dict(module='checks.C18', harness='str_to_int', skel=dict(lens=[5]), pid='C18', tier='quick', known=[])
cProfile.run('r=run_job(spec)', '/tmp/prof.out')
print({k:r[k] for k in ('paths','queries','proof_queries','solver_s','wall_s','inconclusive')})
pstats.Stats('/tmp/prof.out').sort_stats('cumtime').print_stats(25)
