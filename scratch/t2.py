import sys; sys.path.insert(0,'/verif')
import numpy as np, symnp
from symnp import fresh_int, ENGINE, SymArray
ENGINE.start_path([])
x = fresh_int("x", 0, 5)
for a in (np.int64(3), np.uint8(3), np.bool_(True), np.float64(2.0)):
    for op in ("a + x", "x + a", "a * x", "a < x", "a == x", "a // x" if False else "x // a", "a - x", "a & x" if False else "x - a"):
        try:
            r = eval(op)
            print(type(a).__name__, op, "->", type(r).__name__, r)
        except BaseException as e:
            print(type(a).__name__, op, "EXC", repr(e)[:80])
