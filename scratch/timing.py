import sys, json, time
sys.path.insert(0,'/verif')
import z3
orig = z3.Solver.check
times = []
def chk(self, *a):
    t0=time.time(); r=orig(self,*a); times.append(time.time()-t0); return r
z3.Solver.check = chk
from vlib.job import run_job
r = run_job(dict(module=sys.argv[1], harness=sys.argv[2], skel=json.loads(sys.argv[3]), pid='C', tier='quick', known=[]))
times.sort()
print("paths", r['paths'], "n queries", len(times), "total", sum(times), "max", times[-5:], "inconcl", r['inconclusive'][:2])
