import sys, json, traceback
sys.path.insert(0,'/verif')
import symnp
from symnp import arrays as A
orig = A.SymArray.__array__
def arr(self, *a, **k):
    if A.has_sym(self):
        traceback.print_stack(limit=9); raise SystemExit
    return orig(self, *a, **k)
A.SymArray.__array__ = arr
from vlib.job import run_job
run_job(dict(module=sys.argv[1], harness=sys.argv[2], skel=json.loads(sys.argv[3]), pid='C', tier='quick', known=[]))
