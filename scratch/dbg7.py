import sys, json
sys.path.insert(0,'/verif')
import symnp
from symnp import ENGINE, explore
from vlib.harness import SymCtx, Vars
import importlib
m = importlib.import_module('checks.C02'); H = [h for h in m.HARNESSES if h.name=='vcf'][0]
skel = json.loads(sys.argv[1])
symnp.install()
V = Vars(); H.inputs(skel, V)
import bionumpy.io.vcf_buffers as vb
for r in explore(lambda: H.call(skel, V.vars, SymCtx())):
    print(r.abort, r.exc); 
    if r.value: print(r.value['gt'])
    break
