import sys, json, time
sys.path.insert(0,'/verif')
from vlib.job import run_job
mod, h, skel = sys.argv[1], sys.argv[2], json.loads(sys.argv[3])
import importlib
m = importlib.import_module(mod)
H = {x.name: x for x in m.HARNESSES}[h]
if len(sys.argv) > 4: H.max_paths = int(sys.argv[4])
r = run_job(dict(module=mod, harness=h, skel=skel, pid=mod[-3:], tier='quick', known=[]))
for k in ('paths','decisions','queries','proof_queries','discharged','obligations','witnesses_ok','exc_paths','solver_s','wall_s'):
    print(k, r[k])
print('inconclusive', r['inconclusive'][:3]); print('mismatch', r['witness_mismatch'][:2]); print('violations', r['violations'][:3]); print('known', r['known_hits'][:2])
print('samples', r['samples'][:1])
