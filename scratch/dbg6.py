import sys, json
sys.path.insert(0,'/verif')
import symnp
from symnp import ENGINE, explore
from vlib.harness import SymCtx, Vars
import importlib
m = importlib.import_module('checks.C09'); H = m.HARNESSES[0]
skel = json.loads(sys.argv[1])
symnp.install()
V = Vars(); H.inputs(skel, V)
n=0
for r in explore(lambda: H.call(skel, V.vars, SymCtx())):
    n+=1
    print("PATH", n, "abort", r.abort, "exc", r.exc)
    if r.value: 
        for k,v in r.value['dense'].items(): print(k, [str(e)[:300] for e in v])
    if n>=2: break
