import sys, json, traceback
sys.path.insert(0,'/verif')
import symnp
from symnp import core
orig = core.XorSet.make
def mk2(a,b):
    print("XOR", a, b, core._bnd(a) if not isinstance(a, core.XorSet) else None, core._bnd(b) if not isinstance(b, core.XorSet) else None)
    traceback.print_stack(limit=6)
    raise SystemExit
core.XorSet.make = staticmethod(mk2)
from vlib.job import run_job
run_job(dict(module=sys.argv[1], harness=sys.argv[2], skel=json.loads(sys.argv[3]), pid='C', tier='quick', known=[]))
