import sys, json, traceback
sys.path.insert(0,'/verif')
import symnp
from symnp import ENGINE
from symnp.core import Engine
orig = Engine.concretize
def conc(self, sv):
    traceback.print_stack(limit=8)
    raise SystemExit
Engine.concretize = conc
from vlib.job import run_job
run_job(dict(module=sys.argv[1], harness=sys.argv[2], skel=json.loads(sys.argv[3]), pid='C', tier='quick', known=[]))
