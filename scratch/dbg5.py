import sys
sys.path.insert(0,'/verif')
import numpy as np
import symnp
from symnp import ENGINE, fresh_int, SymArray
symnp.install()
ENGINE.start_path([])
from bionumpy.string_array import string_array
sa = string_array(["chr1","chr10"])
d = sa._data
print(type(d), d.dtype, d.vals.shape)
r = sa[0]._data
print(type(r), r.dtype, r.vals.shape, r.shape)
print(sa[0].tolist(), sa.tolist())
