"""C18 -- numbers survive conversion between text and arrays."""
import itertools
import time
import z3
from vlib.harness import Harness, Exc
from vlib.zutil import TI, TB, z_and, z_or, digits_value

I64_MIN, I64_MAX = -2 ** 63, 2 ** 63 - 1


def canonical_text_post(n, L, chars):
    """z3: the L characters `chars` are the canonical decimal text of integer term n"""
    a = z3.If(n < 0, -n, n)
    neg = n < 0
    post = []
    for nneg in (0, 1):
        d = L - nneg
        cond = neg if nneg else z3.Not(neg)
        if d < 1:
            post.append(z3.Not(cond))
            continue
        canon = z3.And(a < 10 ** d, z3.Or(a >= 10 ** (d - 1), z3.BoolVal(d == 1)))
        digs = [TI(chars[nneg + j]) == 48 + (a / 10 ** (d - 1 - j)) % 10 for j in range(d)]
        sign = [TI(chars[0]) == 45] if nneg else []
        post.append(z3.Implies(cond, z3.And(canon, *digs, *sign)))
    return z3.And(*post)


class IntsToStrings(Harness):
    boundary_witnesses = True
    name = "ints_to_strings"
    functions = ("bionumpy.io.strops.ints_to_strings", "_build_power_array", "change_encoding")
    assumptions = ("np.log10(int).astype(int) modelled as the Int step function with breakpoints measured on the real "
                   "NumPy composite; tied to IEEE conversion by the QF_BVFP conversion lemma (prelude)",)
    bounds = {"quick": "batches of 1 number over the whole int64 range; batches of 2 with ranges [-10,10] x int64 and "
                       "int64 x [-10,10]",
              "thorough": "adds batches of 2 over int64 x int64 and batches of 3 (one full-range row, others |n|<=10^4), cut into 9 bands per full-range row whose union is int64"}

    def skeletons(self, tier, seed):
        full = [I64_MIN, I64_MAX]
        small = [-1000, 1000]
        tiny = [-10, 10]
        sk = [dict(ranges=[full]), dict(ranges=[tiny, full]), dict(ranges=[full, tiny])]
        if tier == "thorough":
            sk += [dict(ranges=[small, full]), dict(ranges=[full, small])]
            # int64 x int64 and the 3-row batch, cut into bands of the first full-range row so that every skeleton
            # stays well inside its budget on a loaded machine (the union of the bands is the whole int64 range)
            bands = [[I64_MIN, -10 ** 18 - 1], [-10 ** 18, -10 ** 16 - 1], [-10 ** 16, -10 ** 12 - 1], [-10 ** 12, -10 ** 6 - 1], [-10 ** 6, 10 ** 6],
                     [10 ** 6 + 1, 10 ** 12], [10 ** 12 + 1, 10 ** 16], [10 ** 16 + 1, 10 ** 18], [10 ** 18 + 1, I64_MAX]]
            sk += [dict(ranges=[b, b2]) for b in bands for b2 in bands]      # int64 x int64 as 81 band pairs
            sk += [dict(ranges=[[-10 ** 4, 10 ** 4], b, [-10 ** 4, 10 ** 4]]) for b in bands]
        return sk

    def inputs(self, skel, V):
        for i, (lo, hi) in enumerate(skel["ranges"]):
            V.int(f"n{i}", lo, hi)

    def call(self, skel, x, ctx):
        from bionumpy.io.strops import ints_to_strings
        n = len(skel["ranges"])
        out = ints_to_strings(ctx.arr([x[f"n{i}"] for i in range(n)], "int64"))
        return ctx.lst(out)

    def post(self, skel, x, out):
        if isinstance(out, Exc):
            return False
        n = len(skel["ranges"])
        if len(out) != n:
            return False
        return z3.And(*[canonical_text_post(x[f"n{i}"].t, len(out[i]), out[i]) if len(out[i]) else z3.BoolVal(False)
                        for i in range(n)])

    def oracle(self, skel, cx, cout):
        n = len(skel["ranges"])
        exp = [list(str(cx[f"n{i}"]).encode()) for i in range(n)]
        if cout != exp:
            got = [bytes(r).decode("latin1") for r in cout] if isinstance(cout, list) else cout
            return f"ints_to_strings({[cx[f'n{i}'] for i in range(n)]}) = {got!r}, expected {[str(cx[f'n{i}']) for i in range(n)]}"
        return None


class StrToInt(Harness):
    boundary_witnesses = True
    name = "str_to_int"
    functions = ("bionumpy.io.strops.str_to_int", "_build_power_array")
    bounds = {"quick": "1-3 rows, widths from {1,2,3,5}, every row: optional sign (+/-) then digits (leading zeros allowed)",
              "thorough": "1-3 rows, widths from {1,2,3,5,19}"}

    def skeletons(self, tier, seed):
        ws = [1, 2, 3, 5] if tier == "quick" else [1, 2, 3, 5, 10, 19]
        sk = [dict(lens=[w]) for w in ws]
        sk += [dict(lens=list(p)) for p in itertools.product(ws[:3] if tier == "quick" else ws[:4], repeat=2)]
        sk += [dict(lens=[1, 3, 2]), dict(lens=[5, 1, 2]), dict(lens=[2, 2, 5])]
        if tier == "thorough":
            sk += [dict(lens=[19, 1]), dict(lens=[1, 19]), dict(lens=[19, 19]), dict(lens=[3, 19, 1])]
        return sk

    def inputs(self, skel, V):
        for r, L in enumerate(skel["lens"]):
            for j in range(L):
                c = V.byte(f"c{r}_{j}")
                isdig = z3.And(c.t >= 48, c.t <= 57)
                V.assume(z3.Or(isdig, c.t == 45, c.t == 43) if (j == 0 and L > 1) else isdig)
            if L == 19:   # stay inside int64
                V.assume(z3.Or(x_is(V, f"c{r}_0", 43), x_is(V, f"c{r}_0", 45), x_is(V, f"c{r}_0", 48)))

    def _rows(self, skel, x):
        return [[x[f"c{r}_{j}"] for j in range(L)] for r, L in enumerate(skel["lens"])]

    def call(self, skel, x, ctx):
        from bionumpy.io.strops import str_to_int
        from bionumpy.encoded_array import EncodedArray, EncodedRaggedArray, BaseEncoding
        rows = self._rows(skel, x)
        flat = [c for r in rows for c in r]
        data = ctx.arr(flat, "uint8")
        era = EncodedRaggedArray(EncodedArray(data, BaseEncoding), list(skel["lens"]))
        before = ctx.lst(data)
        res = str_to_int(era)
        return dict(values=ctx.lst(res), input_after=ctx.lst(data), input_before=before)

    def post(self, skel, x, out):
        if isinstance(out, Exc):
            return False
        rows = self._rows(skel, x)
        conj = []
        for r, row in enumerate(rows):
            conj.append(TI(out["values"][r]) == digits_value([c.t for c in row], signed=len(row) > 1))
        flat = [c for r in rows for c in r]
        conj += [TI(a) == b.t for a, b in zip(out["input_after"], flat)]   # argument not modified
        return z3.And(*conj)

    def oracle(self, skel, cx, cout):
        if isinstance(cout, Exc):
            return f"raised {cout}"
        texts = [bytes(cx[f"c{r}_{j}"] for j in range(L)).decode("latin1") for r, L in enumerate(skel["lens"])]
        exp = [int(t) for t in texts]
        if cout["values"] != exp:
            return f"str_to_int({texts}) = {cout['values']}, expected {exp}"
        if cout["input_after"] != cout["input_before"]:
            return f"str_to_int modified its argument: {cout['input_before']} -> {cout['input_after']}"
        return None


class StrToFloat(Harness):
    boundary_witnesses = True
    """which real number str_to_float computes (exact-real model): decimal and lower-case scientific text, mixed in one batch"""
    name = "str_to_float"
    functions = ("bionumpy.io.strops.str_to_float", "_decimal_str_to_float", "_scientific_str_to_float", "_build_power_array (dots)")
    bounds = {"quick": "batches of 1-3 texts from the shapes d, dd.d, -d.dd, .d / .dd / .ded (leading decimal point, in every row position), d.de+d, -dde-d, de+dd with symbolic digits and signs; "
                       "exponents |e| <= 19",
              "thorough": "more shapes per batch, 3-4 rows"}
    assumptions = ("exact-real model: the value is compared as a rational number, IEEE rounding (a few ulp) and range effects are outside the claim",)

    # shape: string over {s: sign -, S: sign +/-, d: digit, '.': dot, 'e': exponent mark}
    SHAPES = ["d", "dd", "d.d", "dd.d", "d.dd", "sd.d", "sdd", "d.ded", "dde-d", "sd.de+d", "de+dd", "d.de-d", "ded"]

    def skeletons(self, tier, seed):
        S = self.SHAPES
        out = [dict(shapes=[a]) for a in S]
        pairs = [("d.d", "dd"), ("sd.d", "d.ded"), ("dde-d", "d"), ("d.dd", "sd.de+d"), ("ded", "de+dd"), ("d", "d.de-d")]
        out += [dict(shapes=list(p)) for p in pairs] + [dict(shapes=["d.d", "dde-d", "sdd"])]
        # texts that start with the decimal point ('.5'), alone and in every row position of a batch
        # a leading sign that may be '+' or '-'
        out += [dict(shapes=["Sd"]), dict(shapes=["Sd.d"]), dict(shapes=["S.d", "d.d"]), dict(shapes=["d", "Sd.de-d", "Sdd"])]
        out += [dict(shapes=[".d"]), dict(shapes=[".dd"]), dict(shapes=[".ded"]), dict(shapes=["d.d", ".d"]), dict(shapes=[".d", "d.d"]),
                dict(shapes=["d", ".dd", "d.d"]), dict(shapes=[".d", ".d"]), dict(shapes=["sd.d", ".ded", "d.d"])]
        # the ends of the double range (literal exponents): the value must still be the text's value
        out += [dict(shapes=[a]) for a in ("d.ddem307", "d.ddddem305", "dep307", "d.dep300", "sd.ddddddddem300")] + [dict(shapes=["d.d", "d.ddem307"])]
        # many decimals (the scale 10^n passes 2^63 at n = 19) and many integer digits
        out += [dict(shapes=["d." + "d" * 19]), dict(shapes=["0.000" + "d" * 17]), dict(shapes=["d" * 17 + ".d"])]
        # a text with a 16-17 digit mantissa FOLLOWED by short ones in the same batch (the rows share intermediate arrays)
        out += [dict(shapes=["d" * 16 + ".d", "d.d", "d.d"]), dict(shapes=["d.d", "d" * 17, "d.dd"]), dict(shapes=["d" * 15 + ".dde+d", "d.de+d"])]
        if tier == "thorough":
            out += [dict(shapes=[a, b]) for a in S for b in S if (a, b) not in pairs][::3]
            out += [dict(shapes=["sd.de+d", "d", "d.dd", "de+dd"])]
        return out

    def inputs(self, skel, V):
        for r, sh in enumerate(skel["shapes"]):
            for j, ch in enumerate(sh):
                if ch == "d":
                    V.int(f"c{r}_{j}", 48, 57)
                elif ch == "s":
                    V.int(f"c{r}_{j}", 45, 45)
                elif ch == "S" or ch in "+-":
                    v = V.int(f"c{r}_{j}", 43, 45); V.assume(v.t != 44)

    LIT = {"m": 45, "p": 43}       # literal minus / plus; digits 0-9 in a shape are literal digits

    def _bytes(self, skel, x, r):
        out = []
        for j, ch in enumerate(skel["shapes"][r]):
            out.append(x[f"c{r}_{j}"] if ch in "dsS+-" else self.LIT.get(ch, ord(ch)))
        return out

    def call(self, skel, x, ctx):
        from bionumpy.io.strops import str_to_float
        from bionumpy.encoded_array import EncodedArray, EncodedRaggedArray, BaseEncoding
        rows = [self._bytes(skel, x, r) for r in range(len(skel["shapes"]))]
        data = ctx.arr([c for r in rows for c in r], "uint8")
        before = ctx.lst(data)
        res = str_to_float(EncodedRaggedArray(EncodedArray(data, BaseEncoding), [len(r) for r in rows]))
        return dict(values=ctx.lst(res), input_before=before, input_after=ctx.lst(data))

    def _value(self, sh, g, z):
        """value of the text: returns a z3 Real term (z) or a Fraction"""
        from fractions import Fraction
        mant, exp = (sh.split("e") + [None])[:2] if "e" in sh else (sh, None)
        pos = 0
        neg = None
        digs, ndec, seen_dot = [], 0, False
        for j, ch in enumerate(mant):
            if ch == "s":
                neg = True
            elif ch == "S":              # a sign that is '+' or '-'
                neg = (g(j) == 45)
            elif ch == "d" or ch.isdigit():
                digs.append(g(j) if ch == "d" else ord(ch))
                ndec += seen_dot
            elif ch == ".":
                seen_dot = True
        m = 0
        for d in digs:
            m = m * 10 + (d - 48)
        val = (z3.ToReal(m) if z else Fraction(m)) / (10 ** ndec)
        if neg is True:
            val = -val
        elif neg is not None:
            val = z3.If(neg, -val, val) if z else (-val if neg else val)
        if exp is not None:
            off = len(mant) + 1
            esign = None
            ed = []
            for j, ch in enumerate(exp):
                if ch in "+-":
                    esign = g(off + j)
                elif ch in "mp":
                    esign = self.LIT[ch]
                else:
                    ed.append(g(off + j) if ch == "d" else ord(ch))
            e = 0
            for d in ed:
                e = e * 10 + (d - 48)
            if z and isinstance(e, int):
                p = z3.RealVal(10 ** e)
                val = (val / p if esign == 45 else val * p) if isinstance(esign, int) or esign is None else z3.If(esign == 45, val / p, val * p)
            elif z:
                # 10**e for e in 0..99 as an ite chain over the concrete values of e
                p = z3.RealVal(1)
                for k in range(10 ** len(ed) - 1, 0, -1):
                    p = z3.If(e == k, z3.RealVal(10 ** k), p)
                val = z3.If(esign == 45, val / p, val * p) if esign is not None else val * p
            else:
                val = val / Fraction(10) ** e if esign == 45 else val * Fraction(10) ** e
        return val

    def post(self, skel, x, out):
        if isinstance(out, Exc):
            return False
        from symnp.core import T
        conj = []
        if len(out["values"]) != len(skel["shapes"]):
            return False
        for r, sh in enumerate(skel["shapes"]):
            g = T(out["values"][r])
            g = z3.ToReal(g) if not z3.is_real(g) else g
            v = self._value(sh, lambda j: x[f"c{r}_{j}"].t, True)
            if any(ch.isdigit() for ch in sh):
                # literal exponents enter the computation as (inexact) double constants: compare to 1e-9 relative
                eps = z3.RealVal("1/1000000000")
                av = z3.If(v >= 0, v, -v)
                conj.append(z3.And(g - v <= eps * av, v - g <= eps * av))
            else:
                conj.append(g == v)
        flat = [c for r in range(len(skel["shapes"])) for c in self._bytes(skel, x, r)]
        conj += [TI(a) == (b.t if hasattr(b, "t") else b) for a, b in zip(out["input_after"], flat)]
        return z_and(conj)

    def oracle(self, skel, cx, cout):
        if isinstance(cout, Exc):
            return f"raised {cout}"
        texts = [bytes(self._bytes(skel, cx, r)).decode() for r in range(len(skel["shapes"]))]
        for r, sh in enumerate(skel["shapes"]):
            exp = float(self._value(sh, lambda j: cx[f"c{r}_{j}"], False))
            got = float(cout["values"][r])
            if abs(got - exp) > 1e-9 * max(1e-300, abs(exp)):
                return f"str_to_float({texts})[{r}] = {got!r}, the text {texts[r]!r} means {exp!r}"
        if cout["input_after"] != cout["input_before"]:
            return f"str_to_float modified its argument {texts}: bytes {cout['input_before']} -> {cout['input_after']}"
        return None


def x_is(V, name, val):
    return V.vars[name].t == val


# ------------------------------------------------------------------------------------------------
def prelude(tier):
    """conversion lemma: for the measured integer breakpoints B_k of trunc(log10(float64(n))) and the
    measured libm crossings b_k (least double with log10(b) >= k), prove for all n in [1, 2^63):
    float64(n) >= b_k  <=>  n >= B_k   (QF_BVFP).  Ties the engine's Int step model to IEEE."""
    import struct
    import numpy as np
    from symnp.floats import int_breakpoints
    t0 = time.time()
    F = z3.Float64(); RNE = z3.RNE()

    def f2i(v):
        return struct.unpack("<q", struct.pack("<d", v))[0]

    def i2f(i):
        return struct.unpack("<d", struct.pack("<q", i))[0]

    def fbreak(k):
        lo, hi = f2i(10.0 ** k / 2), f2i(10.0 ** k * 2)
        while hi - lo > 1:
            mid = (lo + hi) // 2
            if np.log10(np.float64(i2f(mid))) >= k:
                hi = mid
            else:
                lo = mid
        return i2f(hi)
    ib = int_breakpoints()
    res = dict(obligations=0, discharged=0, queries=0, inconclusive=[], violations=[], samples=[])
    n = z3.BitVec("n", 64)
    for k in range(1, 19):
        fb = fbreak(k)
        s = z3.Solver()
        s.set("timeout", 60000)
        s.add(z3.UGE(n, 1), z3.ULE(n, 2 ** 63 - 1))
        f = z3.fpSignedToFP(RNE, n, F)
        s.add(z3.fpGEQ(f, z3.FPVal(fb, F)) != z3.UGE(n, ib[k - 1]))
        r = s.check()
        res["obligations"] += 1; res["queries"] += 1
        if r == z3.unsat:
            res["discharged"] += 1
        else:
            res["inconclusive"].append(f"conversion lemma k={k}: {r}")
        if k in (1, 15):
            res["samples"].append(dict(lemma=f"forall n in [1,2^63): fl(n) >= {fb!r} <=> n >= {ib[k-1]}", verdict=str(r)))
    res["solver_s"] = time.time() - t0
    res["summary"] = f"log10 conversion lemma: {res['discharged']}/18 unsat; integer breakpoints 10^k - B_k = {[10**k - b for k, b in enumerate(ib, 1)]}"
    _matrix_probe(res)
    _extreme_text_probe(res)
    return res


def _extreme_text_probe(res):
    """The longest texts: doubles whose shortest repr has 17 significant digits, a sign and a three-digit exponent (24 characters) through
    float_to_strings, and signed integers of 20 and more characters (19 digits and a sign; a sign followed by leading zeros) read from an
    integer COLUMN of a file.  Concrete probes on the real library."""
    import numpy as np
    import os, shutil, tempfile
    import bionumpy as bnp
    from bionumpy.io.strops import float_to_strings
    floats = [-1.2345678901234567e-300, -2.2250738585072014e-308, 1.7976931348623157e+308, -1.7976931348623157e+308, -4.9406564584124654e-324,
              1.2345678901234567e-300, -0.1, 123456.789, -9.999999999999999e+22, 5e-324]
    for batch in ([f] for f in floats):
        pass
    for batch in [[f] for f in floats] + [floats, floats[::-1]]:
        try:
            got = [t.to_string() for t in float_to_strings(np.array(batch))]
        except Exception as e:
            got = ("raised", type(e).__name__)
        exp = [str(float(f)) for f in batch]
        if got != exp and len(res["violations"]) < 6:
            res["violations"].append(dict(obligation="float-text-probe", inputs=dict(values=[repr(f) for f in batch]), output=repr(got),
                                          why=f"[real run, concrete probe] float_to_strings({batch}) = {got}, shortest round-trip texts are {exp}"))
    d = tempfile.mkdtemp(prefix="c18_cols_")
    try:
        texts = ["-1000000000000000000", "-9223372036854775807", "-00000000000000000042", "+00000000000000000042", "00000000000000000000007", "-5", "12"]
        for rows in [[t] for t in texts] + [texts[:3], [texts[0], "-5"], ["7", texts[2], texts[0]], texts]:
            path = os.path.join(d, "ints.bed")
            with open(path, "w") as fh:
                for t in rows:
                    fh.write(f"chr1\t{t}\t5\n")
            try:
                got = [int(v) for v in bnp.open(path).read().start]
            except Exception as e:
                got = ("raised", type(e).__name__)
            exp = [int(t) for t in rows]
            if got != exp and len(res["violations"]) < 8:
                res["violations"].append(dict(obligation="long-integer-column-probe", inputs=dict(texts=rows), output=repr(got),
                                              why=f"[real run, concrete probe] the start column {rows} of a BED file read as {got}, the texts mean {exp}"))
    finally:
        shutil.rmtree(d, ignore_errors=True)
    res["summary"] += "; float_to_strings / long signed integer columns probed on extreme texts"


def _matrix_probe(res):
    """matrix_to_csv / parse_matrix on CONCRETE integer matrices in row-major and in column-major memory layout (a transposed view, a Fortran
    copy): the text is the canonical rows and reading it back returns the matrix.  Probing on the real library (the characters matrix_to_csv
    computes carry no range information a symbolic parser could use): reported as real-run violations, not counted as proved."""
    import numpy as np
    from bionumpy.io.matrix_dump import matrix_to_csv, parse_matrix
    n = 0
    for shape in ((2, 2), (2, 3), (3, 2), (1, 4)):
        base = np.array([0, -7, 12, 345, -6789, 10, 99, -100, 1000, 5, -1, 20000][:shape[0] * shape[1]], dtype=np.int64)
        m0 = base.reshape(shape)
        for layout, m in (("row-major", m0), ("transposed view", np.ascontiguousarray(m0.T).T), ("Fortran copy", np.asfortranarray(m0))):
            n += 1
            header = ["c%d" % j for j in range(shape[1])]
            exp = ",".join(header) + "\n" + "".join(",".join(str(v) for v in row) + "\n" for row in m0.tolist())
            try:
                text = matrix_to_csv(m, header=header, sep=",")
                got = text.to_string()
                back = parse_matrix(got, field_type=int, rowname_type=None, sep=",").data.tolist()
                outcome = None if (got == exp and back == m0.tolist() and m.tolist() == m0.tolist()) else f"text {got!r}, read back {back}"
            except Exception as e:
                outcome = f"raised {type(e).__name__}: {str(e)[:100]}"
            if outcome is not None:
                res["violations"].append(dict(obligation="matrix-probe", inputs=dict(matrix=m0.tolist(), layout=layout), output=outcome,
                                              why=f"[real run, concrete probe] matrix_to_csv of {m0.tolist()} held as {layout}: {outcome}; expected text {exp!r}"))
    res["summary"] += f"; matrix_to_csv/parse_matrix probed on {n} concrete matrices (3 memory layouts)"


from checks.C02 import Delimited as _Delimited


class DigitColumns(_Delimited):
    boundary_witnesses = True
    """integer columns of parsed files: the fixed-width digit matrix (right-aligned windows over the raw buffer) and both str_to_int
    paths; every batch is also presented in reversed row order (the result for one row never depends on the other rows)"""
    name = "digit_columns"
    functions = ("move_intervals_to_digit_array", "TextBufferExtractor.get_digit_array", "str_to_int (2-d digit matrix and ragged paths)",
                 "DelimitedBuffer._get_field_by_number")
    bounds = {"quick": "BED3 and chrom.sizes files, 1-3 records, integer fields of 1-12 and 16-18 digits (beyond 2^53) with very unequal widths in one column "
                       "(also: first record shorter than the column's widest value), both row orders, signed columns, LF/CRLF",
              "thorough": "more width patterns"}

    def skeletons(self, tier, seed):
        out = [dict(fmt="bed3", rows=[[1, 17, 18]], crlf=False), dict(fmt="bed3", rows=[[1, 1, 18], [1, 17, 2]], crlf=False),
               dict(fmt="chromsizes", rows=[[1, 18], [2, 16]], crlf=False)]          # values beyond 2^53 (still below 2^63)
        for sk in super().skeletons(tier, seed):
            if sk["fmt"] not in ("bed3", "chromsizes") or sk.get("header"):
                continue
            out.append(sk)
            if len(sk["rows"]) > 1 and not sk.get("signed"):
                out.append(dict(sk, rows=sk["rows"][::-1]))
        return out



HARNESSES = [IntsToStrings(), StrToInt(), StrToFloat(), DigitColumns()]
