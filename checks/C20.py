"""C20 -- operations do not modify their inputs."""
import itertools
import z3
from vlib.harness import Harness, Exc
from vlib.zutil import TI, TB, z_and, z_or
from checks import textfmt as F

# ---- registry of public functions: each entry builds arguments from symbolic cells, returns (args snapshot fn, call fn)


_VIEW = ["none"]       # how text arguments are presented: a materialised array, or a selection that is not materialised yet
_EXPECT = []           # content of the arguments built by _era, known independently of the argument objects


def _era(ctx, x, names, lens, enc=None):
    """ragged text argument; in a view mode it is a row selection of a larger array (an extra first row, dropped by the selection)"""
    from bionumpy.encoded_array import EncodedArray, EncodedRaggedArray, BaseEncoding
    enc = enc or BaseEncoding
    vals = [x[n] for n in names]
    rows, k = [], 0
    for L in lens:
        rows.append(vals[k:k + L]); k += L
    _EXPECT.append(rows)
    mode = _VIEW[0]
    if mode == "none":
        return EncodedRaggedArray(EncodedArray(ctx.arr(vals, "uint8"), enc), list(lens))
    extra = [vals[0], vals[0]] if vals else []
    big = EncodedRaggedArray(EncodedArray(ctx.arr(extra + vals, "uint8"), enc), [len(extra)] + list(lens))
    n = len(lens)
    if mode == "slice":
        return big[1:]
    if mode == "list":
        return big[ctx.arr(list(range(1, n + 1)), "int64") if ctx.mode == "plain" else list(range(1, n + 1))]
    return big[ctx.arr([0] + [1] * n, "int64") == 1]           # mask


def _snap(ctx, obj):
    """normalised deep snapshot of an argument (reads the data without flattening views more than ctx.lst does)"""
    import dataclasses
    from bionumpy.bnpdataclass import BNPDataClass
    if isinstance(obj, BNPDataClass):
        return {f.name: _snap(ctx, getattr(obj, f.name)) for f in dataclasses.fields(obj)}
    if hasattr(obj, "raw") and not hasattr(obj, "_shape"):
        return ctx.lst(obj.raw())
    return ctx.lst(obj)


REGISTRY = {}


def reg(name, decl):
    def deco(f):
        REGISTRY[name] = (decl, f)
        return f
    return deco


def _decl_text(V, spec):
    """spec: list of (name, lo, hi) or (name, [allowed bytes])"""
    for item in spec:
        if isinstance(item[1], list):
            v = V.int(item[0], min(item[1]), max(item[1]))
            V.assume(z_or([v.t == b for b in item[1]]))
        else:
            V.int(item[0], item[1], item[2])


SIGN = [43, 45] + list(range(48, 58))
DIG = list(range(48, 58))


@reg("str_to_int", lambda V: _decl_text(V, [("a0", SIGN), ("a1", DIG), ("a2", DIG), ("b0", SIGN), ("b1", DIG), ("c0", DIG)]))
def _f_str_to_int(ctx, x):
    from bionumpy.io.strops import str_to_int
    arg = _era(ctx, x, ["a0", "a1", "a2", "b0", "b1", "c0"], [3, 2, 1])
    return [arg], lambda: ctx.lst(str_to_int(arg))


@reg("str_to_float", lambda V: _decl_text(V, [("a0", [45] + DIG), ("a1", DIG), ("a3", DIG), ("b0", DIG), ("b2", DIG)]))
def _f_str_to_float(ctx, x):
    from bionumpy.io.strops import str_to_float
    # "-d.d"-like decimal and "d.de+d" scientific
    arg = _era(ctx, x, ["a0", "a1", "DOT", "a3", "b0", "DOT", "b2", "E", "PLUS", "TWO"], [4, 6])     # "-d.d" and "d.de+2"
    return [arg], lambda: ctx.lst(str_to_float(arg))


@reg("str_to_float_single", lambda V: _decl_text(V, [("a0", [43, 45]), ("a1", DIG), ("a3", DIG)]))
def _f_str_to_float_single(ctx, x):
    from bionumpy.io.strops import str_to_float
    arg = _era(ctx, x, ["a0", "a1", "DOT", "a3"], [4])      # ONE text "-d.d" / "+d.d": no other row whose selection would copy the data
    return [arg], lambda: ctx.lst(str_to_float(arg))


@reg("ints_to_strings", lambda V: [V.int("n0", -120, 120), V.int("n1", 0, 12)])
def _f_ints_to_strings(ctx, x):
    from bionumpy.io.strops import ints_to_strings
    arg = ctx.arr([x["n0"], x["n1"]], "int64")
    return [arg], lambda: ctx.lst(ints_to_strings(arg))


@reg("int_lists_to_strings", lambda V: [V.int(f"n{i}", 0, 12) for i in range(3)])
def _f_int_lists(ctx, x):
    from bionumpy.io.strops import int_lists_to_strings
    from npstructures import RaggedArray
    arg = RaggedArray(ctx.arr([x["n0"], x["n1"], x["n2"]], "int64"), [2, 1])
    return [arg], lambda: ctx.lst(int_lists_to_strings(arg))


@reg("split_join", lambda V: _decl_text(V, [(f"a{i}", 65, 70) for i in range(4)]))
def _f_split_join(ctx, x):
    from bionumpy.io import strops
    from bionumpy.encoded_array import EncodedArray, BaseEncoding
    flat = EncodedArray(ctx.arr([x["a0"], 44, x["a1"], x["a2"], 44, x["a3"]], "uint8"), BaseEncoding)
    era = _era(ctx, x, ["a0", "a1", "a2", "a3"], [1, 2, 1])
    return [flat, era], lambda: [ctx.lst(strops.split(flat, ",")), ctx.lst(strops.join(era, ",").raw()), ctx.lst(strops.str_equal(era, "AB"))]


@reg("change_encoding", lambda V: [V.int(f"c{i}", 0, 4) for i in range(4)])
def _f_change_encoding(ctx, x):
    from bionumpy.encoded_array import change_encoding, BaseEncoding
    import bionumpy.encodings.alphabet_encoding as ae
    arg = _era(ctx, x, ["c0", "c1", "c2", "c3"], [3, 1], ae.ACGTnEncoding)
    return [arg], lambda: ctx.lst(change_encoding(arg, BaseEncoding))


AL = [48, 49, 50, 46]
SEP = [47, 124]


@reg("genotype_encode", lambda V: _decl_text(V, [(f"g{r}{k}", AL if k % 2 == 0 else SEP) for r in range(4) for k in range(3)]))
def _f_genotype(ctx, x):
    """rows of VCF genotype columns as they stand in a file ('a/b<TAB>c|d<NEWLINE>'), encoded with the genotype row encodings"""
    from bionumpy.encodings.vcf_encoding import GenotypeRowEncoding, PhasedGenotypeRowEncoding
    xs = dict(x); xs.update(TAB=9, NL=10)
    names = []
    for r in range(2):
        names += [f"g{2 * r}0", f"g{2 * r}1", f"g{2 * r}2", "TAB", f"g{2 * r + 1}0", f"g{2 * r + 1}1", f"g{2 * r + 1}2", "NL"]
    arg = _era(ctx, xs, names, [8, 8])
    return [arg], lambda: [ctx.lst(GenotypeRowEncoding.encode(arg)), ctx.lst(GenotypeRowEncoding.decode(GenotypeRowEncoding.encode(arg)))]


@reg("apply_variants", lambda V: _decl_text(V, [(f"b{i}", [65, 67, 71, 84]) for i in range(4)] + [("alt", [65, 67, 71, 84]), ("p0", 0, 3)]))
def _f_apply_variants(ctx, x):
    """a SNP applied to an already encoded sequence: the reference passed in must stay as it was"""
    from bionumpy.variants.consensus import apply_variants_to_sequence
    from bionumpy.datatypes import VCFEntry
    from bionumpy.encoded_array import EncodedArray, EncodedRaggedArray, BaseEncoding
    seq = EncodedArray(ctx.arr([x[f"b{i}"] for i in range(4)], "uint8"), BaseEncoding)
    pos = x["p0"]
    table = ctx.arr([x[f"b{i}"] for i in range(4)], "uint8")
    ref = EncodedRaggedArray(EncodedArray(table[ctx.arr([pos], "int64")], BaseEncoding), [1])
    alt = EncodedRaggedArray(EncodedArray(ctx.arr([x["alt"]], "uint8"), BaseEncoding), [1])
    variants = VCFEntry(["c"], ctx.arr([pos], "int64"), ["."], ref, alt, ["."], ["."], ["."])
    return [seq], lambda: ctx.lst(apply_variants_to_sequence(seq, variants).raw())


@reg("reverse_complement", lambda V: _decl_text(V, [(f"b{i}", [65, 67, 71, 84, 78, 97, 99, 103, 116, 110]) for i in range(4)]))
def _f_revcomp(ctx, x):
    from bionumpy.sequence import get_reverse_complement
    arg = _era(ctx, x, ["b0", "b1", "b2", "b3"], [3, 1])
    return [arg], lambda: ctx.lst(get_reverse_complement(arg))


@reg("translate", lambda V: _decl_text(V, [(f"b{i}", [65, 67, 71, 84, 97, 99, 103, 116]) for i in range(6)]))
def _f_translate(ctx, x):
    from bionumpy.sequence.translate import Translate
    arg = _era(ctx, x, [f"b{i}" for i in range(6)], [3, 3])
    return [arg], lambda: ctx.lst(Translate().windowed(arg))


@reg("kmers", lambda V: [V.int(f"l{i}", 0, 3) for i in range(5)])
def _f_kmers(ctx, x):
    from bionumpy.sequence import get_kmers, count_kmers, get_minimizers
    import bionumpy.encodings.alphabet_encoding as ae
    arg = _era(ctx, x, [f"l{i}" for i in range(5)], [3, 2], ae.ACGTEncoding)
    return [arg], lambda: [ctx.lst(get_kmers(arg, 2)), ctx.lst(count_kmers(arg, 2).counts), ctx.lst(get_minimizers(arg, 1, 2))]


def _decl_iv(V, n=3, S=6):
    for i in range(n):
        s = V.int(f"s{i}", 0, S - 1); e = V.int(f"e{i}", 1, S)
        V.assume(s.t < e.t)
        if i:
            V.assume(s.t >= V.vars[f"s{i-1}"].t)
        V.int(f"neg{i}", 0, 1)


def _bed6(ctx, x, n=3):
    from bionumpy.datatypes import Bed6
    from bionumpy.encoded_array import EncodedArray
    from bionumpy.encodings import StrandEncoding
    return Bed6(["c"] * n, ctx.arr([x[f"s{i}"] for i in range(n)], "int64"), ctx.arr([x[f"e{i}"] for i in range(n)], "int64"),
                ["."] * n, [0] * n, EncodedArray(ctx.arr([x[f"neg{i}"] for i in range(n)], "uint8"), StrandEncoding))


@reg("merge_sort_intervals", lambda V: _decl_iv(V, 3, 6))
def _f_intervals(ctx, x):
    from bionumpy.arithmetics import intervals as I
    iv = _bed6(ctx, x)
    return [iv], lambda: [_snap(ctx, I.merge_intervals(iv)), _snap(ctx, I.merge_intervals(iv, 1)), _snap(ctx, I.sort_intervals(iv, sort_order=["c"])),
                          _snap(ctx, I.extend_to_size(iv, 2, 6)), _snap(ctx, I.clip(iv, 5))]


def _interval_table(ctx, starts, stops):
    from bionumpy.datatypes import Interval
    return Interval(["c"] * len(starts), ctx.arr(starts, "int64"), ctx.arr(stops, "int64"))


@reg("two_interval_sets", lambda V: _decl_iv(V, 3, 4))
def _f_two_sets(ctx, x):
    """binary operations on interval sets; the first set has nested / unsorted stops, the second is a sub-selection of it"""
    from bionumpy.arithmetics import intervals as I
    from bionumpy.arithmetics.similarity_measures import get_contingency_table
    a = _interval_table(ctx, [x[f"s{i}"] for i in range(3)], [x[f"e{i}"] for i in range(3)])
    b = _interval_table(ctx, [x["s0"], x["s2"]], [x["e0"], x["e2"]])
    return [a, b], lambda: [ctx.lst(I.count_overlap(a, b)), ctx.lst(get_contingency_table(a, b, 4)), _snap(ctx, I.unique_intersect(a, b, 4))]


@reg("interval_set_and_empty_set", lambda V: _decl_iv(V, 3, 4))
def _f_set_and_empty(ctx, x):
    """the same with an EMPTY second set (a chromosome on which one of the sets has no interval)"""
    from bionumpy.arithmetics import intervals as I
    from bionumpy.arithmetics.similarity_measures import get_contingency_table
    a = _interval_table(ctx, [x[f"s{i}"] for i in range(3)], [x[f"e{i}"] for i in range(3)])
    b = _interval_table(ctx, [], [])
    return [a, b], lambda: [ctx.lst(I.count_overlap(a, b)), ctx.lst(I.count_overlap(b, a)), ctx.lst(get_contingency_table(a, b, 4))]


@reg("mask_pileup", lambda V: _decl_iv(V, 2, 4))
def _f_mask_pileup(ctx, x):
    from bionumpy.arithmetics import intervals as I
    iv = _bed6(ctx, x, 2)
    return [iv], lambda: [ctx.lst(I.get_boolean_mask(iv, 4).to_array()), ctx.lst(I.get_pileup(iv, 4).to_array())]


@reg("genomic_methods", lambda V: _decl_iv(V, 2, 3))
def _f_genomic(ctx, x):
    import bionumpy as bnp
    from bionumpy.datatypes import StrandedInterval
    from bionumpy.encoded_array import EncodedArray
    from bionumpy.encodings import StrandEncoding
    g = bnp.Genome.from_dict({"chr1": 3, "chr2": 3})
    iv = StrandedInterval(["chr1", "chr2"], ctx.arr([x["s0"], x["s1"]], "int64"), ctx.arr([x["e0"], x["e1"]], "int64"),
                          EncodedArray(ctx.arr([x["neg0"], x["neg1"]], "uint8"), StrandEncoding))
    gi = g.get_intervals(iv, stranded=True)

    def call():
        m = gi.get_mask()
        return [{k: ctx.lst(v) for k, v in m.to_dict().items()}, ctx.lst(gi.sorted().start), ctx.lst(gi.extended_to_size(2).stop),
                ctx.lst(gi.merged().start), ctx.lst(gi.get_location("start").position), ctx.lst((~m).sum())]
    return [iv], call


def _decl_clip(V):
    for i in range(2):
        s_ = V.int(f"s{i}", -1, 2); e_ = V.int(f"e{i}", 1, 5)
        V.assume(s_.t < e_.t)


@reg("genomic_clip", _decl_clip)
def _f_genomic_clip(ctx, x):
    """clip() of intervals that stick out of their chromosome (a negative start, a stop beyond the size): the caller's table keeps its values"""
    import bionumpy as bnp
    from bionumpy.datatypes import Interval
    g = bnp.Genome.from_dict({"chr1": 3, "chr2": 3})
    iv = Interval(["chr1", "chr2"], ctx.arr([x["s0"], x["s1"]], "int64"), ctx.arr([x["e0"], x["e1"]], "int64"))
    gi = g.get_intervals(iv)

    def call():
        c = gi.clip()
        return [ctx.lst(c.start), ctx.lst(c.stop), ctx.lst(gi.start), ctx.lst(gi.stop)]
    return [iv], call


class Pure(Harness):
    name = "pure_functions"
    functions = tuple(REGISTRY)
    bounds = {"quick": "registry of public functions (text/number conversion incl. '+'/'-' signs and scientific floats, list joins, encoding "
                       "changes, reverse complement, translation, k-mers, interval arithmetic, genomic-interval methods) on small symbolic "
                       "arguments: arguments equal their snapshot after the call, and a second call returns the same result; text arguments "
                       "also as not yet materialised selections (row slice / index list / mask) whose content is known from the inputs",
              "thorough": "same registry"}

    TEXT_FNS = ("str_to_int", "str_to_float", "split_join", "change_encoding", "reverse_complement", "translate", "kmers", "genotype_encode")

    def skeletons(self, tier, seed):
        out = [dict(fn=n) for n in REGISTRY]
        # text arguments given as selections that are not materialised yet (row slice, index list, boolean mask)
        for n in self.TEXT_FNS:
            for view in (("slice", "list", "mask") if (tier == "thorough" or n in ("str_to_int", "str_to_float")) else ("mask",)):
                out.append(dict(fn=n, view=view))
        return out

    def inputs(self, skel, V):
        REGISTRY[skel["fn"]][0](V)

    def call(self, skel, x, ctx):
        xs = dict(x); xs.update(DOT=46, E=101, PLUS=43, TWO=50)
        _VIEW[0] = skel.get("view", "none")
        del _EXPECT[:]
        try:
            args, call = REGISTRY[skel["fn"]][1](ctx, xs)
        finally:
            _VIEW[0] = "none"
        if skel.get("view"):
            # the content is known from the inputs: the argument objects are not touched before the first call
            # (reading a selection materialises it, which would hide writes that land in the not yet materialised object)
            before = [list(e) for e in _EXPECT][-len(args):] if len(_EXPECT) >= len(args) else None
            if before is None or len(before) != len(args):
                before = [_snap(ctx, a) for a in args]
            else:
                before = [b if hasattr(a, "_shape") else _snap(ctx, a) for a, b in zip(args, before)]
        else:
            before = [_snap(ctx, a) for a in args]
        r1 = call()
        mid = [_snap(ctx, a) for a in args]
        r2 = call()
        after = [_snap(ctx, a) for a in args]
        return dict(before=before, mid=mid, after=after, r1=r1, r2=r2)

    def _eq(self, a, b, conj):
        from symnp.core import T
        if isinstance(a, (list, tuple)) and isinstance(b, (list, tuple)):
            from vlib.harness import SStr
            if isinstance(a, SStr) or isinstance(b, SStr):
                m = min(len(a), len(b))
                conj.extend(TI(t) == 0 for t in list(a[m:]) + list(b[m:]))
                a, b = a[:m], b[:m]
            return len(a) == len(b) and all(self._eq(u, v, conj) for u, v in zip(a, b))
        if isinstance(a, dict) and isinstance(b, dict):
            return a.keys() == b.keys() and all(self._eq(a[k], b[k], conj) for k in a)
        if isinstance(a, (list, tuple, dict)) or isinstance(b, (list, tuple, dict)):
            return False
        if isinstance(a, str) or isinstance(b, str) or a is None or b is None:
            return a == b
        ta, tb = T(a), T(b)
        if z3.is_bool(ta) != z3.is_bool(tb):
            ta, tb = TI(a), TI(b)
        if z3.is_real(ta) != z3.is_real(tb):
            ta = z3.ToReal(ta) if not z3.is_real(ta) else ta
            tb = z3.ToReal(tb) if not z3.is_real(tb) else tb
        conj.append(ta == tb)
        return True

    def post(self, skel, x, out):
        if isinstance(out, Exc):
            return False
        c1, c2 = [], []
        ok1 = self._eq(out["before"], out["mid"], c1) and self._eq(out["before"], out["after"], c1)
        ok2 = self._eq(out["r1"], out["r2"], c2)
        return [("arguments_unchanged", z_and(c1) if ok1 else False), ("repeatable", z_and(c2) if ok2 else False)]

    def oracle(self, skel, cx, cout):
        if isinstance(cout, Exc):
            return f"raised {cout}"
        if cout["before"] != cout["mid"] or cout["before"] != cout["after"]:
            return f"{skel['fn']}: arguments changed by the call: before {cout['before']}, after {cout['mid']} / {cout['after']}"
        from vlib.job import same
        if not same(cout["r1"], cout["r2"]):
            return f"{skel['fn']}: two calls on the same arguments differ: {cout['r1']} vs {cout['r2']}"
        return None


# ---- chunks read from a file: inspecting fields does not change what the chunk writes
BED12_COLS = [("chromosome", "id"), ("start", "int"), ("stop", "int"), ("name", "id"), ("score", "oint"), ("strand", "strand"),
              ("thick_start", "int"), ("thick_end", "int"), ("item_rgb", "str"), ("block_count", "int"), ("block_sizes", "list"),
              ("block_starts", "list")]


class ChunkFields(Harness):
    name = "chunk_fields"
    functions = ("LazyBNPDataClass field access / get_buffer", "DelimitedBuffer._get_field_by_number/_parse_split_fields (list columns)",
                 "TextBufferExtractor.get_field_by_number(keep_sep)", "VCF genotype / INFO extraction", "FastQBuffer field getters",
                 "NpBufferedWriter.write")
    bounds = {"quick": "BED12 (list-valued block columns), BED6 with signed/'+' integers, FASTQ, VCF with genotype columns: 2 records, "
                       "symbolic bytes; every field is read (twice) between two writes of the same lazily read chunk, and before a write "
                       "with one replaced column",
              "thorough": "3 records"}

    def skeletons(self, tier, seed):
        return [dict(kind=k, mode=m) for k in ("bed12", "bed6", "fastq", "vcf")
                for m in ("write_read_write", "read_twice", "read_replace_write", "slice_write_read_parent", "read_copy_read", "replace_chain")
                if not (k in ("fastq", "vcf") and m in ("read_replace_write", "replace_chain"))] + \
               [dict(kind="bed12", mode=m, n=1, no_final_newline=nf) for m in ("write_read_write", "read_twice") for nf in (False, True)]      # a chunk of ONE record

    def _file(self, skel, x):
        kind = skel["kind"]
        if kind == "bed6":
            return F.content(dict(fmt="bed6", rows=[[1, 2, 1, 1, 1, 1], [2, 1, 2, 1, 2, 1]], signed=[[0, 1], [1, 2]]), x)
        if kind == "fastq":
            return F.seq_content(dict(fmt="fastq", records=[[1, 2], [2, 1]]), x)
        g = lambda n: x[n]
        if kind == "bed12":
            out = []
            for r in range(skel.get("n", 2)):
                cells = [[g(f"r{r}_c")], [g(f"r{r}_s")], [g(f"r{r}_e0"), g(f"r{r}_e1")], [g(f"r{r}_n")], [g(f"r{r}_sc")], [g(f"r{r}_st")],
                         [g(f"r{r}_ts")], [g(f"r{r}_te")], [48], [50], [g(f"r{r}_b0"), 44, g(f"r{r}_b1"), g(f"r{r}_b2")],
                         [g(f"r{r}_o0"), 44, g(f"r{r}_o1")]]
                for k, cell in enumerate(cells):
                    out += cell + ([9] if k < len(cells) - 1 else [10])
            return out[:-1] if skel.get("no_final_newline") else out
        head = list(b"##fileformat=VCFv4.2\n#CHROM\tPOS\tID\tREF\tALT\tQUAL\tFILTER\tINFO\tFORMAT\tS1\tS2\n")
        out = head
        for r in range(2):
            cells = [[g(f"r{r}_c")], [g(f"r{r}_p")], [46], [g(f"r{r}_ref")], [g(f"r{r}_alt")], [46], [46], [g(f"r{r}_i")], list(b"GT"),
                     [g(f"r{r}_g0"), 47, g(f"r{r}_g1")], [g(f"r{r}_g2"), 124, g(f"r{r}_g3")]]
            for k, cell in enumerate(cells):
                out += cell + ([9] if k < len(cells) - 1 else [10])
        return out

    def inputs(self, skel, V):
        kind = skel["kind"]
        if kind == "bed6":
            F.declare_cells(V, dict(fmt="bed6", rows=[[1, 2, 1, 1, 1, 1], [2, 1, 2, 1, 2, 1]], signed=[[0, 1], [1, 2]]))
        elif kind == "fastq":
            F.declare_seq(V, dict(fmt="fastq", records=[[1, 2], [2, 1]]))
        elif kind == "bed12":
            for r in range(skel.get("n", 2)):
                for nm in ("c", "n"):
                    V.int(f"r{r}_{nm}", 65, 90)
                for nm in ("s", "e0", "e1", "sc", "ts", "te", "b0", "b1", "b2", "o0", "o1"):
                    V.int(f"r{r}_{nm}", 48, 57)
                v = V.int(f"r{r}_st", 43, 46); V.assume(v.t != 44)
        else:
            for r in range(2):
                for nm in ("c", "i"):
                    V.int(f"r{r}_{nm}", 65, 90)
                V.int(f"r{r}_p", 49, 57)
                for nm in ("ref", "alt"):
                    v = V.int(f"r{r}_{nm}", 65, 84); V.assume(z_or([v.t == b for b in (65, 67, 71, 84)]))
                for nm in ("g0", "g1", "g2", "g3"):
                    V.int(f"r{r}_{nm}", 48, 49)
        for j in range(2):
            V.int(f"new{j}", 0, 12)

    def call(self, skel, x, ctx):
        from bionumpy.io.parser import NumpyFileReader, NpBufferedWriter
        from bionumpy.io.npdataclassreader import NpDataclassReader
        from bionumpy.bnpdataclass import replace
        import dataclasses
        import bionumpy.io.delimited_buffers as db
        import bionumpy.io.vcf_buffers as vb
        from bionumpy.io.fastq_buffer import FastQBuffer
        B = dict(bed12=db.Bed12Buffer, bed6=db.Bed6Buffer, fastq=FastQBuffer, vcf=vb.VCFBuffer2)[skel["kind"]]
        chunk = NpDataclassReader(NumpyFileReader(ctx.file(self._file(skel, x)), B), lazy=True).read()
        names = [f.name for f in dataclasses.fields(chunk)]

        def write(t):
            f = ctx.wfile()
            NpBufferedWriter(f, B).write(t)
            return ctx.file_bytes(f)

        def read_all():
            out = {}
            for nm in names:
                v = getattr(chunk, nm)
                try:
                    out[nm] = _snap(ctx, v)
                except TypeError:
                    out[nm] = "unnormalised"
            return out
        res = {}
        if skel["mode"] == "write_read_write":
            res["w1"] = write(chunk); res["f1"] = read_all(); res["w2"] = write(chunk)
        elif skel["mode"] == "read_twice":
            # a fresh lazy view of the same buffer must parse to the same values (parsing must not alter the buffer)
            res["f1"] = read_all()
            again = chunk[:]
            res["f2"] = {nm: _snap(ctx, getattr(again, nm)) for nm in names if res["f1"][nm] != "unnormalised"}
            res["f1"] = {k: v for k, v in res["f1"].items() if v != "unnormalised"}
        elif skel["mode"] == "replace_chain":
            # a table that already carries a replaced column is the ARGUMENT of a second replace(): it keeps its own columns and bytes
            c2 = replace(chunk, start=ctx.arr([x["new0"], x["new1"]], "int64"))
            res["f1"] = {nm: _snap(ctx, getattr(c2, nm)) for nm in ("start", "stop")}
            res["w1"] = write(c2)
            c3 = replace(c2, stop=ctx.arr([x["new1"] + 100, x["new0"] + 100], "int64"))
            res["c3"] = {nm: _snap(ctx, getattr(c3, nm)) for nm in ("start", "stop")}
            res["f2"] = {nm: _snap(ctx, getattr(c2, nm)) for nm in ("start", "stop")}
            res["w2"] = write(c2)
        elif skel["mode"] == "read_copy_read":
            # the chunk's fields are read; a replace() copy (one field set to the value it already has) is made and ITS fields are read:
            # the values held by the chunk itself must not move
            res["f1"] = read_all()
            copy = replace(chunk, **{names[-1]: getattr(chunk, names[-1])})
            res["fc"] = {nm: _snap(ctx, getattr(copy, nm)) for nm in names if res["f1"][nm] != "unnormalised"}
            res["f2"] = {k: v for k, v in read_all().items() if v != "unnormalised"}
            res["f1"] = {k: v for k, v in res["f1"].items() if v != "unnormalised"}
        elif skel["mode"] == "slice_write_read_parent":
            # writing a slice that does not start at row 0 must not disturb the chunk it was taken from
            fresh = NpDataclassReader(NumpyFileReader(ctx.file(self._file(skel, x)), B), lazy=True).read()
            res["w_slice"] = write(chunk[1:])
            res["f1"] = read_all()
            res["f2"] = {nm: (_snap(ctx, getattr(fresh, nm)) if res["f1"][nm] != "unnormalised" else "unnormalised") for nm in names}
            res["w2"] = write(chunk); res["w1"] = write(fresh)
        else:
            res["f1"] = read_all()
            res["w1"] = write(replace(chunk, start=ctx.arr([x["new0"], x["new1"]], "int64")))
            res["w_plain"] = write(chunk)
        return res

    def post(self, skel, x, out):
        if isinstance(out, Exc):
            return False
        P = Pure()
        conj = []
        src = self._file(skel, x)
        src = [s.t if hasattr(s, "t") else s for s in src]
        if skel["kind"] == "vcf":
            pass
        if skel["mode"] == "write_read_write":
            ok = P._eq(out["w1"], out["w2"], conj)
            return z_and(conj) if ok else False
        if skel["mode"] == "read_twice":
            ok = P._eq(out["f1"], out["f2"], conj)
            return z_and(conj) if ok else False
        if skel["mode"] == "read_copy_read":
            ok = P._eq(out["f1"], out["f2"], conj) and P._eq(out["f1"], out["fc"], conj)
            return z_and(conj) if ok else False
        if skel["mode"] == "replace_chain":
            ok = P._eq(out["f1"], out["f2"], conj) and P._eq(out["w1"], out["w2"], conj)
            if not ok or len(out["c3"]["stop"]) != 2 or len(out["c3"]["start"]) != 2:
                return False
            conj += [TI(out["c3"]["start"][j]) == x[f"new{j}"].t for j in range(2)]
            conj += [TI(out["c3"]["stop"][j]) == x[f"new{1 - j}"].t + 100 for j in range(2)]
            return z_and(conj)
        if skel["mode"] == "slice_write_read_parent":
            ok = P._eq(out["f1"], out["f2"], conj) and P._eq(out["w1"], out["w2"], conj)
            return z_and(conj) if ok else False
        # read_replace_write: unmodified write is the source text; the replaced write keeps every other cell
        body = out["w_plain"]
        if len(body) != len(src):
            return False
        conj += [TI(a) == b for a, b in zip(body, src)]
        # replaced: split both on concrete separators and compare all cells except column 1
        def cells(bs):
            lines, cur, cs = [], [], []
            for b in bs:
                if isinstance(b, int) and b == 10:
                    cs.append(cur); lines.append(cs); cur, cs = [], []
                elif isinstance(b, int) and b == 9:
                    cs.append(cur); cur = []
                else:
                    cur.append(b)
            return lines
        a, b = cells(out["w1"]), cells([s for s in self._file(skel, x)])
        if len(a) != len(b):
            return False
        for la, lb in zip(a, b):
            if len(la) != len(lb):
                return False
            for c, (ca, cb) in enumerate(zip(la, lb)):
                if c == 1:
                    continue
                if len(ca) != len(cb):
                    return False
                conj += [TI(u) == (v.t if hasattr(v, "t") else v) for u, v in zip(ca, cb)]
        return z_and(conj)

    def oracle(self, skel, cx, cout):
        if isinstance(cout, Exc):
            return f"raised {cout}"
        text = bytes(self._file(skel, cx))
        if skel["mode"] == "write_read_write":
            return None if cout["w1"] == cout["w2"] else (f"chunk of {text!r}: bytes written before reading its fields {bytes(cout['w1'])!r}, "
                                                          f"after {bytes(cout['w2'])!r}")
        if skel["mode"] == "read_twice":
            from vlib.job import same
            return None if same(cout["f1"], cout["f2"]) else f"chunk of {text!r}: fields parsed twice differ: {cout['f1']} vs {cout['f2']}"
        if skel["mode"] == "replace_chain":
            from vlib.job import same
            if not same(cout["f1"], cout["f2"]) or cout["w1"] != cout["w2"]:
                return (f"chunk of {text!r}: c2 = replace(chunk, start=...) has columns {cout['f1']} and writes {bytes(cout['w1'])!r}; after "
                        f"replace(c2, stop=...) c2 itself has columns {cout['f2']} and writes {bytes(cout['w2'])!r}")
            exp3 = dict(start=[cx["new0"], cx["new1"]], stop=[cx["new1"] + 100, cx["new0"] + 100])
            got3 = {k_: [int(v) for v in cout["c3"][k_]] for k_ in ("start", "stop")}
            return None if got3 == exp3 else f"chunk of {text!r}: replace(replace(chunk, start=..), stop=..) has columns {got3}, expected {exp3}"
        if skel["mode"] == "read_copy_read":
            from vlib.job import same
            if not same(cout["f1"], cout["f2"]):
                return f"chunk of {text!r}: fields {cout['f1']}; after the fields of a replace() copy were read the chunk's own fields read {cout['f2']}"
            return None if same(cout["f1"], cout["fc"]) else f"chunk of {text!r}: fields {cout['f1']}, fields of a replace() copy with unchanged values {cout['fc']}"
        if skel["mode"] == "slice_write_read_parent":
            from vlib.job import same
            if not same(cout["f1"], cout["f2"]):
                return f"chunk of {text!r}: after writing chunk[1:] the chunk's fields read {cout['f1']}, a fresh read of the file gives {cout['f2']}"
            return None if cout["w1"] == cout["w2"] else f"chunk of {text!r}: after writing chunk[1:] the chunk itself is written as {bytes(cout['w2'])!r}"
        if cout["w_plain"] != list(text):
            return f"chunk of {text!r} written unmodified after reading its fields: {bytes(cout['w_plain'])!r}"
        exp_lines = [l.split(b"\t") for l in text.split(b"\n")[:-1]]
        got_lines = [l.split(b"\t") for l in bytes(cout["w1"]).split(b"\n")[:-1]]
        ok = len(exp_lines) == len(got_lines) and all(len(a) == len(b) and all(u == v for c, (u, v) in enumerate(zip(a, b)) if c != 1)
                                                        for a, b in zip(got_lines, exp_lines))
        return None if ok else f"chunk of {text!r} with start replaced after reading its fields: written {bytes(cout['w1'])!r}"


HARNESSES = [Pure(), ChunkFields()]
