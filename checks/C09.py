"""C09 -- genomic arrays are exact, lossless views of dense per-base arrays."""
import itertools
import z3
from vlib.harness import Harness, Exc
from vlib.zutil import TI, TB, z_and, z_or

GENOMES = {"g1": {"chr1": 4}, "g2": {"chr1": 3, "chr2": 2}, "g3": {"chr1": 2, "chr10": 1, "chr2": 3}, "g1b": {"chr1": 6},
           "g3x": {"chr1": 2, "chr2": 3, "chr10": 1}}       # g3x: the genome order is NOT the string order of the names ('chr10' < 'chr2')


def declare_track(V, skel_runs, sizes, prefix):
    """skel_runs: list of chromosome indices (non-decreasing), one per bedGraph record; records on one chromosome
    are sorted and non-overlapping, inside the chromosome"""
    prev = {}
    for i, c in enumerate(skel_runs):
        s = V.int(f"{prefix}s{i}", 0, sizes[c] - 1)
        e = V.int(f"{prefix}e{i}", 1, sizes[c])
        v = V.int(f"{prefix}v{i}", -3, 3)
        V.assume(s.t < e.t)
        if c in prev:
            V.assume(s.t >= V.vars[f"{prefix}e{prev[c]}"].t)
        prev[c] = i


def make_track(ctx, x, skel_runs, genome, prefix):
    import bionumpy as bnp
    from bionumpy.datatypes import BedGraph
    from bionumpy.genomic_data.genomic_track import GenomicArray
    names = list(genome)
    n = len(skel_runs)
    g = bnp.Genome.from_dict(dict(genome))
    bg = BedGraph([names[c] for c in skel_runs], ctx.arr([x[f"{prefix}s{i}"] for i in range(n)], "int64"),
                  ctx.arr([x[f"{prefix}e{i}"] for i in range(n)], "int64"),
                  ctx.arr([x[f"{prefix}v{i}"] for i in range(n)], "int64"))
    return GenomicArray.from_bedgraph(bg, g._genome_context)


def dense_terms(x, skel_runs, genome, prefix, val=lambda v: v.t):
    """per chromosome, per position: z3 term of the value described by the records (0 in gaps)"""
    names = list(genome)
    out = {}
    for ci, nm in enumerate(names):
        col = []
        for p in range(genome[nm]):
            t = z3.IntVal(0)
            for i, c in enumerate(skel_runs):
                if c == ci:
                    t = z3.If(z3.And(val(x[f"{prefix}s{i}"]) <= p, p < val(x[f"{prefix}e{i}"])), val(x[f"{prefix}v{i}"]), t)
            col.append(t)
        out[nm] = col
    return out


def dense_py(cx, skel_runs, genome, prefix):
    names = list(genome)
    out = {}
    for ci, nm in enumerate(names):
        col = [0] * genome[nm]
        for i, c in enumerate(skel_runs):
            if c == ci:
                for p in range(cx[f"{prefix}s{i}"], cx[f"{prefix}e{i}"]):
                    col[p] = cx[f"{prefix}v{i}"]
        out[nm] = col
    return out


RUNSETS = {"g1": [[], [0], [0, 0]], "g2": [[0], [1], [0, 1], [0, 0, 1]], "g3": [[0, 2], [1], [0, 1, 2]], "g1b": [[0, 0, 0]]}

UNARY = ("to_dict", "sum", "add_scalar", "mul3", "lt_scalar", "eq_scalar", "neg_mask", "roundtrip", "mask_roundtrip",
         "rsub_scalar", "rlt_scalar", "float_dense", "iv_pileup", "iv_mask", "iv_pileup_sub", "iv_pileup_neg", "float_close_mul2", "bool_bedgraph_not", "iv_mask_not")
CLOSE = [0.75, 0.750001, 2e-9]   # doubles that differ by less than np.isclose's tolerances (from each other / from 0): they are still different values
FLOATS = [0.7, 0.1, 2.5]      # values of the float track (record i carries FLOATS[i]): a larger value followed by smaller non-dyadic ones
BINARY = ("add", "sub", "lt", "and", "or")


class Track(Harness):
    name = "genomic_array"
    functions = ("GenomicArray.from_bedgraph", "GenomicRunLengthArray.from_bedgraph/to_array", "GenomicArrayGlobal.to_dict/"
                 "__array_ufunc__/sum/get_data/_get_intervals_from_data", "GlobalOffset.from_local_interval",
                 "npstructures.RunLengthArray ufuncs")
    bounds = {"quick": "genomes {chr1:4}, {chr1:3,chr2:2}, {chr1:2,chr10:1,chr2:3}; 0-2 bedGraph records with symbolic sorted "
                       "non-overlapping boundaries and values in [-3,3]; unary ops incl. a scalar as the LEFT operand (k - t, k < t); the same "
                       "records with the double values 0.7, 0.1, 2.5 expanded exactly; pileup and mask built from the records' INTERVALS (touching intervals incl.), the pileup minus a scalar and negated (signed results); doubles closer than np.isclose's tolerance, times 2; binary ops of two single-record tracks",
              "thorough": "up to 3 records per track, a 6-base chromosome, binary ops of tracks with 1-2 records each on all genomes"}

    def skeletons(self, tier, seed):
        out = []
        if tier == "quick":
            for g, runsets in (("g1", [[], [0], [0, 0]]), ("g2", [[1], [0, 1]]), ("g3", [[0, 2]])):
                for runs in runsets:
                    for op in UNARY:
                        if len(runs) == 2 and g != "g1" and op in ("mul3", "eq_scalar", "add_scalar", "lt_scalar", "rlt_scalar"):
                            continue
                        out.append(dict(genome=g, a=runs, b=None, op=op))
            for g, ra, rb in (("g1", [0], [0]), ("g2", [0], [1]), ("g2", [1], [1])):
                for op in BINARY:
                    out.append(dict(genome=g, a=ra, b=rb, op=op))
            # interval sets that are NOT grouped by chromosome (chr1, chr2, chr1) and the empty set on a two-chromosome genome
            for runs in ([0, 1, 0], [1, 0, 1], []):
                for op in ("iv_pileup", "iv_mask", "iv_mask_not"):
                    out.append(dict(genome="g2", a=runs, b=None, op=op))
            # a genome whose size table also names a contig that its filter leaves out (sizes of ignored contigs are no part of the arrays)
            for runs in ([0], [0, 1], [1, 1]):
                for op in ("iv_mask_not", "iv_pileup", "iv_mask"):
                    out.append(dict(genome="g2", a=runs, b=None, op=op, filtered=True))
            return out
        for g in ["g1", "g2", "g3", "g1b"]:
            for runs in RUNSETS[g]:
                for op in UNARY:
                    out.append(dict(genome=g, a=runs, b=None, op=op))
        for g in ["g1", "g2", "g3"]:
            rs = [r for r in RUNSETS[g] if 0 < len(r) <= 2]
            for ra, rb in itertools.product(rs, rs):
                for op in BINARY:
                    if g == "g3" and len(ra) + len(rb) > 3:
                        continue
                    out.append(dict(genome=g, a=ra, b=rb, op=op))
        return out

    def inputs(self, skel, V):
        sizes = list(GENOMES[skel["genome"]].values())
        declare_track(V, skel["a"], sizes, "a")
        if skel["b"] is not None:
            declare_track(V, skel["b"], sizes, "b")
        if skel["op"] in ("add_scalar", "lt_scalar", "eq_scalar", "rsub_scalar", "rlt_scalar", "iv_pileup_sub"):
            V.int("k", -3, 3)

    def call(self, skel, x, ctx):
        import numpy as np
        genome = GENOMES[skel["genome"]]
        op = skel["op"]
        # the interval-set operations do not build the bedGraph track (their sets need not be in genome order)
        A = make_track(ctx, x, skel["a"], genome, "a") if not op.startswith("iv_") else None
        dd = lambda t: {k: ctx.lst(v) for k, v in t.to_dict().items()}
        if op == "to_dict":
            return dict(dense=dd(A))
        if op == "sum":
            return dict(v=ctx.lst(A.sum()), v2=ctx.lst(ctx.np.sum(A)))
        if op in ("roundtrip", "mask_roundtrip"):
            T = A if op == "roundtrip" else (A > 0)
            d = T.get_data()
            rec = dict(chrom=d.chromosome.tolist(), start=ctx.lst(d.start), stop=ctx.lst(d.stop))
            if op == "roundtrip":
                rec["value"] = ctx.lst(d.value)
            return dict(records=rec, dense=dd(T))
        if skel["b"] is not None:
            B = make_track(ctx, x, skel["b"], genome, "b")
            R = dict(add=lambda: A + B, sub=lambda: A - B, lt=lambda: A < B,
                     **{"and": lambda: (A > 0) & (B > 0), "or": lambda: (A > 0) | (B > 0)})[op]()
            return dict(dense=dd(R), a=dd(A), b=dd(B))
        k = x.get("k")
        if op in ("float_dense", "float_close_mul2"):
            # the same records with float values (concrete, see FLOATS): the dense expansion holds exactly these doubles
            import bionumpy as bnp
            from bionumpy.datatypes import BedGraph
            from bionumpy.genomic_data.genomic_track import GenomicArray
            names, n = list(genome), len(skel["a"])
            cz = (lambda v: v) if ctx.mode == "plain" else __import__("symnp").ENGINE.concretize
            # the run boundaries are decided per path (the bit patterns of doubles are not given a symbolic meaning)
            bg = BedGraph([names[c] for c in skel["a"]], ctx.arr([cz(x[f"as{i}"]) for i in range(n)], "int64"),
                          ctx.arr([cz(x[f"ae{i}"]) for i in range(n)], "int64"), np.array((FLOATS if op == "float_dense" else CLOSE)[:n], dtype=float))
            Fl = GenomicArray.from_bedgraph(bg, bnp.Genome.from_dict(dict(genome))._genome_context)
            if op == "float_close_mul2":
                Fl = Fl * 2       # an arithmetic ufunc on the run-length representation (doubling is exact in IEEE arithmetic)
            return dict(fdense={kk: [v for v in ctx.lst(vv)] for kk, vv in Fl.to_dict().items()})
        if op == "bool_bedgraph_not":
            # a bedGraph whose values are booleans (value of record i: v_i > 0): the track is a boolean array, and so is its negation
            import bionumpy as bnp
            from bionumpy.datatypes import BedGraph
            from bionumpy.genomic_data.genomic_track import GenomicArray
            names, n = list(genome), len(skel["a"])
            bg = BedGraph([names[c] for c in skel["a"]], ctx.arr([x[f"as{i}"] for i in range(n)], "int64"),
                          ctx.arr([x[f"ae{i}"] for i in range(n)], "int64"), ctx.arr([x[f"av{i}"] for i in range(n)], "int64") > 0)
            Bt = GenomicArray.from_bedgraph(bg, bnp.Genome.from_dict(dict(genome))._genome_context)
            return dict(dense=dd(~Bt), track=dd(Bt))
        if op in ("iv_pileup", "iv_mask", "iv_pileup_sub", "iv_pileup_neg", "iv_mask_not"):
            # the array built from INTERVALS (the records' boundaries, values ignored): touching intervals give equal neighbouring depths
            import bionumpy as bnp
            from bionumpy.datatypes import Interval
            names, n = list(genome), len(skel["a"])
            g = bnp.Genome.from_dict(dict(genome))
            if skel.get("filtered"):
                from bionumpy.genomic_data.genome_context import ignore_underscores
                g = bnp.Genome.from_dict(dict(genome, chr1_alt=4), filter_function=ignore_underscores)
            gi = g.get_intervals(Interval([names[c] for c in skel["a"]], ctx.arr([x[f"as{i}"] for i in range(n)], "int64"),
                                          ctx.arr([x[f"ae{i}"] for i in range(n)], "int64")))
            R = gi.get_mask() if op in ("iv_mask", "iv_mask_not") else gi.get_pileup()
            if op == "iv_mask_not":
                R = ~R             # the complement: True exactly on the bases no interval covers; its sum counts them
                return dict(dense=dd(R), total=ctx.lst(R.sum()))
            if op == "iv_pileup_sub":
                R = R - k          # depth minus a scalar: negative where the depth is smaller (a signed result)
            elif op == "iv_pileup_neg":
                R = -R
            return dict(dense=dd(R))
        if op == "rsub_scalar":
            return dict(dense=dd(ctx.np.subtract(k, A)), a=dd(A))          # k - A: scalar as the LEFT operand
        if op == "rlt_scalar":
            return dict(dense=dd(ctx.np.less(k, A)), a=dd(A))              # k < A
        R = dict(add_scalar=lambda: A + k, mul3=lambda: A * 3, lt_scalar=lambda: A < k, eq_scalar=lambda: A == k,
                 neg_mask=lambda: ~(A > 0))[op]()
        return dict(dense=dd(R), a=dd(A))

    def _ref(self, skel, x, val=lambda v: v.t, I=z3.If, asbool=lambda t: t):
        genome = GENOMES[skel["genome"]]
        a = dense_terms(x, skel["a"], genome, "a", val) if val is not None else None
        return a

    def post(self, skel, x, out):
        if isinstance(out, Exc):
            return False
        genome = GENOMES[skel["genome"]]
        names = list(genome)
        a = dense_terms(x, skel["a"], genome, "a")
        b = dense_terms(x, skel["b"], genome, "b") if skel["b"] is not None else None
        op = skel["op"]
        k = x["k"].t if "k" in x else None
        conj = []

        def cmp_dense(got, exp, boolean):
            if list(got) != names:
                return False
            for nm in names:
                if len(got[nm]) != genome[nm]:
                    return False
                for p in range(genome[nm]):
                    conj.append((TB(got[nm][p]) == exp[nm][p]) if boolean else (TI(got[nm][p]) == exp[nm][p]))
            return True
        if op in ("float_dense", "float_close_mul2"):
            FL = FLOATS if op == "float_dense" else [2 * v for v in CLOSE]
            got = out["fdense"]
            if list(got) != names:
                return False
            from symnp.core import T
            for ci, nm in enumerate(names):
                if len(got[nm]) != genome[nm]:
                    return False
                for p in range(genome[nm]):
                    # which record covers p is symbolic; the value must be exactly that record's double (0.0 in gaps)
                    for val in set(FL[:len(skel["a"])] + [0.0]):
                        covers = z_or([z3.And(x[f"as{i}"].t <= p, p < x[f"ae{i}"].t) for i, c in enumerate(skel["a"]) if c == ci and FL[i] == val]) \
                            if val != 0.0 else z3.Not(z_or([z3.And(x[f"as{i}"].t <= p, p < x[f"ae{i}"].t) for i, c in enumerate(skel["a"]) if c == ci]))
                        g = got[nm][p]
                        same = (float(g) == val) if isinstance(g, (int, float)) else None
                        if same is None:
                            return False          # a symbolic value where a concrete double is expected
                        conj.append(z3.Implies(covers, z3.BoolVal(same)))
            return z_and(conj)
        if op == "sum":
            tot = sum([t for nm in names for t in a[nm]], z3.IntVal(0))
            return z3.And(TI(out["v"]) == tot, TI(out["v2"]) == tot)
        if op in ("roundtrip", "mask_roundtrip"):
            boolean = op == "mask_roundtrip"
            exp = {nm: [(t > 0) if boolean else t for t in a[nm]] for nm in names}
            if not cmp_dense(out["dense"], exp, boolean):
                return False
            r = out["records"]
            m = len(r["start"])
            # records are in genome order, non-overlapping, and re-expand to the same dense array
            order = [names.index(c) for c in r["chrom"]]
            if order != sorted(order):
                return False
            for j in range(m):
                conj.append(TI(r["start"][j]) < TI(r["stop"][j]))
                conj.append(z3.And(TI(r["start"][j]) >= 0, TI(r["stop"][j]) <= genome[r["chrom"][j]]))
                if j and r["chrom"][j] == r["chrom"][j - 1]:
                    conj.append(TI(r["start"][j]) >= TI(r["stop"][j - 1]))
            for nm in names:
                for p in range(genome[nm]):
                    cov = [z3.And(TI(r["start"][j]) <= p, p < TI(r["stop"][j])) for j in range(m) if r["chrom"][j] == nm]
                    if boolean:
                        conj.append(z_or(cov) == exp[nm][p])
                    else:
                        val = z3.IntVal(0)
                        for j in range(m):
                            if r["chrom"][j] == nm:
                                val = z3.If(z3.And(TI(r["start"][j]) <= p, p < TI(r["stop"][j])), TI(r["value"][j]), val)
                        conj.append(val == exp[nm][p])
            return z_and(conj)
        if "a" in out and not cmp_dense(out["a"], a, False):
            return False
        if b is not None and not cmp_dense(out["b"], b, False):
            return False
        if op == "bool_bedgraph_not":
            pos = {nm: [t > 0 for t in a[nm]] for nm in names}
            neg = {nm: [z3.Not(t > 0) for t in a[nm]] for nm in names}
            ok = cmp_dense(out["track"], pos, True) and cmp_dense(out["dense"], neg, True)
            return z_and(conj) if ok else False
        if op in ("iv_pileup", "iv_mask", "iv_pileup_sub", "iv_pileup_neg", "iv_mask_not"):
            exp = {}
            for ci, nm in enumerate(names):
                col = []
                for p in range(genome[nm]):
                    cov = [z3.And(x[f"as{i}"].t <= p, p < x[f"ae{i}"].t) for i, c in enumerate(skel["a"]) if c == ci]
                    depth = sum([z3.If(c, 1, 0) for c in cov], z3.IntVal(0))
                    col.append(z_or(cov) if op == "iv_mask" else (z3.Not(z_or(cov)) if op == "iv_mask_not" else
                                                                   (depth - k if op == "iv_pileup_sub" else (-depth if op == "iv_pileup_neg" else depth))))
                exp[nm] = col
            if op == "iv_mask_not":
                conj.append(TI(out["total"]) == sum([z3.If(t, 1, 0) for nm in names for t in exp[nm]], z3.IntVal(0)))
            return z_and(conj) if cmp_dense(out["dense"], exp, op in ("iv_mask", "iv_mask_not")) else False
        fn = {"to_dict": (lambda u, v: u, False), "add": (lambda u, v: u + v, False), "sub": (lambda u, v: u - v, False),
              "lt": (lambda u, v: u < v, True), "and": (lambda u, v: z3.And(u > 0, v > 0), True),
              "or": (lambda u, v: z3.Or(u > 0, v > 0), True), "add_scalar": (lambda u, v: u + k, False),
              "mul3": (lambda u, v: u * 3, False), "lt_scalar": (lambda u, v: u < k, True),
              "rsub_scalar": (lambda u, v: k - u, False), "rlt_scalar": (lambda u, v: k < u, True),
              "eq_scalar": (lambda u, v: u == k, True), "neg_mask": (lambda u, v: z3.Not(u > 0), True)}[op]
        exp = {nm: [fn[0](a[nm][p], b[nm][p] if b is not None else None) for p in range(genome[nm])] for nm in names}
        if not cmp_dense(out["dense"], exp, fn[1]):
            return False
        return z_and(conj)

    def oracle(self, skel, cx, cout):
        if isinstance(cout, Exc):
            return f"raised {cout}"
        genome = GENOMES[skel["genome"]]
        names = list(genome)
        a = dense_py(cx, skel["a"], genome, "a")
        b = dense_py(cx, skel["b"], genome, "b") if skel["b"] is not None else None
        op, k = skel["op"], cx.get("k")
        recs = lambda pre, runs: [(names[c], cx[f"{pre}s{i}"], cx[f"{pre}e{i}"], cx[f"{pre}v{i}"]) for i, c in enumerate(runs)]
        desc = f"track a={recs('a', skel['a'])}" + (f" b={recs('b', skel['b'])}" if b is not None else "") + f" genome={genome}"
        if op in ("float_dense", "float_close_mul2"):
            FL = FLOATS if op == "float_dense" else [2 * v for v in CLOSE]
            exp = {}
            for ci, nm in enumerate(names):
                col = [0.0] * genome[nm]
                for i, c in enumerate(skel["a"]):
                    if c == ci:
                        for p in range(cx[f"as{i}"], cx[f"ae{i}"]):
                            col[p] = FL[i]
                exp[nm] = col
            got = {nm: [float(v) for v in col] for nm, col in cout["fdense"].items()}
            what = f"float track with values {FLOATS[:len(skel['a'])]}" if op == "float_dense" else f"float track with values {CLOSE[:len(skel['a'])]} times 2"
            return None if got == exp else f"{what} on {desc}: dense arrays {got}, expected exactly {exp}"
        if op == "sum":
            tot = sum(sum(v) for v in a.values())
            return None if (cout["v"], cout["v2"]) == (tot, tot) else f"sum of {desc} = {cout}, expected {tot}"
        if op in ("roundtrip", "mask_roundtrip"):
            boolean = op == "mask_roundtrip"
            exp = {nm: [(v > 0) if boolean else v for v in a[nm]] for nm in names}
            got = {nm: [bool(v) if boolean else int(v) for v in cout["dense"][nm]] for nm in cout["dense"]}
            if got != exp:
                return f"{op}: dense {got} != {exp} for {desc}"
            r = cout["records"]
            re = {nm: [False if boolean else 0] * genome[nm] for nm in names}
            last = {}
            for j in range(len(r["start"])):
                c, s, e = r["chrom"][j], r["start"][j], r["stop"][j]
                if not (0 <= s < e <= genome[c]) or (c in last and s < last[c]) or (j and names.index(c) < names.index(r["chrom"][j - 1])):
                    return f"{op}: records not sorted/disjoint/in range: {r} for {desc}"
                last[c] = e
                for p in range(s, e):
                    re[c][p] = True if boolean else r["value"][j]
            return None if re == exp else f"{op}: records {r} expand to {re}, dense array is {exp} ({desc})"
        if op == "bool_bedgraph_not":
            pos = {nm: [v > 0 for v in a[nm]] for nm in names}
            neg = {nm: [not v for v in pos[nm]] for nm in names}
            gt = {nm: [bool(v) for v in col] for nm, col in cout["track"].items()}
            gn = {nm: [bool(v) for v in col] for nm, col in cout["dense"].items()}      # truth value of every base of ~track
            if gt != pos or gn != neg:
                return f"track from a bedGraph with boolean values {recs('a', skel['a'])} ({desc}): track {cout['track']}, ~track {cout['dense']}; expected the truth values {pos} and {neg}"
            return None
        if op == "iv_mask_not":
            exp = {nm: [not any(c == ci and cx[f"as{i}"] <= p < cx[f"ae{i}"] for i, c in enumerate(skel["a"])) for p in range(genome[nm])]
                   for ci, nm in enumerate(names)}
            got = {nm: [bool(v) for v in col] for nm, col in cout["dense"].items()}
            tot = sum(sum(col) for col in exp.values())
            ivs_ = [(r[0], r[1], r[2]) for r in recs('a', skel['a'])]
            if got != exp or int(cout["total"]) != tot:
                return f"complement of the mask of intervals {ivs_} on {genome}: ~mask {cout['dense']} with sum {cout['total']}, expected {exp} with sum {tot}"
            return None
        if op in ("iv_pileup", "iv_mask", "iv_pileup_sub", "iv_pileup_neg"):
            exp = {}
            for ci, nm in enumerate(names):
                cnt = [sum(1 for i, c in enumerate(skel["a"]) if c == ci and cx[f"as{i}"] <= p < cx[f"ae{i}"]) for p in range(genome[nm])]
                exp[nm] = [v > 0 for v in cnt] if op == "iv_mask" else ([v - k for v in cnt] if op == "iv_pileup_sub" else ([-v for v in cnt] if op == "iv_pileup_neg" else cnt))
            got = {nm: [(bool(v) if op == "iv_mask" else int(v)) for v in col] for nm, col in cout["dense"].items()}
            return None if got == exp else f"{op} of intervals {[(r[0], r[1], r[2]) for r in recs('a', skel['a'])]} on {genome}: {got}, expected {exp}"
        f = {"to_dict": lambda u, v: u, "add": lambda u, v: u + v, "sub": lambda u, v: u - v, "lt": lambda u, v: u < v,
             "and": lambda u, v: u > 0 and v > 0, "or": lambda u, v: u > 0 or v > 0, "add_scalar": lambda u, v: u + k,
             "mul3": lambda u, v: u * 3, "lt_scalar": lambda u, v: u < k, "eq_scalar": lambda u, v: u == k,
             "rsub_scalar": lambda u, v: k - u, "rlt_scalar": lambda u, v: k < u,
             "neg_mask": lambda u, v: not (u > 0)}[op]
        exp = {nm: [f(a[nm][p], b[nm][p] if b is not None else None) for p in range(genome[nm])] for nm in names}
        got = {nm: [type(exp[nm][p])(v) for p, v in enumerate(cout["dense"][nm])] if len(cout["dense"][nm]) == genome[nm] else cout["dense"][nm]
               for nm in cout["dense"]}
        if got != exp:
            return f"{op}{'' if k is None else f' (scalar {k})'} on {desc}: {got}, expected {exp}"
        return None


HARNESSES = [Track()]
