"""C19 -- tables of entries behave like column-aligned NumPy records."""
import itertools
import z3
from vlib.harness import Harness, Exc
from vlib.zutil import TI, TB, z_and, z_or

# table kinds: columns (name, kind); kinds: 'sid' (SequenceID, symbolic bytes, per-row width), 'int', 'strand', 'seq' (str, ragged)
TABLES = {
    "interval": [("chromosome", "sid"), ("start", "int"), ("stop", "int")],
    "bed6": [("chromosome", "sid"), ("start", "int"), ("stop", "int"), ("name", "sid0"), ("score", "int"), ("strand", "strand")],
    "seqentry": [("name", "sid"), ("sequence", "seq")],
}
WIDTHS = {"sid": [1, 2, 1, 3], "sid0": [2, 0, 1, 3], "seq": [2, 0, 3, 1]}     # sid0: an identifier column with one empty name


def _width(skel, kind, r):
    """width of the text cell of row r; skel["sid_widths"] overrides the identifier widths (e.g. 4, 12, 2: widths whose order as numbers
    and as text differ)"""
    if kind == "sid" and skel.get("sid_widths"):
        return skel["sid_widths"][r]
    return WIDTHS[kind][r]


def declare(V, skel, prefix="t"):
    n = skel["n"]
    for c, (nm, kind) in enumerate(TABLES[skel["table"]]):
        for r in range(n):
            if kind == "int":
                V.int(f"{prefix}{r}_{c}", 0 if (nm == "start" and skel.get("start_dtype")) else -50, 50)
            elif kind == "strand":
                V.int(f"{prefix}{r}_{c}", 0, 2)
            else:
                for j in range(_width(skel, kind, r)):
                    V.int(f"{prefix}{r}_{c}_{j}", 65, 90)


def build(ctx, skel, x, prefix="t", rows=None):
    from bionumpy.encoded_array import EncodedArray, EncodedRaggedArray, BaseEncoding
    from bionumpy.encodings import StrandEncoding
    import bionumpy.datatypes as dt
    cls = {"interval": dt.Interval, "bed6": dt.Bed6, "seqentry": dt.SequenceEntry}[skel["table"]]
    rows = list(range(skel["n"])) if rows is None else rows
    cols = {}
    for c, (nm, kind) in enumerate(TABLES[skel["table"]]):
        if kind == "int":
            cols[nm] = ctx.arr([x[f"{prefix}{r}_{c}"] for r in rows], skel.get("start_dtype", "int64") if nm == "start" else "int64")
        elif kind == "strand":
            cols[nm] = EncodedArray(ctx.arr([x[f"{prefix}{r}_{c}"] for r in rows], "uint8"), StrandEncoding)
        else:
            flat = [x[f"{prefix}{r}_{c}_{j}"] for r in rows for j in range(_width(skel, kind, r))]
            cols[nm] = EncodedRaggedArray(EncodedArray(ctx.arr(flat, "uint8"), BaseEncoding), [_width(skel, kind, r) for r in rows])
    return cls(**cols)


def observe(ctx, skel, t):
    out = {"len": len(t)}
    for nm, kind in TABLES[skel["table"]]:
        v = getattr(t, nm)
        out[nm] = ctx.lst(v.raw()) if kind in ("sid", "sid0", "strand") else ctx.lst(v)
    return out


def model_rows(skel, g, prefix="t"):
    """list of rows; each row a tuple of cell values (terms or lists of terms)"""
    rows = []
    for r in range(skel["n"]):
        row = []
        for c, (nm, kind) in enumerate(TABLES[skel["table"]]):
            if kind in ("int", "strand"):
                row.append(g(f"{prefix}{r}_{c}"))
            else:
                row.append([g(f"{prefix}{r}_{c}_{j}") for j in range(_width(skel, kind, r))])
        rows.append(row)
    return rows


OPS = ("fancy", "mask", "slice_tail", "slice_rev", "concat", "sort_by", "replace", "add_fields", "add_fields_twice", "single", "rows_roundtrip",
       "replace_wrong_len", "mask_list", "fancy_list", "concat_empty", "concat_with_empty", "concat_built")


class TableOps(Harness):
    name = "table_ops"
    functions = ("bnpdataclass._implicit_format_conversion", "NpDataClass.__getitem__/__len__/concatenate", "BNPDataClass.sort_by/"
                 "add_fields/extend/tolist/toiter/from_entry_tuples", "bnpdataclassfunction.replace", "StringArray indexing/concatenate")
    bounds = {"quick": "Interval, Bed6, SequenceEntry with 3 rows (thorough 4) of symbolic cells (identifier/sequence bytes of unequal "
                       "lengths, integers, strand codes); operations: symbolic integer index vector (incl. negative), symbolic mask, slices, "
                       "concatenate, sort_by a symbolic integer column, replace, add_fields, single index, rows -> table -> rows",
              "thorough": "4 rows, sequences of two operations"}

    def skeletons(self, tier, seed):
        out = []
        n = 3 if tier == "quick" else 4
        for tab in TABLES:
            for op in OPS:
                if op in ("sort_by", "replace", "add_fields", "add_fields_twice", "rows_roundtrip", "replace_wrong_len") and tab == "seqentry":
                    continue
                out.append(dict(table=tab, n=n, op=op))
            # identifiers of widths 4, 12, 2 and 9, 10, 1 in separately built one-row tables
            out += [dict(table=tab, n=3, op="concat_built", sid_widths=w) for w in ([4, 12, 2], [9, 10, 1], [12, 4, 11])]
            if tab != "seqentry":      # the key column held in an unsigned dtype (differences of unsigned numbers wrap around)
                out += [dict(table=tab, n=n, op="sort_by", start_dtype=dt_) for dt_ in ("uint8", "uint16")]
            if tier == "thorough":
                for a, b in (("fancy", "mask"), ("slice_rev", "fancy"), ("mask", "sort_by"), ("concat", "slice_tail"), ("sort_by", "fancy")):
                    if "sort_by" in (a, b) and tab == "seqentry":      # no integer column to sort by
                        continue
                    out.append(dict(table=tab, n=3 if "sort_by" in (a, b) else n, op=a, then=b))
        return out

    def inputs(self, skel, V):
        n = skel["n"]
        declare(V, skel)
        for k in range(2):
            for j in range(3):
                V.int(f"i{k}_{j}", -n, n - 1)
            for j in range(2 * n):
                V.int(f"m{k}_{j}", 0, 1)
                V.int(f"new{k}_{j}", -50, 50)

    def _apply(self, op, t, x, ctx, k, log, skel):
        from bionumpy.bnpdataclass import replace
        n = len(t)
        if op == "fancy":
            idx = [x[f"i{k}_{j}"] for j in range(3)]
            for v in idx:
                if not bool((v >= -n) & (v < n)) if ctx.mode == "plain" else not bool(_inrange(v, n)):
                    raise IndexError("harness: index out of range for this table")
            r = t[ctx.arr(idx, "int64")]
            log.append(("fancy", [int(v) for v in idx]))
            return r
        if op == "mask":
            bits = [x[f"m{k}_{j}"] for j in range(n)]
            r = t[ctx.arr(bits, "int64") == 1]
            log.append(("mask", [bool(b == 1) for b in bits]))
            return r
        if op == "mask_list":       # the mask as a plain Python list of bools (NumPy treats it like a boolean array)
            bits = [bool(x[f"m{k}_{j}"] == 1) for j in range(n)]
            log.append(("mask", list(bits)))
            return t[bits]
        if op == "fancy_list":      # the index vector as a plain Python list of ints
            idx = [int(x[f"i{k}_{j}"]) for j in range(3)]
            for v in idx:
                if not -n <= v < n:
                    raise IndexError("harness: index out of range for this table")
            log.append(("fancy", idx))
            return t[idx]
        if op == "slice_tail":
            return t[1:]
        if op == "slice_rev":
            return t[::-1]
        if op == "concat":
            return ctx.np.concatenate([t, t[:2]])
        if op == "concat_built":    # one-row tables built separately (each identifier column has its own width), put together
            return ctx.np.concatenate([build(ctx, skel, x, rows=[r]) for r in range(n)])
        if op == "concat_empty":    # only row-less operands
            return ctx.np.concatenate([t[0:0], t[n:], t[0:0]])
        if op == "concat_with_empty":
            return ctx.np.concatenate([t[0:0], t, t[n:]])
        if op == "sort_by":
            r = t.sort_by("start")
            return r
        if op == "replace":
            return replace(t, start=ctx.arr([x[f"new{k}_{j}"] for j in range(n)], "int64"))
        if op == "add_fields":
            return t.add_fields({"extra": ctx.arr([x[f"new{k}_{j}"] for j in range(n)], "int64")}, field_type_map={"extra": int})
        if op == "add_fields_twice":
            # the same operand is extended twice with different field names; the second result must not see the first field
            t.add_fields({"first_extra": ctx.arr([x[f"new1_{j}"] for j in range(n)], "int64")}, field_type_map={"first_extra": int})
            r = t.add_fields({"extra": ctx.arr([x[f"new{k}_{j}"] for j in range(n)], "int64")}, field_type_map={"extra": int})
            assert not hasattr(r, "first_extra"), "field added to another result leaked into this one"
            return r
        if op == "single":
            return t[1:2]
        raise ValueError(op)

    def call(self, skel, x, ctx):
        t = build(ctx, skel, x)
        log = []
        if skel["op"] == "rows_roundtrip":
            import bionumpy.datatypes as dt
            cls = {"interval": dt.Interval, "bed6": dt.Bed6}[skel["table"]]
            names = ["c1", "chrX", "c1", "c22"][:skel["n"]]
            tuples = []
            for r in range(skel["n"]):
                row = []
                for c, (nm, kind) in enumerate(TABLES[skel["table"]]):
                    row.append(names[r] if kind in ("sid", "sid0") else (x[f"t{r}_{c}"] if kind == "int" else "+-."[r % 3]))
                tuples.append(tuple(row))
            tab = cls.from_entry_tuples(tuples)
            back = tab.tolist()
            ints = [c for c, (nm, kind) in enumerate(TABLES[skel["table"]]) if kind == "int"]
            return dict(len=len(tab), rows=[[ctx.lst(getattr(e, TABLES[skel["table"]][c][0])) for c in ints] for e in back],
                        names=[str(e.chromosome) for e in back])
        if skel["op"] == "replace_wrong_len":
            from bionumpy.bnpdataclass import replace
            outcomes = []
            for m in (skel["n"] - 1, skel["n"] + 1):       # a column that is one row short / one row long must be refused
                try:
                    r = replace(t, start=ctx.arr([x[f"new0_{j}"] for j in range(m)], "int64"))
                    outcomes.append(("accepted", len(r)))
                except Exception as e:
                    outcomes.append(("raised", type(e).__name__))
            return dict(outcomes=outcomes, operand=observe(ctx, skel, t))
        r = self._apply(skel["op"], t, x, ctx, 0, log, skel)
        if skel.get("then"):
            r = self._apply(skel["then"], r, x, ctx, 1, log, skel)
        res = dict(result=observe(ctx, dict(skel), r), operand=observe(ctx, skel, t), log=log)
        if skel["op"] in ("add_fields", "add_fields_twice") or skel.get("then") == "add_fields":
            res["extra"] = ctx.lst(r.extra)
        return res

    # ---- model
    def _model(self, op, rows, g, k, log, I):
        n = len(rows)
        if op == "fancy":
            idx = log.pop(0)[1]
            return [rows[i] for i in idx]
        if op in ("mask", "mask_list"):
            bits = log.pop(0)[1]
            return [r for r, b in zip(rows, bits) if b]
        if op == "fancy_list":
            idx = log.pop(0)[1]
            return [rows[i] for i in idx]
        if op == "concat_empty":
            return []
        if op in ("concat_with_empty", "concat_built"):
            return list(rows)
        if op == "slice_tail":
            return rows[1:]
        if op == "slice_rev":
            return rows[::-1]
        if op == "concat":
            return rows + rows[:2]
        if op == "replace":
            return [[row[0], g(f"new{k}_{j}")] + list(row[2:]) for j, row in enumerate(rows)]
        if op in ("add_fields", "add_fields_twice"):
            return [list(row) + [g(f"new{k}_{j}")] for j, row in enumerate(rows)]
        if op == "single":
            return rows[1:2]
        if op == "sort_by":
            return ("sorted", rows)
        raise ValueError(op)

    def _row_eq(self, got_row, exp_row, conj):
        for gv, ev in zip(got_row, exp_row):
            if isinstance(ev, list):
                from vlib.harness import SStr
                if isinstance(gv, SStr) and len(gv) > len(ev):
                    conj += [TI(t) == 0 for t in gv[len(ev):]]
                    gv = gv[:len(ev)]
                if not isinstance(gv, list) or len(gv) != len(ev):
                    return False
                conj += [TI(a) == b for a, b in zip(gv, ev)]
            else:
                conj.append(TI(gv) == ev)
        return True

    def _rows_of(self, skel, obs, extra=None):
        cols = [nm for nm, _ in TABLES[skel["table"]]]
        m = obs["len"]
        if any(len(obs[c]) != m for c in cols):
            return None                                        # columns of unequal length
        rows = [[obs[c][j] for c in cols] + ([extra[j]] if extra is not None else []) for j in range(m)]
        return rows

    def post(self, skel, x, out):
        if isinstance(out, Exc):
            return out.type == "IndexError" and "harness" in out.msg
        g = lambda nm: x[nm].t
        if skel["op"] == "replace_wrong_len":
            return all(o[0] == "raised" for o in out["outcomes"])       # every table has columns of equal length: refuse the column
        if skel["op"] == "rows_roundtrip":
            ints = [c for c, (nm, kind) in enumerate(TABLES[skel["table"]]) if kind == "int"]
            if out["len"] != skel["n"] or len(out["rows"]) != skel["n"] or out["names"] != ["c1", "chrX", "c1", "c22"][:skel["n"]]:
                return False
            return z_and([TI(out["rows"][r][i]) == g(f"t{r}_{c}") for r in range(skel["n"]) for i, c in enumerate(ints)])
        rows = model_rows(skel, g)
        log = list(out["log"])
        exp = self._model(skel["op"], rows, g, 0, log, None)
        ops = [skel["op"]] + ([skel["then"]] if skel.get("then") else [])
        conj = []
        # operand unchanged
        op_rows = self._rows_of(skel, out["operand"])
        if op_rows is None or len(op_rows) != len(rows):
            return False
        for gr, er in zip(op_rows, rows):
            if not self._row_eq(gr, er, conj):
                return False
        got = self._rows_of(skel, out["result"], out.get("extra"))
        if got is None:
            return False
        if isinstance(exp, tuple) and exp[0] == "sorted":
            if skel.get("then"):
                return True if False else z_and(conj)      # (sort as first of two ops is only checked through the single-op skeletons)
            base = exp[1]
            if len(got) != len(base):
                return False
            perms = []
            for perm in itertools.permutations(range(len(base))):
                c2 = []
                ok = all(self._row_eq(got[j], base[perm[j]], c2) for j in range(len(base)))
                if ok:
                    perms.append(z_and(c2))
            conj.append(z_or(perms))
            conj += [TI(got[j][1]) <= TI(got[j + 1][1]) for j in range(len(got) - 1)]
            return z_and(conj)
        if skel.get("then"):
            exp2 = self._model(skel["then"], exp, g, 1, log, None)
            if isinstance(exp2, tuple):
                base = exp2[1]
                if len(got) != len(base):
                    return False
                perms = []
                for perm in itertools.permutations(range(len(base))):
                    c2 = []
                    if all(self._row_eq(got[j], base[perm[j]], c2) for j in range(len(base))):
                        perms.append(z_and(c2))
                conj.append(z_or(perms))
                conj += [TI(got[j][1]) <= TI(got[j + 1][1]) for j in range(len(got) - 1)]
                return z_and(conj)
            exp = exp2
        if len(got) != len(exp):
            return False
        for gr, er in zip(got, exp):
            if len(gr) != len(er) or not self._row_eq(gr, er, conj):
                return False
        return z_and(conj)

    def oracle(self, skel, cx, cout):
        if isinstance(cout, Exc):
            if cout.type == "IndexError" and "harness" in cout.msg:
                return None
            return f"raised {cout}"
        g = lambda nm: cx[nm]
        if skel["op"] == "replace_wrong_len":
            bad = [o for o in cout["outcomes"] if o[0] != "raised"]
            return None if not bad else (f"replace(table of {skel['n']} rows, start=<column of {skel['n'] - 1} / {skel['n'] + 1} values>) was accepted: "
                                         f"{cout['outcomes']} (a table must have columns of equal length)")
        if skel["op"] == "rows_roundtrip":
            ints = [c for c, (nm, kind) in enumerate(TABLES[skel["table"]]) if kind == "int"]
            exp = [[g(f"t{r}_{c}") for c in ints] for r in range(skel["n"])]
            ok = cout["len"] == skel["n"] and cout["rows"] == exp and cout["names"] == ["c1", "chrX", "c1", "c22"][:skel["n"]]
            return None if ok else f"from_entry_tuples/tolist round trip: {cout}, expected integer cells {exp}"
        rows = model_rows(skel, g)
        log = list(cout["log"])
        exp = self._model(skel["op"], rows, g, 0, log, None)
        if skel.get("then") and not isinstance(exp, tuple):
            exp = self._model(skel["then"], exp, g, 1, log, None)
        strip = lambda rows_: [[list(v) if isinstance(v, list) else v for v in r] for r in rows_]
        op_rows = self._rows_of(skel, cout["operand"])
        if op_rows is None or strip(op_rows) != rows:
            return f"operand changed or columns misaligned after {skel['op']}: {cout['operand']} (was {rows})"
        got = self._rows_of(skel, cout["result"], cout.get("extra"))
        if got is None:
            return f"result of {skel['op']} has columns of unequal length: {cout['result']}"
        got = strip(got)
        if isinstance(exp, tuple):
            if skel.get("then") and skel["op"] == "sort_by":
                return None
            ok = sorted(map(repr, got)) == sorted(map(repr, exp[1])) and all(got[j][1] <= got[j + 1][1] for j in range(len(got) - 1))
            return None if ok else f"sort_by('start') of rows {exp[1]} gives {got}: not the rows sorted by start"
        return None if got == exp else f"{skel['op']}{'+' + skel['then'] if skel.get('then') else ''} (choices {cout['log']}) on rows {rows}: result rows {got}, expected {exp}"


def _inrange(v, n):
    from symnp.core import S_land, S_ge, S_lt
    return S_land(S_ge(v, -n), S_lt(v, n))


class Nested(Harness):
    """dict conversion of tables with nested-table columns; column declared with an encoding built from encoded data"""
    name = "nested_and_typed"
    functions = ("BNPDataClass.todict/from_dict", "bnpdataclass._implicit_format_conversion (Encoding typed columns)", "as_encoded_array")
    bounds = {"quick": "Pair(first: Person, second: Person, score:int) with integer-only Person(age, height), 2-3 rows, symbolic cells; "
                       "a table column declared DNAEncoding built from ACGTN-encoded symbolic codes",
              "thorough": "same"}

    def skeletons(self, tier, seed):
        return [dict(case="nested", n=2), dict(case="nested", n=3), dict(case="typed", n=1), dict(case="typed", n=3),
                dict(case="nested", n=2, depth=2)]       # a nested-table column whose rows again hold a nested-table column

    def inputs(self, skel, V):
        if skel["case"] == "nested":
            for r in range(skel["n"]):
                for f in ("fa", "fh", "sa", "sh", "sc"):
                    V.int(f"{f}{r}", -20, 20)
        else:
            for r in range(skel["n"]):
                V.int(f"c{r}", 0, 4)

    def call(self, skel, x, ctx):
        from bionumpy.bnpdataclass import bnpdataclass
        n = skel["n"]
        if skel["case"] == "nested":
            @bnpdataclass
            class Person:
                age: int
                height: int

            @bnpdataclass
            class Pair:
                first: Person
                second: Person
                score: int
            col = lambda f: ctx.arr([x[f"{f}{r}"] for r in range(n)], "int64")
            pair = Pair(Person(col("fa"), col("fh")), Person(col("sa"), col("sh")), col("sc"))
            if skel.get("depth") == 2:
                @bnpdataclass
                class Match:
                    pair: Pair
                    round: int
                match = Match(pair, col("sc"))
                d = match.todict()
                back = Match.from_dict(d)
                assert ctx.lst(back.round) == ctx.lst(back.pair.score)
                back = back.pair
                return dict(first=[ctx.lst(back.first.age), ctx.lst(back.first.height)], second=[ctx.lst(back.second.age), ctx.lst(back.second.height)],
                            score=ctx.lst(back.score), keys=sorted(d))
            back = Pair.from_dict(pair.todict())
            return dict(first=[ctx.lst(back.first.age), ctx.lst(back.first.height)], second=[ctx.lst(back.second.age), ctx.lst(back.second.height)],
                        score=ctx.lst(back.score), keys=sorted(pair.todict()))
        from bionumpy.encoded_array import EncodedArray
        import bionumpy.encodings.alphabet_encoding as ae

        @bnpdataclass
        class Typed:
            seq: ae.ACGTEncoding
        src = EncodedArray(ctx.arr([x[f"c{r}"] for r in range(n)], "uint8"), ae.ACGTnEncoding)
        t = Typed(src)
        try:
            return dict(decoded=ctx.lst(ae.ACGTEncoding.decode(t.seq).raw()))
        except IndexError:
            return dict(decoded="invalid")

    def post(self, skel, x, out):
        n = skel["n"]
        if skel["case"] == "typed":
            anyN = z_or([x[f"c{r}"].t == 4 for r in range(n)])
            if isinstance(out, Exc):
                return anyN                                  # may only be refused when a letter is outside the target alphabet
            if out["decoded"] == "invalid" or len(out["decoded"]) != n:
                return False
            letters = [z3.If(x[f"c{r}"].t == 0, 65, z3.If(x[f"c{r}"].t == 1, 67, z3.If(x[f"c{r}"].t == 2, 71, 84))) for r in range(n)]
            return z3.And(z3.Not(anyN), *[TI(d) == l for d, l in zip(out["decoded"], letters)])
        if isinstance(out, Exc):
            return False
        if skel.get("depth") == 2 and out["keys"] != sorted(["pair.first.age", "pair.first.height", "pair.second.age", "pair.second.height", "pair.score", "round"]):
            return False          # the deep columns carry their full dotted path
        conj = []
        for key, fs in (("first", ("fa", "fh")), ("second", ("sa", "sh"))):
            for i, f in enumerate(fs):
                if len(out[key][i]) != n:
                    return False
                conj += [TI(out[key][i][r]) == x[f"{f}{r}"].t for r in range(n)]
        conj += [TI(out["score"][r]) == x[f"sc{r}"].t for r in range(n)]
        return z_and(conj)

    def oracle(self, skel, cx, cout):
        n = skel["n"]
        if skel["case"] == "typed":
            codes = [cx[f"c{r}"] for r in range(n)]
            if isinstance(cout, Exc):
                return None if 4 in codes else f"column typed ACGT refused ACGTN-encoded codes {codes}: {cout}"
            if cout["decoded"] == "invalid" or 4 in codes:
                return f"column typed ACGT built from ACGTN codes {codes}: accepted, decodes to {cout['decoded']}"
            return None if cout["decoded"] == [ord("ACGT"[c]) for c in codes] else f"typed column decodes to {cout['decoded']} for codes {codes}"
        if isinstance(cout, Exc):
            return f"raised {cout}"
        exp = dict(first=[[cx[f"fa{r}"] for r in range(n)], [cx[f"fh{r}"] for r in range(n)]],
                   second=[[cx[f"sa{r}"] for r in range(n)], [cx[f"sh{r}"] for r in range(n)]], score=[cx[f"sc{r}"] for r in range(n)])
        got = {k: cout[k] for k in exp}
        if skel.get("depth") == 2 and cout["keys"] != sorted(["pair.first.age", "pair.first.height", "pair.second.age", "pair.second.height", "pair.score", "round"]):
            return f"todict() of a table nested two levels deep has the keys {cout['keys']}"
        return None if got == exp else f"from_dict(todict()) of nested table: {got}, expected {exp}"


class Conversions(Harness):
    """table <-> dict <-> pandas round trips for a table with list-valued columns, on every row selection including the empty one;
    and add_fields histories (the same field name added to the same table class with different declared types)"""
    name = "conversions"
    functions = ("BNPDataClass.todict/from_dict/topandas/from_data_frame", "PandasAdaptor.pandas_converter", "BNPDataClass.add_fields/extend")
    bounds = {"quick": "GfaPath (name, list-of-int node_ids, list-of-int directions) with 3 rows of list lengths [3,0,1] / [0,2,2]: every row "
                       "subset by a symbolic boolean mask (incl. no rows); dict round trip with symbolic list elements, pandas round trip with "
                       "concrete ones; add_fields of field 'extra' declared str then DNA and DNA then str on one table class",
              "thorough": "also 4 rows [2,0,0,1]"}
    stubs = ("the pandas round trip runs on concrete cell values (a DataFrame cannot hold symbolic cells); only the row selection is symbolic there",)

    def skeletons(self, tier, seed):
        shapes = [[3, 0, 1], [0, 2, 2]] + ([[2, 0, 0, 1]] if tier == "thorough" else [])
        out = [dict(case=c, lens=l) for c in ("dict", "pandas") for l in shapes]
        # rows as Python objects (tolist / toiter) of a SELECTION whose list-valued columns nothing has flattened yet
        out += [dict(case="tolist", lens=l, select=s_) for l in shapes for s_ in ("mask", "tail", "perm")]
        out += [dict(case="retype", order=o, n=2) for o in (["str", "dna"], ["dna", "str"], ["dna", "dna"])]
        return out

    def inputs(self, skel, V):
        if skel["case"] == "retype":
            for i in range(2 * skel["n"]):
                V.int(f"l{i}", 0, 3)
            return
        for i in range(sum(skel["lens"])):
            V.int(f"v{i}", 0, 9)
            V.int(f"d{i}", 0, 1)
        for r in range(len(skel["lens"])):
            V.int(f"m{r}", 0, 1)

    def call(self, skel, x, ctx):
        if skel["case"] == "retype":
            return self._retype(skel, x, ctx)
        from bionumpy.datatypes import GfaPath
        from npstructures import RaggedArray
        lens = skel["lens"]
        n, tot = len(lens), sum(lens)
        conc = skel["case"] == "pandas"
        vals = [(3 * i + 1) % 10 for i in range(tot)] if conc else [x[f"v{i}"] for i in range(tot)]
        dirs = [i % 2 for i in range(tot)] if conc else [x[f"d{i}"] for i in range(tot)]
        mk = (lambda v: RaggedArray(__import__("numpy").array(v, dtype="int64"), lens)) if conc else (lambda v: RaggedArray(ctx.arr(v, "int64"), lens))
        full = GfaPath([f"p{r}" for r in range(n)], mk(vals), mk(dirs))
        bits = [x[f"m{r}"] for r in range(n)]
        if skel.get("select") in ("tail", "perm"):
            sel = full[1:] if skel["select"] == "tail" else full[[n - 1, 0]]
            keep = list(range(1, n)) if skel["select"] == "tail" else [n - 1, 0]
            ents = sel.tolist()
            return dict(bits=None, keep=keep, n=len(sel), back=dict(names=[str(e.name) for e in ents], node_ids=[ctx.lst(e.node_ids) for e in ents],
                                                                    directions=[ctx.lst(e.directions) for e in ents]))
        sel = full[ctx.arr(bits, "int64") == 1]
        if skel["case"] == "tolist":
            ents = sel.tolist()
            return dict(bits=[bool(b == 1) for b in bits], n=len(sel), back=dict(names=[str(e.name) for e in ents],
                        node_ids=[ctx.lst(e.node_ids) for e in ents], directions=[ctx.lst(e.directions) for e in ents]))
        rows = lambda t: dict(names=[nm.to_string() for nm in t.name], node_ids=ctx.lst(t.node_ids), directions=ctx.lst(t.directions))
        res = dict(bits=[bool(b == 1) for b in bits], n=len(sel))
        if conc:
            df = sel.topandas()
            res["df_rows"] = int(df.shape[0])
            res["back"] = rows(GfaPath.from_data_frame(df))
        else:
            d = sel.todict()
            res["dict_lens"] = {k: len(v) for k, v in d.items()}
            res["back"] = rows(GfaPath.from_dict(d))
        return res

    def _retype(self, skel, x, ctx):
        from bionumpy.datatypes import Interval
        from bionumpy.encoded_array import EncodedArray, EncodedRaggedArray, BaseEncoding
        import bionumpy as bnp
        n = skel["n"]
        table = Interval(["c"] * n, list(range(n)), list(range(1, n + 1)))
        letters = ctx.arr([65, 67, 71, 84], "uint8")                      # upper-case letters selected by symbolic codes
        codes = ctx.arr([x[f"l{i}"] for i in range(2 * n)], "int64")
        text = EncodedRaggedArray(EncodedArray(letters[codes], BaseEncoding), [2] * n)
        out = []
        for kind in skel["order"]:
            tp = str if kind == "str" else bnp.DNAEncoding
            r = table.add_fields({"extra": text}, field_type_map={"extra": tp})
            enc = r.extra.encoding
            out.append(dict(kind=kind, is_dna=bool(enc == bnp.DNAEncoding), is_base=bool(enc == BaseEncoding), raw=ctx.lst(r.extra.ravel().raw())))
        return dict(steps=out)

    def _exp_rows(self, skel, bits, keep=None):
        lens = skel["lens"]
        starts = [sum(lens[:r]) for r in range(len(lens))]
        keep = [r for r, b in enumerate(bits) if b] if keep is None else keep
        return keep, starts

    def post(self, skel, x, out):
        if isinstance(out, Exc):
            return False
        if skel["case"] == "retype":
            n = skel["n"]
            conj = []
            for st in out["steps"]:
                if st["is_dna"] != (st["kind"] == "dna") or st["is_base"] != (st["kind"] == "str") or len(st["raw"]) != 2 * n:
                    return False
                for i, v in enumerate(st["raw"]):
                    c = x[f"l{i}"].t
                    asc = z3.If(c == 0, 65, z3.If(c == 1, 67, z3.If(c == 2, 71, 84)))
                    conj.append(TI(v) == (asc if st["kind"] == "str" else c))          # DNAEncoding = ACGT: code == index
            return z_and(conj)
        lens = skel["lens"]
        keep, starts = self._exp_rows(skel, out["bits"], out.get("keep"))
        conc = skel["case"] == "pandas"
        if out["n"] != len(keep):
            return False
        if conc and out["df_rows"] != len(keep):
            return False
        if skel["case"] == "dict" and any(v != len(keep) for v in out["dict_lens"].values()):
            return False
        b = out["back"]
        if b["names"] != [f"p{r}" for r in keep] or len(b["node_ids"]) != len(keep) or len(b["directions"]) != len(keep):
            return False
        conj = [x[f"m{r}"].t == (1 if r in keep else 0) for r in range(len(lens))] if out["bits"] is not None else []
        for j, r in enumerate(keep):
            if len(b["node_ids"][j]) != lens[r] or len(b["directions"][j]) != lens[r]:
                return False
            for i in range(lens[r]):
                k = starts[r] + i
                conj.append(TI(b["node_ids"][j][i]) == ((3 * k + 1) % 10 if conc else x[f"v{k}"].t))
                conj.append(TI(b["directions"][j][i]) == (k % 2 if conc else x[f"d{k}"].t))
        return z_and(conj)

    def oracle(self, skel, cx, cout):
        if isinstance(cout, Exc):
            return f"{skel}: raised {cout}"
        if skel["case"] == "retype":
            n = skel["n"]
            for st in cout["steps"]:
                codes = [cx[f"l{i}"] for i in range(2 * n)]
                exp = [ord("ACGT"[c]) for c in codes] if st["kind"] == "str" else codes
                if st["is_dna"] != (st["kind"] == "dna") or st["is_base"] != (st["kind"] == "str") or st["raw"] != exp:
                    return (f"add_fields('extra' declared {skel['order']} in turn on one Interval table): the column added as {st['kind']} has "
                            f"encoding dna={st['is_dna']} ascii={st['is_base']} and raw values {st['raw']}, expected {exp}")
            return None
        lens = skel["lens"]
        bits = [cx[f"m{r}"] == 1 for r in range(len(lens))]
        keep, starts = self._exp_rows(skel, bits, cout.get("keep"))
        conc = skel["case"] == "pandas"
        val = lambda k: ((3 * k + 1) % 10 if conc else cx[f"v{k}"])
        dr = lambda k: (k % 2 if conc else cx[f"d{k}"])
        exp = dict(names=[f"p{r}" for r in keep], node_ids=[[val(starts[r] + i) for i in range(lens[r])] for r in keep],
                   directions=[[dr(starts[r] + i) for i in range(lens[r])] for r in keep])
        what = "topandas/from_data_frame" if conc else ("todict/from_dict" if skel["case"] == "dict" else "tolist()")
        if cout["n"] != len(keep):
            return f"selection of rows {keep} has {cout['n']} rows"
        if conc and cout["df_rows"] != len(keep):
            return f"topandas() of the selection of rows {keep}: the data frame has {cout['df_rows']} rows"
        if skel["case"] == "dict" and any(v != len(keep) for v in cout["dict_lens"].values()):
            return f"todict() of the selection of rows {keep} (list lengths {lens}): column lengths {cout['dict_lens']}, expected {len(keep)} each"
        if cout["back"] != exp:
            return f"{what} round trip of rows {keep}: {cout['back']}, expected {exp}"
        return None



from checks.C02 import VCF as _VCF


class ParsedSelection(_VCF):
    """a VCF table read from a file (nested, typed INFO table; genotype columns) indexed with a re-ordering / repeating integer list: every
    column of the result, the INFO keys included, holds the selected records' values -- also when an INFO key was read on the whole table
    before the selection (the C02 VCF harness with selection histories)"""
    name = "parsed_selection"
    bounds = {"quick": "3 records whose INFO carries DP (Integer) and AF (Float; forms d.d / .dd / absent); index lists [2,0,1], [1,0], [0,0,2], "
                       "[2,1,0]; with and without DP / AF read on the whole table first; lazy and eager reading; VCFBuffer and VCFBuffer2",
              "thorough": "adds VCFMatrixBuffer and more index lists"}

    def skeletons(self, tier, seed):
        R = lambda chrom, pos, idw, info, dpw, af: dict(chrom=chrom, pos=pos, id=idw, ref=1, alt=1, info=info, dpw=dpw, fmt="GT", samples=["gt", "gt"],
                                                        **({"af": af} if af else {}))
        recs = [R(1, 1, 1, "dp", 1, (1, 1)), R(2, 2, 1, "fl_dp", 2, None), R(1, 1, 2, "dp", 1, (0, 2))]
        out = []
        sels = [[2, 0, 1], [1, 0], [0, 0, 2], [2, 1, 0]] + ([[1, 2, 0], [2, 2], [0, 2]] if tier == "thorough" else [])
        for buf in ("VCFBuffer", "VCFBuffer2") + (("VCFMatrixBuffer",) if tier == "thorough" else ()):
            for sel in sels:
                for touch in ([], ["DP"], ["AF"]):
                    for lazy in (False, True):
                        if tier == "quick" and lazy and (buf != "VCFBuffer" or sel not in ([2, 0, 1], [0, 0, 2])):
                            continue
                        out.append(dict(recs=recs, buffer=buf, crlf=False, prior=None, select=sel, touch=touch, lazy=lazy))
        # a sites-only file (INFO is the last column) whose LAST record has a one-character INFO: the text of that field ends the data
        recs2 = [R(1, 1, 1, "dp", 1, (1, 1)), R(2, 2, 1, "dp", 2, None), R(1, 1, 2, "only_x", 1, None)]
        for sel in ([2, 0, 1], [2, 1, 0], [0, 2, 1]):
            for lazy in (False, True):
                out.append(dict(recs=recs2, buffer="VCFBuffer", crlf=False, prior=None, select=sel, touch=[], lazy=lazy, no_samples=True))
        return out


HARNESSES = [TableOps(), Nested(), Conversions(), ParsedSelection()]
