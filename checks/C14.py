"""C14 -- reverse complement, stranded extraction and translation are biologically exact."""
import itertools
import z3
from vlib.harness import Harness, Exc
from vlib.zutil import TI, TB, z_and, z_or, in_set, upper

DNA_ASCII = [ord(c) for c in "ACGTNacgtn"]
COMP = {"A": "T", "C": "G", "G": "C", "T": "A", "N": "N"}
COMP_ASCII = {ord(k): ord(v) for k, v in COMP.items()}
COMP_ASCII.update({ord(k.lower()): ord(v.lower()) for k, v in COMP.items()})
ALPH = {"ACGTEncoding": "ACGT", "ACTGEncoding": "ACTG", "ACGTnEncoding": "ACGTN", "ACTGnEncoding": "ACTGN"}

# standard genetic code, written by amino acid (independent of the library's TCAG-ordered string)
_BY_AA = {
    "F": "TTT TTC", "L": "TTA TTG CTT CTC CTA CTG", "I": "ATT ATC ATA", "M": "ATG", "V": "GTT GTC GTA GTG",
    "S": "TCT TCC TCA TCG AGT AGC", "P": "CCT CCC CCA CCG", "T": "ACT ACC ACA ACG", "A": "GCT GCC GCA GCG",
    "Y": "TAT TAC", "*": "TAA TAG TGA", "H": "CAT CAC", "Q": "CAA CAG", "N": "AAT AAC", "K": "AAA AAG",
    "D": "GAT GAC", "E": "GAA GAG", "C": "TGT TGC", "W": "TGG", "R": "CGT CGC CGA CGG AGA AGG", "G": "GGT GGC GGA GGG"}
CODON = {c: aa for aa, cs in _BY_AA.items() for c in cs.split()}
assert len(CODON) == 64


def comp_term(kind, v):
    """z3 term of the complement of symbol term v (ascii byte or alphabet code)"""
    if kind == "ascii":
        t = z3.IntVal(-1)
        for k, c in COMP_ASCII.items():
            t = z3.If(v == k, c, t)
        return t
    alpha = ALPH[kind]
    t = z3.IntVal(-1)
    for i, a in enumerate(alpha):
        t = z3.If(v == i, alpha.index(COMP[a]), t)
    return t


def comp_py(kind, v):
    if kind == "ascii":
        return COMP_ASCII[v]
    alpha = ALPH[kind]
    return alpha.index(COMP[alpha[v]])


def declare_syms(V, kind, n, prefix="b"):
    out = []
    for i in range(n):
        if kind == "ascii":
            v = V.int(f"{prefix}{i}", 65, 116)
            V.assume(in_set(v.t, DNA_ASCII))
        else:
            v = V.int(f"{prefix}{i}", 0, len(ALPH[kind]) - 1)
        out.append(v)
    return out


def make_seq(ctx, kind, syms, lens=None):
    from bionumpy.encoded_array import EncodedArray, EncodedRaggedArray, BaseEncoding
    import bionumpy.encodings.alphabet_encoding as ae
    enc = BaseEncoding if kind == "ascii" else getattr(ae, kind)
    ea = EncodedArray(ctx.arr(syms, "uint8"), enc)
    if lens is None:
        return ea
    return EncodedRaggedArray(ea, list(lens))


def rows_of(ctx, r):
    from bionumpy.encoded_array import EncodedRaggedArray
    if isinstance(r, EncodedRaggedArray):
        return ctx.lst(r)
    return [ctx.lst(r.raw())]


class RevComp(Harness):
    name = "reverse_complement"
    functions = ("get_reverse_complement", "complement", "_get_complement_lookup (both branches)", "Lookup.__getitem__")
    bounds = {"quick": "encodings ascii{ACGTNacgtn}, ACGT, ACTG, ACGTn, ACTGn; flat arrays of length 0-3, ragged [2,0,1], [1,3]",
              "thorough": "adds flat length 4-5, ragged [0,0], [3,2,1], [1,1,1,1]"}

    def skeletons(self, tier, seed):
        shapes = [dict(lens=None, n=n) for n in (0, 1, 2, 3)] + [dict(lens=[2, 0, 1], n=3), dict(lens=[1, 3], n=4)]
        if tier == "thorough":
            shapes += [dict(lens=None, n=4), dict(lens=None, n=5), dict(lens=[0, 0], n=0), dict(lens=[3, 2, 1], n=6),
                       dict(lens=[1, 1, 1, 1], n=4)]
        return [dict(kind=k, **s) for k in ["ascii"] + list(ALPH) for s in shapes]

    def inputs(self, skel, V):
        declare_syms(V, skel["kind"], skel["n"])

    def call(self, skel, x, ctx):
        from bionumpy.sequence import get_reverse_complement
        syms = [x[f"b{i}"] for i in range(skel["n"])]
        seq = make_seq(ctx, skel["kind"], syms, skel["lens"])
        rc = get_reverse_complement(seq)
        assert rc.encoding == seq.encoding
        twice = get_reverse_complement(rc)
        return dict(rc=rows_of(ctx, rc), twice=rows_of(ctx, twice), arg=rows_of(ctx, seq))

    def _rows(self, skel, vals):
        lens = skel["lens"] if skel["lens"] is not None else [skel["n"]]
        rows, k = [], 0
        for L in lens:
            rows.append(vals[k:k + L]); k += L
        return rows

    def post(self, skel, x, out):
        if isinstance(out, Exc):
            return False
        rows = self._rows(skel, [x[f"b{i}"].t for i in range(skel["n"])])
        conj = []
        for key in ("rc", "twice", "arg"):
            if [len(r) for r in out[key]] != [len(r) for r in rows]:
                return False
        for r, row in enumerate(rows):
            L = len(row)
            for j in range(L):
                conj.append(TI(out["rc"][r][j]) == comp_term(skel["kind"], row[L - 1 - j]))
                conj.append(TI(out["twice"][r][j]) == row[j])
                conj.append(TI(out["arg"][r][j]) == row[j])
        return z_and(conj)

    def oracle(self, skel, cx, cout):
        if isinstance(cout, Exc):
            return f"raised {cout}"
        rows = self._rows(skel, [cx[f"b{i}"] for i in range(skel["n"])])
        exp = [[comp_py(skel["kind"], v) for v in reversed(row)] for row in rows]
        show = (lambda rr: [bytes(r).decode("latin1") for r in rr]) if skel["kind"] == "ascii" else (lambda rr: rr)
        if cout["rc"] != exp:
            return f"reverse_complement[{skel['kind']}]({show(rows)}) = {show(cout['rc'])}, expected {show(exp)}"
        if cout["twice"] != rows:
            return f"reverse complement applied twice to {show(rows)} gives {show(cout['twice'])}"
        if cout["arg"] != rows:
            return "argument modified"
        return None


class Stranded(Harness):
    name = "strand_specific"
    functions = ("get_strand_specific_sequences", "EncodedArray[starts:stops] ragged slicing", "np.where on EncodedRaggedArray",
                 "GenomicSequence.extract_intervals(stranded=True) (dict backend)")
    bounds = {"quick": "sequence of 3 symbolic bases (ascii upper/lower, ACGTn), 1-2 intervals with every 0<=start<stop<=3 and every strand; "
                       "the genome sequence object with 0-2 intervals, 0<=start<=stop<=3",
              "thorough": "sequence of 4-5 bases, 1-2 intervals"}

    def skeletons(self, tier, seed):
        gs = [dict(kind="ACGTnEncoding", N=3, m=m, api="genomic_sequence") for m in (0, 1, 2)]     # Genome sequence object, 0-2 intervals
        # two chromosomes (the same symbolic sequence under two names would hide mix-ups: chr2 is its reverse), 3 intervals in an
        # order that is not its own inverse
        gs += [dict(kind="ACGTnEncoding", N=3, m=3, api="genomic_sequence", chroms=c) for c in ([1, 0, 0], [1, 1, 0])]
        # the intervals carry the chromosome codes of a genome context that lists the chromosomes in ANOTHER order than the sequence dict
        gs += [dict(kind="ACGTnEncoding", N=3, m=2, api="genomic_sequence", chroms=c, context_order="reversed") for c in ([0, 1], [1, 1], [1, 0])]
        # history: another genome with the same chromosome names (other lengths, other bases) was queried earlier in this process
        gs += [dict(kind="ACGTnEncoding", N=3, m=2, api="genomic_sequence", prior_genome=True),
               dict(kind="ACGTnEncoding", N=3, m=2, api="genomic_sequence", chroms=[1, 0], prior_genome=True)]
        # the intervals went through clip() / replace() before they index the sequence (they are inside their chromosomes: nothing changes)
        gs += [dict(kind="ACGTnEncoding", N=3, m=2, api="genomic_sequence", chroms=c, via=via) for c in ([0, 1], [1, 0]) for via in ("clip", "replace")]
        # the plain function with EMPTY intervals among the others (start == stop), also next to '-' intervals
        gs += [dict(kind="ascii", N=3, m=2, empty_ok=True), dict(kind="ACGTnEncoding", N=3, m=3, empty_ok=True)]
        if tier == "quick":
            return [dict(kind=k, N=3, m=m) for k in ("ascii", "ACGTnEncoding") for m in (1, 2)] + gs
        return [dict(kind=k, N=N, m=m) for k in ("ascii", "ACGTnEncoding", "ACTGEncoding") for N in (4, 5) for m in (1, 2)][:-1] + gs + \
            [dict(kind="ACGTnEncoding", N=4, m=2, api="genomic_sequence")]

    def inputs(self, skel, V):
        declare_syms(V, skel["kind"], skel["N"])
        for i in range(skel["m"]):
            s = V.int(f"s{i}", 0, skel["N"]); e = V.int(f"e{i}", 0, skel["N"])
            V.assume(s.t <= e.t if (skel.get("api") or skel.get("empty_ok")) else s.t < e.t)        # the genome sequence object also gets empty intervals
            V.int(f"neg{i}", 0, 1)

    def call(self, skel, x, ctx):
        from bionumpy.sequence.dna import get_strand_specific_sequences
        from bionumpy.datatypes import Bed6
        from bionumpy.encodings import StrandEncoding
        from bionumpy.encoded_array import EncodedArray
        N, m = skel["N"], skel["m"]
        seq = make_seq(ctx, skel["kind"], [x[f"b{i}"] for i in range(N)])
        if skel.get("api") == "genomic_sequence":
            from bionumpy.genomic_data.genomic_sequence import GenomicSequence
            from bionumpy.datatypes import StrandedInterval
            chroms = skel.get("chroms", [0] * m)
            if skel.get("prior_genome"):
                import bionumpy as bnp
                other = GenomicSequence.from_dict({"chr1": bnp.as_encoded_array("TTGCA", seq.encoding), "chr2": bnp.as_encoded_array("GGGA", seq.encoding)})
                prior = other.extract_intervals(StrandedInterval(["chr1", "chr2", "chr1"], [0, 1, 2], [3, 4, 5], ["-", "-", "+"]), stranded=True)
                assert prior.tolist() == ["CAA", "TCC", "GCA"], prior.tolist()
            gseq = GenomicSequence.from_dict({"chr1": seq, "chr2": seq[::-1]} if "chroms" in skel else {"chr1": seq})
            iv = StrandedInterval(["chr1" if c == 0 else "chr2" for c in chroms], ctx.arr([x[f"s{i}"] for i in range(m)], "int64"), ctx.arr([x[f"e{i}"] for i in range(m)], "int64"),
                                  EncodedArray(ctx.arr([x[f"neg{i}"] for i in range(m)], "uint8"), StrandEncoding))
            if skel.get("via"):
                import bionumpy as bnp
                from bionumpy.genomic_data import GenomicIntervals, GenomeContext
                context = GenomeContext.from_dict({"chr1": N, "chr2": N})
                gi = GenomicIntervals.from_fields(context, iv.chromosome, iv.start, iv.stop, iv.strand)
                gi = gi.clip() if skel["via"] == "clip" else bnp.replace(gi, start=gi.start)
                out = gseq[gi]
            elif skel.get("context_order"):
                from bionumpy.genomic_data import GenomicIntervals, GenomeContext
                context = GenomeContext.from_dict({"chr2": N, "chr1": N})       # chr2 has code 0 here, chr1 code 1
                gi = GenomicIntervals.from_fields(context, iv.chromosome, iv.start, iv.stop, iv.strand)
                out = gseq[gi]
            else:
                out = gseq.extract_intervals(iv, stranded=True)
            assert len(out) == m, (len(out), m)
            return dict(rows=[ctx.lst(out[i].raw()) for i in range(m)] if m else [], seq=ctx.lst(seq.raw()))
        iv = Bed6(["c"] * m, ctx.arr([x[f"s{i}"] for i in range(m)], "int64"), ctx.arr([x[f"e{i}"] for i in range(m)], "int64"),
                  ["."] * m, [0] * m, EncodedArray(ctx.arr([x[f"neg{i}"] for i in range(m)], "uint8"), StrandEncoding))
        out = get_strand_specific_sequences(seq, iv)
        return dict(rows=ctx.lst(out), seq=ctx.lst(seq.raw()))

    def post(self, skel, x, out):
        if isinstance(out, Exc):
            return False
        N, m = skel["N"], skel["m"]
        b0 = [x[f"b{i}"].t for i in range(N)]
        if len(out["rows"]) != m:
            return False
        conj = [TI(a) == t for a, t in zip(out["seq"], b0)]
        for i in range(m):
            b = b0[::-1] if skel.get("chroms", [0] * m)[i] == 1 else b0
            s, e, neg = x[f"s{i}"].t, x[f"e{i}"].t, x[f"neg{i}"].t == 1
            row = out["rows"][i]
            L = len(row)
            conj.append(e - s == L)
            for j in range(L):
                fwd = z3.IntVal(-1); rev = z3.IntVal(-1)
                for p in range(N):
                    fwd = z3.If(s + j == p, b[p], fwd)
                    rev = z3.If(e - 1 - j == p, comp_term(skel["kind"], b[p]), rev)
                conj.append(TI(row[j]) == z3.If(neg, rev, fwd))
        return z_and(conj)

    def oracle(self, skel, cx, cout):
        if isinstance(cout, Exc):
            return f"raised {cout}"
        N, m = skel["N"], skel["m"]
        b = [cx[f"b{i}"] for i in range(N)]
        exp = []
        for i in range(m):
            src = b[::-1] if skel.get("chroms", [0] * m)[i] == 1 else b
            sub = src[cx[f"s{i}"]:cx[f"e{i}"]]
            exp.append([comp_py(skel["kind"], v) for v in reversed(sub)] if cx[f"neg{i}"] == 1 else sub)
        if cout["rows"] != exp:
            return (f"strand specific sequences of {b} under {[(cx[f's{i}'], cx[f'e{i}'], '+-'[cx[f'neg{i}']]) for i in range(m)]}"
                    f" = {cout['rows']}, expected {exp}")
        if cout["seq"] != b:
            return "sequence argument modified"
        return None


class TranslateH(Harness):
    name = "translate"
    functions = ("Translate.windowed/__call__", "DNAToProtein", "KmerEncoder", "translate_dna_to_protein")
    bounds = {"quick": "ascii DNA over {ACGTacgt} and ACGT-encoded: one sequence of 0-2 codons, ragged [3,0,6] and [6,3]; all 64 codons per position",
              "thorough": "adds 3 codons, ragged [3,3,3], [9,3]"}

    def skeletons(self, tier, seed):
        shapes = [[0], [3], [6], [3, 0, 6], [6, 3]]
        if tier == "thorough":
            shapes += [[9], [3, 3, 3], [9, 3]]
        # alphabet-encoded input is rejected loudly by the library (EncodingException: ACGT -> TCAG re-targeting);
        # the documented entry is base-encoded (ASCII) text
        return [dict(kind=k, lens=s) for k in ("ascii",) for s in shapes]

    def inputs(self, skel, V):
        n = sum(skel["lens"])
        for i in range(n):
            if skel["kind"] == "ascii":
                v = V.int(f"b{i}", 65, 116)
                V.assume(in_set(v.t, [ord(c) for c in "ACGTacgt"]))
            else:
                V.int(f"b{i}", 0, 3)

    def call(self, skel, x, ctx):
        from bionumpy.sequence.translate import Translate
        n = sum(skel["lens"])
        seq = make_seq(ctx, skel["kind"], [x[f"b{i}"] for i in range(n)], skel["lens"])
        prot = Translate().windowed(seq)
        return dict(prot=ctx.lst(prot), arg=ctx.lst(seq.ravel().raw()))

    def _letter(self, skel, t):
        """index 0..3 into 'ACGT' of symbol term t"""
        if skel["kind"] == "ascii":
            u = upper(t)
            return z3.If(u == 65, 0, z3.If(u == 67, 1, z3.If(u == 71, 2, 3)))
        return t

    def post(self, skel, x, out):
        if isinstance(out, Exc):
            return False
        n = sum(skel["lens"])
        b = [x[f"b{i}"].t for i in range(n)]
        if [len(r) for r in out["prot"]] != [L // 3 for L in skel["lens"]]:
            return False
        conj = [TI(a) == t for a, t in zip(out["arg"], b)]
        k = 0
        for r, L in enumerate(skel["lens"]):
            for c in range(L // 3):
                l0, l1, l2 = (self._letter(skel, b[k + 3 * c + i]) for i in range(3))
                idx = l0 * 16 + l1 * 4 + l2
                exp = z3.IntVal(-1)
                for i0, i1, i2 in itertools.product(range(4), repeat=3):
                    exp = z3.If(idx == i0 * 16 + i1 * 4 + i2, ord(CODON["ACGT"[i0] + "ACGT"[i1] + "ACGT"[i2]]), exp)
                conj.append(TI(out["prot"][r][c]) == exp)
            k += L
        return z_and(conj)

    def oracle(self, skel, cx, cout):
        if isinstance(cout, Exc):
            return f"raised {cout}"
        n = sum(skel["lens"])
        b = [cx[f"b{i}"] for i in range(n)]
        text = "".join(chr(v).upper() if skel["kind"] == "ascii" else "ACGT"[v] for v in b)
        exp, k = [], 0
        for L in skel["lens"]:
            exp.append([ord(CODON[text[k + 3 * c:k + 3 * c + 3]]) for c in range(L // 3)]); k += L
        if cout["prot"] != exp:
            return f"translate({text!r}, rows {skel['lens']}) = {[bytes(r).decode() for r in cout['prot']]}, expected {[bytes(r).decode() for r in exp]}"
        if cout["arg"] != b:
            return "argument modified"
        return None


HARNESSES = [RevComp(), Stranded(), TranslateH()]


def prelude(tier):
    """Spliced transcripts (sequence.genes.get_transcript_sequences): a transcript is its exons joined in genomic order, reverse-complemented
    as a whole on the '-' strand.  The function works on GTF entries (attribute text, group-by on transcript ids), which the symbolic
    harnesses do not reach: concrete probes on the real library over every assignment of 1-3 exons to 1-2 transcripts and strands on a
    10-base reference, reported as real-run probes."""
    import itertools
    import time
    from bionumpy.datatypes import GTFEntry
    from bionumpy.sequence.genes import get_transcript_sequences
    t0 = time.time()
    res = dict(obligations=0, discharged=0, queries=0, inconclusive=[], violations=[], samples=[])
    comp = {"A": "T", "C": "G", "G": "C", "T": "A"}
    reference = "AACCGGTTAC"
    exon_sets = [[(0, 3)], [(0, 3), (5, 7)], [(1, 2), (4, 6), (8, 10)], [(2, 6)], [(0, 1), (9, 10)]]
    n = 0
    for ea, eb in itertools.product(exon_sets, repeat=2):
        for sa, sb in itertools.product("+-", repeat=2):
            exons = [("t1", a, b, sa) for a, b in ea] + [("t2", a, b, sb) for a, b in eb]
            n += 1
            exp = []
            for name, strand, ex in (("t1", sa, ea), ("t2", sb, eb)):
                joined = "".join(reference[a:b] for a, b in ex)
                exp.append((name, joined if strand == "+" else "".join(comp[c] for c in reversed(joined))))
            try:
                entries = GTFEntry.from_entry_tuples([("chr1", "probe", "exon", a, b, ".", strand, ".",
                                                       f'gene_id "g_{name}"; transcript_id "{name}"; exon_number "{i}"; exon_id "{name}.{i}";')
                                                      for i, (name, a, b, strand) in enumerate(exons)])
                r = get_transcript_sequences(entries, reference)
                got = list(zip(r.name.tolist(), r.sequence.tolist()))
            except Exception as e:
                got = ("raised", type(e).__name__)
            if got != exp and len(res["violations"]) < 4:
                res["violations"].append(dict(obligation="transcript-probe", inputs=dict(reference=reference, exons=[list(t) for t in exons]), output=repr(got),
                                              why=f"[real run, concrete probe] get_transcript_sequences for exons {exons} on {reference!r} = {got}, expected {exp}"))
    res["solver_s"] = time.time() - t0
    res["summary"] = f"get_transcript_sequences probed on {n} exon layouts: {len(res['violations'])} deviations"
    return res
