"""C13 -- sliding-window sequence functions are row-local and match their definitions."""
import itertools
import time
import z3
from vlib.harness import Harness, Exc
from vlib.zutil import TI, TB, z_and, z_or

ALPH = {"ACGTEncoding": "ACGT", "ACGTnEncoding": "ACGTN", "AminoAcidEncoding": "ACDEFGHIKLMNPQRSTVWY*",
        "ACTGEncoding": "ACTG", "custom:ACG": "ACG", "custom:RY": "RY"}
_CUSTOM = {}


def enc_of(name):
    import bionumpy.encodings.alphabet_encoding as ae
    if name.startswith("custom:"):
        if name not in _CUSTOM:
            _CUSTOM[name] = ae.AlphabetEncoding(name.split(":")[1])
        return _CUSTOM[name]
    return getattr(ae, name)


def make_ragged(ctx, skel, x):
    """the sequences; with skel["view"] they are a row selection (not yet flattened) of a larger array with one extra first row"""
    from bionumpy.encoded_array import EncodedArray, EncodedRaggedArray
    n = sum(skel["lens"])
    vals = [x[f"l{i}"] for i in range(n)]
    if skel.get("view"):
        big = EncodedRaggedArray(EncodedArray(ctx.arr([0, 0, 0] + vals, "uint8"), enc_of(skel["enc"])), [3] + list(skel["lens"]))
        return big[1:]
    return EncodedRaggedArray(EncodedArray(ctx.arr(vals, "uint8"), enc_of(skel["enc"])), list(skel["lens"]))


def with_views(sk, every=3):
    """adds, for every `every`-th multi-row skeleton, the same skeleton presented as an un-flattened row selection"""
    extra = [dict(k, view=True) for i, k in enumerate([k for k in sk if len(k.get("lens", [])) > 1]) if i % every == 0]
    return sk + extra


def rows_terms(skel, vals):
    rows, k = [], 0
    for L in skel["lens"]:
        rows.append(vals[k:k + L]); k += L
    return rows


def shapes_for(w, tier):
    """row-length patterns around the window size w (empty rows, w-1, w, w+1, short last row)"""
    base = [[w], [w + 1], [w - 1] if w > 1 else [0], [w, 0, w + 1], [w + 1, w - 1 if w > 1 else 0], [w, w]]
    if w > 1:
        base.append([w + 1, 1])
    if tier == "thorough":
        base += [[w + 2], [w + 2, w], [0, w + 1, 0], [w - 1 if w > 1 else 0, w, w + 1], [w + 1, w + 1, 1]]
    out = []
    for s in base:
        if s not in out and sum(s) >= w:       # property precondition: total letters >= window
            out.append(s)
    return out


class Kmers(Harness):
    name = "get_kmers"
    functions = ("get_kmers", "_get_dna_kmers + convolution decorator", "KmerEncoder.__call__", "RollableFunction.rolling_window")
    stubs = ("BitArray.pack/sliding_window semantic model for the 4-letter packed path",)
    bounds = {"quick": "k in 1..3; alphabets ACGT (packed path), ACGTN and amino acids (generic path); rows with lengths "
                       "from {0, k-1, k, k+1} in 1-3 rows; every letter assignment",
              "thorough": "k in 1..5 plus k=31 on a single row of 32 (packed path); more row patterns"}

    def skeletons(self, tier, seed):
        ks = [1, 2, 3] if tier == "quick" else [1, 2, 3, 4, 5]
        out = []
        for enc in ("ACGTEncoding", "ACGTnEncoding", "AminoAcidEncoding"):
            for k in ks:
                if enc == "AminoAcidEncoding" and k > 3:
                    continue
                for lens in shapes_for(k, tier):
                    out.append(dict(enc=enc, k=k, lens=lens))
        if tier == "thorough":
            out.append(dict(enc="ACGTEncoding", k=31, lens=[32]))
            out.append(dict(enc="ACTGEncoding", k=16, lens=[17, 16]))
        return with_views(out)

    def inputs(self, skel, V):
        for i in range(sum(skel["lens"])):
            V.int(f"l{i}", 0, len(ALPH[skel["enc"]]) - 1)

    def call(self, skel, x, ctx):
        from bionumpy.sequence import get_kmers
        seq = make_ragged(ctx, skel, x)
        out = get_kmers(seq, skel["k"])
        return dict(rows=ctx.lst(out), enc=str(out.encoding), arg=ctx.lst(seq.ravel().raw()))

    def _expected(self, skel, rows):
        n, k = len(ALPH[skel["enc"]]), skel["k"]
        return [[sum(row[j + i] * n ** i for i in range(k)) for j in range(max(0, len(row) - k + 1))] for row in rows]

    def post(self, skel, x, out):
        if isinstance(out, Exc):
            return False
        vals = [x[f"l{i}"].t for i in range(sum(skel["lens"]))]
        exp = self._expected(skel, rows_terms(skel, vals))
        if [len(r) for r in out["rows"]] != [len(r) for r in exp]:
            return False
        conj = [TI(g) == e for gr, er in zip(out["rows"], exp) for g, e in zip(gr, er)]
        conj += [TI(a) == v for a, v in zip(out["arg"], vals)]
        return z_and(conj)

    def oracle(self, skel, cx, cout):
        if isinstance(cout, Exc):
            return f"raised {cout}"
        vals = [cx[f"l{i}"] for i in range(sum(skel["lens"]))]
        rows = rows_terms(skel, vals)
        exp = self._expected(skel, rows)
        text = ["".join(ALPH[skel["enc"]][v] for v in r) for r in rows]
        if cout["rows"] != exp:
            return f"get_kmers({text}, k={skel['k']}) = {cout['rows']}, expected {exp}"
        if cout["arg"] != vals:
            return "argument modified"
        return None


class MinimizersH(Harness):
    name = "get_minimizers"
    functions = ("get_minimizers", "Minimizers.__call__", "KmerEncoder.rolling_window")
    bounds = {"quick": "(k, window) in {(1,1),(1,2),(2,2),(2,3)}; ACGT and ACGTN; row patterns around the window",
              "thorough": "adds (2,4),(3,3),(3,4),(1,3)"}

    def skeletons(self, tier, seed):
        kw = [(1, 1), (1, 2), (2, 2), (2, 3)] + ([(2, 4), (3, 3), (3, 4), (1, 3)] if tier == "thorough" else [])
        out = []
        for enc in ("ACGTEncoding", "ACGTnEncoding"):
            for k, w in kw:
                for lens in shapes_for(w, tier)[:5 if tier == "quick" else 9]:
                    out.append(dict(enc=enc, k=k, w=w, lens=lens))
        return with_views(out)

    def inputs(self, skel, V):
        for i in range(sum(skel["lens"])):
            V.int(f"l{i}", 0, len(ALPH[skel["enc"]]) - 1)

    def call(self, skel, x, ctx):
        from bionumpy.sequence import get_minimizers
        seq = make_ragged(ctx, skel, x)
        out = get_minimizers(seq, skel["k"], skel["w"])
        return dict(rows=ctx.lst(out), arg=ctx.lst(seq.ravel().raw()))

    def post(self, skel, x, out):
        if isinstance(out, Exc):
            return False
        n, k, w = len(ALPH[skel["enc"]]), skel["k"], skel["w"]
        vals = [x[f"l{i}"].t for i in range(sum(skel["lens"]))]
        rows = rows_terms(skel, vals)
        if [len(r) for r in out["rows"]] != [max(0, len(r) - w + 1) for r in rows]:
            return False
        conj = [TI(a) == v for a, v in zip(out["arg"], vals)]
        for gr, row in zip(out["rows"], rows):
            for j, g in enumerate(gr):
                hs = [sum(row[j + a + i] * n ** i for i in range(k)) for a in range(w - k + 1)]
                conj.append(z3.And(*[TI(g) <= h for h in hs]))
                conj.append(z3.Or(*[TI(g) == h for h in hs]))
        return z_and(conj)

    def oracle(self, skel, cx, cout):
        if isinstance(cout, Exc):
            return f"raised {cout}"
        n, k, w = len(ALPH[skel["enc"]]), skel["k"], skel["w"]
        vals = [cx[f"l{i}"] for i in range(sum(skel["lens"]))]
        rows = rows_terms(skel, vals)
        exp = [[min(sum(row[j + a + i] * n ** i for i in range(k)) for a in range(w - k + 1))
                for j in range(max(0, len(row) - w + 1))] for row in rows]
        if cout["rows"] != exp:
            return f"get_minimizers({rows}, k={k}, window={w}) = {cout['rows']}, expected {exp}"
        return None if cout["arg"] == vals else "argument modified"


class Match(Harness):
    name = "match_string"
    functions = ("match_string", "StringMatcher.__call__", "RollableFunction.rolling_window")
    bounds = {"quick": "pattern length 1-3 (symbolic letters), text rows around the pattern length, ASCII bytes restricted to 4 letters and ACGT codes",
              "thorough": "more row patterns"}

    def skeletons(self, tier, seed):
        out = []
        for kind in ("ascii", "ACGTEncoding"):
            for w in (1, 2, 3):
                for lens in shapes_for(w, tier)[:5 if tier == "quick" else 9]:
                    out.append(dict(kind=kind, w=w, lens=lens))
        return with_views(out)

    def inputs(self, skel, V):
        lo, hi = (65, 68) if skel["kind"] == "ascii" else (0, 3)
        for i in range(sum(skel["lens"])):
            V.int(f"l{i}", lo, hi)
        for i in range(skel["w"]):
            V.int(f"p{i}", lo, hi)

    def call(self, skel, x, ctx):
        from bionumpy.sequence import match_string
        from bionumpy.encoded_array import EncodedArray, EncodedRaggedArray, BaseEncoding
        enc = BaseEncoding if skel["kind"] == "ascii" else enc_of(skel["kind"])
        n = sum(skel["lens"])
        seq = EncodedRaggedArray(EncodedArray(ctx.arr([x[f"l{i}"] for i in range(n)], "uint8"), enc), list(skel["lens"]))
        pat = EncodedArray(ctx.arr([x[f"p{i}"] for i in range(skel["w"])], "uint8"), enc)
        out = match_string(seq, pat)
        return dict(rows=ctx.lst(out), arg=ctx.lst(seq.ravel().raw()))

    def post(self, skel, x, out):
        if isinstance(out, Exc):
            return False
        w = skel["w"]
        vals = [x[f"l{i}"].t for i in range(sum(skel["lens"]))]
        pat = [x[f"p{i}"].t for i in range(w)]
        rows = rows_terms(skel, vals)
        if [len(r) for r in out["rows"]] != [max(0, len(r) - w + 1) for r in rows]:
            return False
        conj = [TI(a) == v for a, v in zip(out["arg"], vals)]
        for gr, row in zip(out["rows"], rows):
            for j, g in enumerate(gr):
                conj.append(TB(g) == z3.And(*[row[j + i] == pat[i] for i in range(w)]))
        return z_and(conj)

    def oracle(self, skel, cx, cout):
        if isinstance(cout, Exc):
            return f"raised {cout}"
        w = skel["w"]
        vals = [cx[f"l{i}"] for i in range(sum(skel["lens"]))]
        pat = [cx[f"p{i}"] for i in range(w)]
        rows = rows_terms(skel, vals)
        exp = [[row[j:j + w] == pat for j in range(max(0, len(row) - w + 1))] for row in rows]
        got = [[bool(v) for v in r] for r in cout["rows"]]
        if got != exp:
            return f"match_string({rows}, {pat}) = {got}, expected {exp}"
        return None if cout["arg"] == vals else "argument modified"


class CountKmers(Harness):
    name = "count_kmers"
    functions = ("count_kmers", "count_encoded", "get_kmers")
    bounds = {"quick": "k in 1..2, ACGT, rows [k+1, k-1|0, k]; counts per k-mer code over the whole collection, and per row (axis=-1) "
                       "with rows that hold no k-mer before, between and after other rows", "thorough": "k in 1..3, also ACGTN"}

    def skeletons(self, tier, seed):
        out = []
        for enc in (("ACGTEncoding",) if tier == "quick" else ("ACGTEncoding", "ACGTnEncoding")):
            for k in ((1, 2) if tier == "quick" else (1, 2, 3)):
                if enc == "ACGTnEncoding" and k == 3:
                    continue
                out.append(dict(enc=enc, k=k, lens=[k + 1, max(k - 1, 0), k], axis=None))
                out.append(dict(enc=enc, k=k, lens=[k + 1], axis=None))
                # per-row counts: rows without any k-mer (empty / shorter than k) before, between and after other rows
                for lens in ([k + 1, max(k - 1, 0), k], [k, 0, 0, k + 1], [0, k + 1, k - 1 if k > 1 else 0], [k + 1]):
                    out.append(dict(enc=enc, k=k, lens=lens, axis=-1))
                # history: k-mers of ANOTHER alphabet of the same size were counted and labelled earlier in the process
                out.append(dict(enc="ACTGEncoding", k=k, lens=[k + 1], axis=None, prior="ACGTEncoding"))
                out.append(dict(enc=enc, k=k, lens=[k + 1], axis=None, prior="ACTGEncoding"))
        return with_views(out)

    def inputs(self, skel, V):
        for i in range(sum(skel["lens"])):
            V.int(f"l{i}", 0, len(ALPH[skel["enc"]]) - 1)

    def call(self, skel, x, ctx):
        from bionumpy.sequence import count_kmers
        seq = make_ragged(ctx, skel, x)
        if skel.get("prior"):
            from bionumpy.encoded_array import as_encoded_array
            pc = count_kmers(as_encoded_array(["ACGT" * 2], enc_of(skel["prior"])), skel["k"])
            list(pc.alphabet)                       # labels of the other alphabet were produced first
        if skel.get("axis") is None:
            c = count_kmers(seq, skel["k"])
            if skel.get("prior"):
                return dict(counts=ctx.lst(c.counts), labels=[str(l) for l in c.alphabet])
            return dict(counts=ctx.lst(c.counts))
        c = count_kmers(seq, skel["k"], axis=-1)
        counts = c.counts
        assert tuple(counts.shape) == (len(skel["lens"]), len(ALPH[skel["enc"]]) ** skel["k"]), counts.shape
        return dict(rows=[ctx.lst(counts[i]) for i in range(len(skel["lens"]))])

    def _labels(self, skel):
        """label of code c: the letters of its little-endian base-n digits"""
        alpha, k = ALPH[skel["enc"]], skel["k"]
        return ["".join(alpha[(c // len(alpha) ** i) % len(alpha)] for i in range(k)) for c in range(len(alpha) ** k)]

    def post(self, skel, x, out):
        if isinstance(out, Exc):
            return False
        n, k = len(ALPH[skel["enc"]]), skel["k"]
        vals = [x[f"l{i}"].t for i in range(sum(skel["lens"]))]
        rows = rows_terms(skel, vals)
        if skel.get("axis") is not None:
            conj = []
            if len(out["rows"]) != len(rows):
                return False
            for row, got in zip(rows, out["rows"]):
                codes = [sum(row[j + i] * n ** i for i in range(k)) for j in range(max(0, len(row) - k + 1))]
                if len(got) != n ** k:
                    return False
                conj += [TI(got[c]) == sum([z3.If(h == c, 1, 0) for h in codes], z3.IntVal(0)) for c in range(n ** k)]
            return z_and(conj)
        codes = [sum(row[j + i] * n ** i for i in range(k)) for row in rows for j in range(max(0, len(row) - k + 1))]
        if len(out["counts"]) != n ** k:
            return False
        if "labels" in out and out["labels"] != self._labels(skel):
            return False
        return z_and([TI(out["counts"][c]) == sum([z3.If(h == c, 1, 0) for h in codes], z3.IntVal(0)) for c in range(n ** k)])

    def oracle(self, skel, cx, cout):
        if isinstance(cout, Exc):
            return f"raised {cout}"
        n, k = len(ALPH[skel["enc"]]), skel["k"]
        rows = rows_terms(skel, [cx[f"l{i}"] for i in range(sum(skel["lens"]))])
        if skel.get("axis") is not None:
            exp = []
            for row in rows:
                codes = [sum(row[j + i] * n ** i for i in range(k)) for j in range(max(0, len(row) - k + 1))]
                exp.append([codes.count(c) for c in range(n ** k)])
            return None if cout["rows"] == exp else f"count_kmers({rows}, k={k}, axis=-1) = {cout['rows']}, expected per row {exp}"
        codes = [sum(row[j + i] * n ** i for i in range(k)) for row in rows for j in range(max(0, len(row) - k + 1))]
        exp = [codes.count(c) for c in range(n ** k)]
        if "labels" in cout and cout["labels"] != self._labels(skel):
            return (f"count_kmers over {ALPH[skel['enc']]} (k={k}) after k-mers over {ALPH[skel['prior']]} were counted: labels {cout['labels'][:8]}..., "
                    f"expected {self._labels(skel)[:8]}...")
        return None if cout["counts"] == exp else f"count_kmers({rows}, k={k}) = {cout['counts']}, expected {exp}"


class KmerText(Harness):
    name = "kmer_to_string"
    functions = ("KmerEncoding.to_string", "KmerEncoding.encode")
    bounds = {"quick": "every k-mer code for k in 1..3 over ACGT (shift path), k in 1..2 over ACGTN (generic path), k in 1..3 over the "
                       "3- and 2-letter alphabets ACG and RY",
              "thorough": "k up to 4 (ACGT), 3 (ACGTN), 2 (amino acids)"}

    def skeletons(self, tier, seed):
        small = [dict(enc=e, k=k) for e in ("custom:ACG", "custom:RY") for k in (1, 2, 3)]     # alphabets of fewer than 4 letters
        if tier == "quick":
            return [dict(enc="ACGTEncoding", k=k) for k in (1, 2, 3)] + [dict(enc="ACGTnEncoding", k=k) for k in (1, 2)] + small
        return small + [dict(enc="ACGTEncoding", k=k) for k in (1, 2, 3, 4)] + [dict(enc="ACGTnEncoding", k=k) for k in (1, 2, 3)] + \
               [dict(enc="AminoAcidEncoding", k=k) for k in (1, 2)]

    def inputs(self, skel, V):
        V.int("code", 0, len(ALPH[skel["enc"]]) ** skel["k"] - 1)

    def call(self, skel, x, ctx):
        from bionumpy.encodings.kmer_encodings import KmerEncoding
        ke = KmerEncoding(enc_of(skel["enc"]), skel["k"])
        code = x["code"]
        text = ke.to_string(ctx.arr([code], "int64")[0] if ctx.mode == "plain" else code)
        back = ke.encode(text)
        return dict(text=[ord(c) for c in text], back=ctx.lst(back.raw()))

    def post(self, skel, x, out):
        if isinstance(out, Exc):
            return False
        alpha, k = ALPH[skel["enc"]], skel["k"]
        if len(out["text"]) != k or any(chr(c) not in alpha for c in out["text"]):
            return False
        val = sum(alpha.index(chr(c)) * len(alpha) ** i for i, c in enumerate(out["text"]))
        return z3.And(x["code"].t == val, TI(out["back"]) == x["code"].t)

    def oracle(self, skel, cx, cout):
        if isinstance(cout, Exc):
            return f"raised {cout}"
        alpha, k, code = ALPH[skel["enc"]], skel["k"], cx["code"]
        exp = "".join(alpha[(code // len(alpha) ** i) % len(alpha)] for i in range(k))
        got = "".join(chr(c) for c in cout["text"])
        if got != exp or cout["back"] != code:
            return f"KmerEncoding({skel['enc']},{k}).to_string({code}) = {got!r} (encode back: {cout['back']}), expected {exp!r}"
        return None


class MotifScores(Harness):
    """get_motif_scores: one score per window lying inside its sequence, the sum of the matrix entries of the window's letters"""
    name = "motif_scores"
    functions = ("get_motif_scores", "PWM.calculate_scores/as_valid_encoded_array", "PWM.calculate_score (PositionWeightMatrix rolling window)")
    bounds = {"quick": "window sizes 1-3 (and 4, the square matrix, on two row patterns) over ACGT, matrix entries (letter+1)*10^position (so that every letter/position pair is told apart); "
                       "rows with lengths from {0, w-1, w, w+1} in 1-3 rows; every letter assignment",
              "thorough": "window sizes 1-4, more row patterns"}
    assumptions = ("matrix entries are small integers held as doubles: all sums are exact, no rounding is involved",)

    def skeletons(self, tier, seed):
        out = []
        for w in ((1, 2, 3) if tier == "quick" else (1, 2, 3, 4)):
            for lens in shapes_for(w, tier):
                out.append(dict(enc="ACGTEncoding", w=w, lens=lens, api="get_motif_scores"))
            out.append(dict(enc="ACGTEncoding", w=w, lens=[w + 1, w], api="rolling_window"))
        if tier == "quick":      # a motif as long as the alphabet is large (a SQUARE matrix: rows and columns cannot be told apart by shape)
            out += [dict(enc="ACGTEncoding", w=4, lens=[4], api="get_motif_scores"), dict(enc="ACGTEncoding", w=4, lens=[5, 3], api="get_motif_scores")]
        return with_views(out)

    def inputs(self, skel, V):
        for i in range(sum(skel["lens"])):
            V.int(f"l{i}", 0, 3)

    def _matrix(self, w):
        return [[(a + 1) * 10 ** k for k in range(w)] for a in range(4)]

    def call(self, skel, x, ctx):
        import numpy
        from bionumpy.sequence.position_weight_matrix import PWM, get_motif_scores, get_motif_scores_old
        pwm = PWM(ctx.np.array(numpy.array(self._matrix(skel["w"]), dtype=float)) if ctx.mode != "plain" else numpy.array(self._matrix(skel["w"]), dtype=float), "ACGT")
        seq = make_ragged(ctx, skel, x)
        fn = get_motif_scores if skel["api"] == "get_motif_scores" else get_motif_scores_old
        res = fn(seq, pwm)
        return dict(rows=ctx.lst(res))

    def _expected(self, skel, vals, z):
        M, w = self._matrix(skel["w"]), skel["w"]
        rows = rows_terms(skel, vals)
        out = []
        for row in rows:
            sc = []
            for j in range(max(0, len(row) - w + 1)):
                tot = 0
                for k in range(w):
                    c = row[j + k]
                    if z:
                        t = z3.IntVal(M[3][k])
                        for a in (2, 1, 0):
                            t = z3.If(c == a, M[a][k], t)
                    else:
                        t = M[c][k]
                    tot = tot + t
                sc.append(tot)
            out.append(sc)
        return out

    def post(self, skel, x, out):
        if isinstance(out, Exc):
            return False
        from symnp.core import T
        exp = self._expected(skel, [x[f"l{i}"].t for i in range(sum(skel["lens"]))], True)
        if len(out["rows"]) != len(exp):
            return False
        conj = []
        for got, e in zip(out["rows"], exp):
            if len(got) != len(e):
                return False
            for g, t in zip(got, e):
                gt = T(g)
                conj.append((gt if z3.is_real(gt) else z3.ToReal(gt)) == z3.ToReal(t))
        return z_and(conj)

    def oracle(self, skel, cx, cout):
        if isinstance(cout, Exc):
            return f"raised {cout}"
        vals = [cx[f"l{i}"] for i in range(sum(skel["lens"]))]
        exp = self._expected(skel, vals, False)
        got = [[float(v) for v in r] for r in cout["rows"]]
        if got != [[float(v) for v in r] for r in exp]:
            return f"{skel['api']}(rows {rows_terms(skel, vals)}, window {skel['w']}, matrix[letter][pos]=(letter+1)*10^pos) = {got}, expected {exp}"
        return None


def prelude(tier):
    """differential validation of the BitArray semantic model against the real npstructures routine"""
    import numpy as np
    from npstructures.bitarray import BitArray
    t0 = time.time()
    rng = np.random.default_rng(12345)
    bad, n = [], 0
    for L in list(range(1, 40)) + [64, 65, 100]:
        for k in (1, 2, 3, 5, 16, 31):
            if k > L:
                continue
            a = rng.integers(0, 4, size=L).astype(np.uint8)
            real = BitArray.pack(a, 2).sliding_window(k)
            model = np.array([sum(int(a[j + i]) << (2 * i) for i in range(k)) for j in range(L - k + 1)], dtype=np.uint64)
            n += 1
            if real.shape != model.shape or not np.array_equal(real, model):
                bad.append(f"BitArray model differs for L={L} k={k}")
    res = dict(obligations=0, discharged=0, queries=0, solver_s=time.time() - t0, inconclusive=bad, violations=[],
               summary=f"BitArray.pack/sliding_window semantic model compared with the real routine on {n} concrete arrays: {len(bad)} differences")
    _motif_probe(res)
    _long_pattern_probe(res)
    return res


def _long_pattern_probe(res):
    """match_string with patterns of 8 to 17 letters (beyond the window lengths the symbolic harness explores): windows that agree with
    the pattern on a prefix of every length and differ in exactly one later letter must not match.  Concrete probes on the real library."""
    import bionumpy as bnp
    from bionumpy.sequence.string_matcher import match_string
    n = 0
    base = "ACGTTGCAGATTACACG"
    for L in (8, 9, 10, 12, 16, 17):
        pat = base[:L]
        for kind, enc in (("ascii", None), ("dna", bnp.DNAEncoding)):
            rows = [pat, "G" + pat + "C"] + [pat[:d] + ("A" if pat[d] != "A" else "C") + pat[d + 1:] + "T" for d in range(L)]
            exp = [[r[i:i + L] == pat for i in range(len(r) - L + 1)] for r in rows]
            n += 1
            try:
                seq = bnp.as_encoded_array(rows, enc) if enc else bnp.as_encoded_array(rows)
                got = [[bool(v) for v in row] for row in match_string(seq, pat).tolist()]
            except Exception as e:
                got = ("raised", type(e).__name__)
            if got != exp and len(res["violations"]) < 5:
                bad = next((i for i, (g_, e_) in enumerate(zip(got, exp)) if g_ != e_), None) if isinstance(got, list) else None
                res["violations"].append(dict(obligation="long-pattern-probe", inputs=dict(pattern=pat, rows=rows, encoding=kind), output=repr(got)[:300],
                                              why=f"[real run, concrete probe] match_string(rows, {pat!r}) ({kind}): row {bad} {rows[bad] if bad is not None else ''} "
                                                  f"gives {got[bad] if bad is not None else got}, expected {exp[bad] if bad is not None else exp}"))
    res["summary"] += f"; match_string probed with {n} long patterns"


def _motif_probe(res):
    """get_motif_scores with matrices that hold -inf entries (log-odds of a forbidden letter), for motifs shorter and LONGER than the alphabet:
    infinite weights are outside the exact-real model of the motif_scores harness, so these are concrete probes on the real library (every
    window's score is the sum of its letters' entries; -inf only where the forbidden letter stands at that position)."""
    import numpy as np
    import bionumpy as bnp
    from bionumpy.sequence.position_weight_matrix import PWM, get_motif_scores
    seqs = ["ACGTACGT", "CCCCCCC", "GATTACAGATT", "TTTTTTGC", "ACGTAC"]
    n = 0
    for w in (1, 2, 3, 4, 5, 6):
        M = np.array([[(a + 1) * 10.0 ** (k % 3) + k for k in range(w)] for a in range(4)])
        M[1][w - 1] = -np.inf          # C is forbidden at the last position
        if w > 2:
            M[2][0] = -np.inf          # G is forbidden at the first position
        rows = [s_ for s_ in seqs if len(s_) >= w]
        n += 1
        try:
            got = get_motif_scores(bnp.as_encoded_array(rows, bnp.DNAEncoding), PWM(M.copy(), "ACGT")).tolist()
            exp = [[float(sum(M["ACGT".index(s_[j + k])][k] for k in range(w))) for j in range(len(s_) - w + 1)] for s_ in rows]
            ok = len(got) == len(exp) and all(len(g) == len(e) and all((a_ == b_) or (abs(a_ - b_) < 1e-9) for a_, b_ in zip(g, e)) for g, e in zip(got, exp))
            outcome = None if ok else f"scores {got}, expected {exp}"
        except Exception as e:
            outcome = f"raised {type(e).__name__}: {str(e)[:100]}"
        if outcome is not None:
            res["violations"].append(dict(obligation="motif-probe", inputs=dict(window=w, rows=rows), output=outcome[:600],
                                          why=f"[real run, concrete probe] get_motif_scores with a motif of length {w} whose matrix has -inf entries on rows {rows}: {outcome}"[:1000]))
    res["summary"] += f"; get_motif_scores probed with -inf weights for {n} motif lengths"


HARNESSES = [Kmers(), MinimizersH(), Match(), CountKmers(), KmerText(), MotifScores()]
