"""C05 -- lazy and eager reading are observationally equivalent."""
import itertools
import os
import z3
from vlib.harness import Harness, Exc
from vlib.zutil import TI, TB, z_and, z_or
from checks import textfmt as F
from checks.C04 import is_seq

FILES = {
    "bed3": dict(fmt="bed3", rows=[[1, 2, 1], [2, 1, 2], [1, 1, 1], [3, 1, 1]]),
    "bed6": dict(fmt="bed6", rows=[[1, 1, 2, 1, 1, 1], [2, 2, 1, 2, 2, 1], [1, 1, 1, 1, 1, 1]]),
    "fastq": dict(fmt="fastq", records=[[1, 2], [2, 1], [1, 3]]),
    "fasta2": dict(fmt="fasta2", records=[[1, 2], [2, 1], [1, 3]]),
}
INTCOL = {"vcf": ["position"], "bed3": ["start", "stop"], "bed6": ["start", "stop"], "fastq": [], "fasta2": [], "sam": ["position", "mapq"], "bed12": ["start", "stop"]}

# operation sequences; observations are taken where marked
PROGRAMS = {
    "fields": [("obs",)],
    "len_fields_write": [("len",), ("obs",), ("write",)],
    "slice_fields": [("slice", 1, None, None), ("obs",), ("write",)],
    "step_rev": [("slice", None, None, 2), ("slice", None, None, -1), ("obs",)],
    "mask_fields": [("mask",), ("obs",), ("write",)],
    "ilist_fields": [("ilist", 2), ("obs",), ("write",)],
    "single": [("single", 1), ("obs_entry",)],
    "get_then_slice": [("get", 0), ("slice", 1, None, None), ("obs",)],
    "slice_write_parent": [("slice", 1, None, None), ("write",), ("parent",), ("obs",), ("write",)],       # aliasing of parent offsets
    "step_write_parent_get": [("slice", None, None, 2), ("write",), ("parent",), ("get", 1), ("obs",)],
    "replace_fields": [("replace", 0), ("obs",), ("write",)],
    "replace_slice_replace": [("replace", 0), ("slice", 1, None, None), ("replace", 1), ("obs",), ("write",)],
    "replace_twice": [("replace", 0), ("slice", None, None, -1), ("replace", 1), ("replace", 0), ("obs",), ("write",)],  # same field twice
    "get_replace_get": [("get", 0), ("replace", 0), ("get", 0), ("obs",)],
    "concat_slices": [("concat", (1, None, None), (None, 2, None)), ("obs",), ("write",)],
    "get_concat": [("get", 0), ("concat", (None, None, 2), (1, None, None)), ("obs",)],
    "replace_concat": [("replace", 0), ("concat", (1, None, None), (None, 1, None)), ("obs",), ("write",)],
    "mask_replace_write": [("mask",), ("replace", 1), ("write",), ("obs",)],
}


def observe_table(ctx, skel, t):
    out = {}
    if is_seq(skel):
        out["name"] = ctx.lst(t.name.raw())
        out["sequence"] = ctx.lst(t.sequence)
        if skel["fmt"] == "fastq":
            out["quality"] = ctx.lst(t.quality)
        return out
    for nm, kind in F.FORMATS[skel["fmt"]]["cols"]:
        v = getattr(t, nm)
        out[nm] = ctx.lst(v.raw()) if kind in ("id", "strand") else ctx.lst(v)
    return out


class LockStep(Harness):
    name = "lazy_vs_eager"
    functions = ("NpDataclassReader.read/_should_be_lazy", "create_lazy_class: __getattr__/__getitem__/__replace__/__array_function__/"
                 "get_data_object/get_buffer", "ItemGetter", "DelimitedBuffer/OneLineBuffer get_data and field getters",
                 "bnpdataclass replace / np.concatenate on eager tables", "NpBufferedWriter.write")
    bounds = {"quick": "BED3 (4 records), BED6, FASTQ, two-line FASTA (3 records) with symbolic bytes; 18 operation sequences of up to 6 steps over "
                       "{len, field access, slices, symbolic mask, symbolic integer list, single index, concatenate, replace (symbolic values), "
                       "write, return to the parent table}; the lazy and the eagerly parsed table run in lock step from the same bytes",
              "thorough": "adds chunked reading (2 chunks) and CRLF variants"}

    def skeletons(self, tier, seed):
        out = []
        for name, f in FILES.items():
            for p, prog in PROGRAMS.items():
                if any(op[0] == "replace" for op in prog) and not INTCOL[name]:
                    continue
                if tier == "quick" and name in ("bed6", "fasta2") and p not in ("fields", "slice_write_parent", "mask_fields", "concat_slices",
                                                                               "replace_twice", "single"):
                    continue
                out.append(dict(f, file=name, prog=p))
                if tier == "thorough" and name in ("bed3", "fastq") and not any(op[0] == "write" for op in prog):
                    # (lazy writes keep the source line ends, eager writes are canonical: written bytes are compared for canonical sources only)
                    out.append(dict(f, file=name, prog=p, crlf=True))
        return out

    def inputs(self, skel, V):
        n = len(skel.get("records", skel.get("rows")))
        if is_seq(skel):
            F.declare_seq(V, skel)
        else:
            F.declare_cells(V, skel)
            # canonical source text: multi-digit integers have no leading zero (lazy writes keep the source text, eager
            # writes are canonical, so "equal written bytes" is only meaningful for canonical sources)
            for r, widths in enumerate(skel["rows"]):
                for c, (nm, kind) in enumerate(F.FORMATS[skel["fmt"]]["cols"]):
                    if kind in ("int", "oint") and widths[c] > 1:
                        V.assume(V.vars[f"c{r}_{c}_0"].t != 48)
        for i in range(2 * n):
            V.int(f"m{i}", 0, 1)
        for j in range(2):
            V.int(f"i{j}", 0, n - 1)
        for k in range(3):
            for j in range(2 * n):
                V.int(f"new{k}_{j}", 0, 12)

    def _run(self, skel, x, ctx, lazy):
        from bionumpy.io.parser import NumpyFileReader, NpBufferedWriter
        from bionumpy.io.npdataclassreader import NpDataclassReader
        from bionumpy.bnpdataclass import replace
        B = F.get_seq_buffer(skel["fmt"]) if is_seq(skel) else F.get_buffer(skel["fmt"])
        content = F.seq_content(skel, x) if is_seq(skel) else F.content(skel, x)
        parent = NpDataclassReader(NumpyFileReader(ctx.file(content), B), lazy=lazy).read()
        t = parent
        obs = []
        nrep = 0
        fields = [nm for nm, _ in F.FORMATS[skel["fmt"]]["cols"]] if not is_seq(skel) else ["name", "sequence"]
        for op in PROGRAMS[skel["prog"]]:
            try:
                if op[0] == "obs":
                    obs.append(("obs", observe_table(ctx, skel, t)))
                elif op[0] == "obs_entry":
                    obs.append(("entry", {f: ctx.lst(getattr(t, f)) if not hasattr(getattr(t, f), "raw") else ctx.lst(getattr(t, f).raw())
                                          for f in fields}))
                elif op[0] == "len":
                    obs.append(("len", len(t)))
                elif op[0] == "get":
                    v = getattr(t, fields[op[1]])
                    obs.append(("get", ctx.lst(v.raw()) if hasattr(v, "raw") else ctx.lst(v)))
                elif op[0] == "slice":
                    t = t[slice(op[1], op[2], op[3])]
                elif op[0] == "mask":
                    bits = [x[f"m{i}"] for i in range(len(t))]
                    t = t[ctx.arr(bits, "int64") == 1]
                    obs.append(("maskbits", [bool(b == 1) for b in bits]))
                elif op[0] == "ilist":
                    idx = [x[f"i{j}"] for j in range(op[1])]
                    ok = all(bool(v < len(t)) for v in idx)
                    if not ok:
                        obs.append(("skip", "index out of range for this table")); break
                    t = t[ctx.arr(idx, "int64")]
                elif op[0] == "single":
                    t = t[op[1]]
                elif op[0] == "parent":
                    t = parent
                elif op[0] == "replace":
                    col = INTCOL[skel["file"]][op[1]]
                    t = replace(t, **{col: ctx.arr([x[f"new{nrep}_{j}"] for j in range(len(t))], "int64")})
                    nrep += 1
                elif op[0] == "concat":
                    t = ctx.np.concatenate([t[slice(*op[1])], t[slice(*op[2])]])
                elif op[0] == "write":
                    f = ctx.wfile()
                    NpBufferedWriter(f, B).write(t)
                    obs.append(("written", ctx.file_bytes(f)))
            except Exception as e:
                obs.append(("raised", type(e).__name__))
                break
        return obs

    def call(self, skel, x, ctx):
        return dict(lazy=self._run(skel, x, ctx, True), eager=self._run(skel, x, ctx, False))

    def _cmp(self, a, b, conj):
        """structural comparison of two observation values; appends z3 equalities; False on structural mismatch"""
        if isinstance(a, (list, tuple)) and isinstance(b, (list, tuple)):
            from vlib.harness import SStr
            if isinstance(a, SStr) or isinstance(b, SStr):
                m = min(len(a), len(b))
                conj.extend(TI(t) == 0 for t in list(a[m:]) + list(b[m:]))
                a, b = a[:m], b[:m]
            if len(a) != len(b):
                return False
            return all(self._cmp(u, v, conj) for u, v in zip(a, b))
        if isinstance(a, dict) and isinstance(b, dict):
            return a.keys() == b.keys() and all(self._cmp(a[k], b[k], conj) for k in a)
        if isinstance(a, str) or isinstance(b, str) or a is None or b is None:
            return a == b
        if isinstance(a, (list, tuple, dict)) or isinstance(b, (list, tuple, dict)):
            return False
        from symnp.core import T
        ta, tb = T(a), T(b)
        if z3.is_bool(ta) != z3.is_bool(tb):
            ta, tb = TI(a), TI(b)
        conj.append(ta == tb)
        return True

    def post(self, skel, x, out):
        if isinstance(out, Exc):
            return False
        # the strand column's shape is a separate obligation (known finding: (n,1) lazily, (n,) eagerly)
        flat = lambda o: [(k, ({f: ([u for w in v for u in (w if isinstance(w, list) else [w])] if f == "strand" else v)
                                for f, v in d.items()} if isinstance(d, dict) else d)) for k, d in o]
        shape = lambda o: [[isinstance(w, list) for w in d["strand"]] for k, d in o if isinstance(d, dict) and "strand" in d]
        conj = []
        values = z_and(conj) if self._cmp(flat(out["lazy"]), flat(out["eager"]), conj) else False
        if isinstance(values, bool) is False:
            values = z_and(conj)
        return [("values", values), ("strand_shape", shape(out["lazy"]) == shape(out["eager"]))]

    @staticmethod
    def _flat_strand(obs):
        """observations with the strand column flattened (its shape is the separate obligation strand_shape)"""
        fl = lambda d: {f: ([u for w in v for u in (w if isinstance(w, list) else [w])] if f == "strand" else v) for f, v in d.items()}
        return [tuple(fl(e) if isinstance(e, dict) else e for e in o) if isinstance(o, (list, tuple)) else o for o in obs]

    def _describe(self, skel):
        return f"program {skel['prog']} = {PROGRAMS[skel['prog']]}"

    def oracle_ob(self, obligation, skel, cx, cout):
        if isinstance(cout, Exc):
            return f"raised {cout}"
        lazy, eager = cout["lazy"], cout["eager"]
        if obligation == "values":
            lazy, eager = self._flat_strand(lazy), self._flat_strand(eager)
        elif obligation == "strand_shape" and self._flat_strand(lazy) != self._flat_strand(eager):
            return None          # a difference in values is the other obligation's business
        if lazy != eager:
            text = bytes(F.seq_content(skel, cx) if is_seq(skel) else F.content(skel, cx))
            k = next((i for i, (a, b) in enumerate(zip(lazy, eager)) if a != b), min(len(lazy), len(eager)))
            la = lazy[k] if k < len(lazy) else None
            ea = eager[k] if k < len(eager) else None
            return f"file {text!r}, {self._describe(skel)}: observation {k} differs: lazy {la!r} vs eager {ea!r}"
        return None

    def oracle(self, skel, cx, cout):
        return self.oracle_ob("values", skel, cx, cout) or self.oracle_ob("strand_shape", skel, cx, cout)


# ---------------------------------------------------------------------------------------------------------------------
# generated operation sequences over two registers
SLICES = [(1, None, None), (None, 2, None), (None, None, 2), (None, None, -1)]
OPS_DELIM = [("len",), ("get", 0), ("get", 1), ("get", 2), ("slice", 0), ("slice", 1), ("slice", 2), ("slice", 3), ("mask",), ("ilist",),
             ("single",), ("swap",), ("concat",), ("replace", 0), ("replace", 1), ("tolist",), ("write",)]
OPS_SEQ = [op for op in OPS_DELIM if op[0] != "replace"]
SEQ_FILES = {
    "bed3": dict(fmt="bed3", rows=[[1, 2, 1], [2, 1, 2], [1, 1, 1]]),
    "bed6": dict(fmt="bed6", rows=[[1, 1, 2, 1, 1, 1], [2, 2, 1, 2, 2, 1], [1, 1, 1, 1, 1, 1]]),
    "fastq": dict(fmt="fastq", records=[[1, 2], [2, 1], [1, 3]]),
    "fasta2": dict(fmt="fasta2", records=[[1, 2], [2, 1], [1, 3]]),
    # SAM without header lines (a header travels with lazily read tables only: see the sam_hdr skeletons and the known finding)
    "sam": dict(fmt="sam", rows=[[1, 1, 1, 2, 1, 2, 1, 1, 1, 2, 2], [2, 1, 1, 1, 1, 1, 1, 1, 1, 1, 1, 3], [1, 2, 1, 1, 1, 1, 1, 1, 1, 1, 1, 1, 2]]),
}
_L = lambda *w: dict(widths=list(w), trailing=False)
BED12 = dict(fmt="bed12", rows=[[1, 1, 2, 1, 1, 1, 1, 2, 1, 1, 3, 3], [2, 1, 2, 1, 1, 1, 1, 2, 1, 1, 1, 1], [1, 2, 2, 1, 1, 1, 1, 2, 1, 1, 4, 3]],
             lists={"0_10": _L(1, 1), "0_11": _L(1, 1), "1_10": _L(1), "1_11": _L(1), "2_10": _L(2, 1), "2_11": _L(1, 1)})
OPS_BED12 = [("len",), ("get", 1), ("get", 10), ("get", 11), ("slice", 0), ("slice", 2), ("mask",), ("ilist",), ("swap",), ("concat",), ("replace", 0),
             ("replace", 1), ("write",)]
DIRECTED_BED12 = [[("get", 10), ("replace", 0), ("get", 10)], [("get", 10), ("replace", 0), ("write",)], [("get", 11), ("slice", 0), ("get", 11), ("write",)],
                  [("slice", 0), ("get", 10), ("swap",), ("get", 10)], [("get", 10), ("get", 10), ("replace", 1), ("get", 11)]]
# SAM: the optional-tags column ('extra', the rest of the line) across re-layouts of the buffer (a write) and replace() copies
DIRECTED_SAM = [[("perm",), ("getrest",), ("write",), ("replace", 0), ("getrest",)], [("slice", 0), ("getrest",), ("write",), ("replace", 0), ("write",)],
                [("mask",), ("getrest",), ("write",), ("replace", 1), ("getrest",)], [("perm",), ("write",), ("getrest",), ("replace", 0), ("getrest",), ("write",)],
                [("getrest",), ("perm",), ("getrest",)]]
# an EMPTY Python list as the index (a table without rows), then the usual observations
DIRECTED_EMPTY = [[("emptylist",), ("len",)], [("emptylist",), ("get", 1), ("write",)], [("slice", 0), ("emptylist",), ("concat",)],
                  [("get", 0), ("emptylist",), ("get", 0)]]
# attribute assignment in place (t.start = values) between other observations of the same object: what was handed out before the
# assignment (the table as one object, its list of entries) must not be served again afterwards
DIRECTED_ASSIGN = [[("tolist",), ("assign", 0), ("tolist",)], [("get", 1), ("assign", 1), ("tolist",)], [("tolist",), ("assign", 0), ("write",)],
                   [("assign", 0), ("slice", 0), ("write",)], [("assign", 1), ("mask",), ("get", 2), ("write",)], [("assign", 0), ("get", 1), ("assign", 0), ("tolist",)]]
SAM_HDR = dict(fmt="sam", rows=[[1, 1, 1, 2, 1, 2, 1, 1, 1, 2, 2], [2, 1, 1, 1, 1, 1, 1, 1, 1, 1, 1, 3]], header=["@HD\tVN:1.0"])


def gen_programs(ops, max_len, sample, seed, full_len):
    """all op sequences up to full_len, plus `sample` pseudo-random sequences of each length full_len+1..max_len"""
    import random
    out = [[]]
    for L in range(1, full_len + 1):
        out += [list(p) for p in itertools.product(ops, repeat=L)]
    rnd = random.Random(1000 + seed)
    for L in range(full_len + 1, max_len + 1):
        seen = set()
        while len(seen) < sample:
            seen.add(tuple(rnd.choice(ops) for _ in range(L)))
        out += [list(p) for p in sorted(seen)]
    # drop sequences that are trivially redundant: swap twice in a row, or nothing observable before a trailing swap
    keep = []
    for p in out:
        if any(p[i][0] == "swap" and p[i + 1][0] == "swap" for i in range(len(p) - 1)):
            continue
        if p and p[-1][0] == "swap":
            continue
        if sum(o[0] == "concat" for o in p) >= 2 and sum(o[0] == "replace" for o in p) >= 2:
            continue          # 12 rows with several symbolic columns: beyond the per-skeleton budget
        keep.append(p)
    return keep


# directed sequences: the two registers get different histories before they are concatenated
DIRECTED = [
    [("swap",), ("replace", 0), ("swap",), ("concat",)],                 # field replaced on the second operand only
    [("replace", 0), ("swap",), ("replace", 1), ("concat",)],            # different fields replaced on the operands
    [("replace", 0), ("swap",), ("replace", 0), ("swap",), ("concat",)],  # same field replaced on both
    [("get", 1), ("concat",)], [("swap",), ("get", 1), ("swap",), ("concat",)], [("get", 0), ("swap",), ("get", 2), ("concat",)],
    [("slice", 0), ("get", 1), ("swap",), ("slice", 1), ("concat",), ("get", 1)],
    [("concat",), ("swap",), ("concat",)], [("concat",), ("concat",), ("get", 2)],
    [("slice", 0), ("swap",), ("mask",), ("concat",), ("replace", 0)],
    [("write",), ("get", 1), ("slice", 3), ("write",), ("get", 0)],
    [("ilist",), ("get", 2), ("write",), ("get", 0)],
    [("replace", 1), ("slice", 2), ("swap",), ("concat",), ("slice", 3)],
]


class _ConcreteText:
    """view of the inputs in which every cell that is not part of an integer column is a fixed letter"""
    def __init__(self, skel, x):
        self.x = x
        self.int_cols = None
        if not is_seq(skel):
            self.int_cols = {c for c, (nm, kind) in enumerate(F.FORMATS[skel["fmt"]]["cols"]) if kind in ("int", "oint")}
            self.kinds = [kind for nm, kind in F.FORMATS[skel["fmt"]]["cols"]]

    def __getitem__(self, k):
        if k[0] == "c" and self.int_cols is not None and "_" in k:
            parts = k[1:].split("_")
            if len(parts) == 3 and all(p.isdigit() for p in parts) and int(parts[1]) not in self.int_cols:
                if int(parts[1]) < len(self.kinds) and self.kinds[int(parts[1])] == "strand":
                    return (43, 45, 46)[int(parts[0]) % 3]
                return 97 + (int(parts[0]) + int(parts[2])) % 3
            return self.x[k]
        if self.int_cols is None and k[:2] in ("qn", "qs", "qq"):
            return 65
        return self.x[k]


class OpSequences(LockStep):
    """every sequence of public operations up to a length bound, on two registers t and u (both start as the table read from the file):
    ops act on t; swap exchanges t and u; concat sets t = concatenate([t, u]); every program ends with 'observe all fields of t, write t'"""
    name = "op_sequences"
    bounds = {"quick": "BED3/BED6/FASTQ/two-line FASTA, 3 records with symbolic bytes; ALL sequences of length <= 2 over 17 operations "
                       "{len, get field 0/1/2, 4 slices, symbolic mask, symbolic integer list, single index, swap registers, "
                       "concatenate([t,u]), replace int column 0/1 with symbolic values, tolist, write} for BED3 (length <= 1 for the other formats) "
                       "plus a fixed pseudo-random sample of length 3-4 sequences; each followed by 'observe every field, write'",
              "thorough": "all sequences of length <= 3 for BED3, <= 2 for the other formats, plus larger samples of length 4-6 drawn with VERIF_SEED"}
    job_timeout_s = 300

    def skeletons(self, tier, seed):
        out = []
        # VCF (header lines, eight columns): selections that are not a run ending at the last record, with a replaced column, written
        # (a file without header lines: with header lines the eagerly read table cannot be written at all - open finding
        # C03-parsed-info-not-writable)
        vcf = dict(fmt="vcf", rows=[[1, 1, 1, 1, 1, 1, 2, 2], [2, 2, 1, 1, 2, 1, 1, 1], [1, 1, 2, 1, 1, 1, 1, 3]])
        for prog in ([("ilist",), ("replace", 0), ("write",)], [("slice", 0), ("replace", 0), ("write",)], [("mask",), ("replace", 0), ("write",)],
                     [("replace", 0), ("slice", 2), ("write",)], [("replace", 0), ("mask",), ("get", 1), ("write",)], [("slice", 1), ("write",)]):
            out.append(dict(vcf, file="vcf", ops=[list(op) for op in prog]))
        for name, f in SEQ_FILES.items():
            ops = OPS_SEQ if is_seq(f) else OPS_DELIM
            if tier == "quick":
                full, mx, sample = (2, 4, 30) if name == "bed3" else ((1, 3, 12) if name != "sam" else (1, 3, 6))
            else:
                full, mx, sample = (3, 6, 400) if name == "bed3" else (2, 5, 150)
            if os.environ.get("VERIF_C05_SAMPLE_ONLY"):      # exploration aid: only the seeded sample (no exhaustive part)
                full = 0
            # the quick tier is the same set on every run (a fixed sample); VERIF_SEED moves the sample of the thorough tier
            progs = gen_programs(ops, mx, sample, seed if tier == "thorough" else 0, full)
            if not is_seq(f):
                progs += [p for p in DIRECTED if p not in progs]
                progs += DIRECTED_EMPTY + (DIRECTED_SAM if name == "sam" else []) + (DIRECTED_ASSIGN if INTCOL[name] else [])
            else:
                progs += [p for p in DIRECTED if not any(o[0] == "replace" for o in p) and p not in progs]
            for prog in progs:
                out.append(dict(f, file=name, ops=[list(op) for op in prog]))
        for prog in ([], [("slice", 0)], [("concat",)]):
            out.append(dict(SAM_HDR, file="sam", ops=[list(op) for op in prog]))
        # BED12: list-valued columns (read with their separator)
        b12 = gen_programs(OPS_BED12, 3, 8 if tier == "quick" else 120, seed if tier == "thorough" else 0, 1 if tier == "quick" else 2)
        for prog in b12 + [p for p in DIRECTED_BED12 if p not in b12]:
            out.append(dict(BED12, file="bed12", ops=[list(op) for op in prog]))
        return out

    def _run(self, skel, x, ctx, lazy):
        from bionumpy.io.parser import NumpyFileReader, NpBufferedWriter
        from bionumpy.io.npdataclassreader import NpDataclassReader
        from bionumpy.bnpdataclass import replace
        B = F.get_seq_buffer(skel["fmt"]) if is_seq(skel) else F.get_buffer(skel["fmt"])
        if any(o[0] == "tolist" for o in skel["ops"]):
            x = _ConcreteText(skel, x)      # tolist() renders text as Python str: the text cells are concrete in these programs
        content = F.seq_content(skel, x) if is_seq(skel) else F.content(skel, x)
        parent = NpDataclassReader(NumpyFileReader(ctx.file(content), B), lazy=lazy).read()
        t = u = parent
        obs = []
        nrep = nmask = nil = 0
        cols = F.FORMATS[skel["fmt"]]["cols"] if not is_seq(skel) else None
        fields = [nm for nm, _ in cols] if cols else (["name", "sequence", "quality"] if skel["fmt"] == "fastq" else ["name", "sequence", "sequence"])
        raw = lambda v: ctx.lst(v.raw()) if hasattr(v, "raw") else ctx.lst(v)
        for op in [tuple(o) for o in skel["ops"]] + [("obs",), ("write",)]:
            try:
                k = op[0]
                if k == "obs":
                    obs.append(("obs", observe_table(ctx, skel, t)))
                elif k == "len":
                    obs.append(("len", len(t)))
                elif k == "get":
                    obs.append(("get", raw(getattr(t, fields[op[1]]))))
                elif k == "slice":
                    t = t[slice(*SLICES[op[1]])]
                elif k == "mask":
                    bits = [x[f"m{nmask}_{i}"] for i in range(len(t))]
                    nmask += 1
                    t = t[ctx.arr(bits, "int64") == 1]
                    obs.append(("maskbits", [bool(b == 1) for b in bits]))
                elif k == "ilist":
                    idx = [x[f"i{nil}_{j}"] for j in range(2)]
                    nil += 1
                    if ctx.mode != "plain" and any(o[0] == "tolist" for o in skel["ops"]):
                        from symnp import ENGINE
                        idx = [ENGINE.concretize(v) if hasattr(v, "t") else v for v in idx]   # text gathered by a symbolic index is symbolic
                    if not all(bool(v < len(t)) for v in idx):
                        obs.append(("skip", "index out of range for this table")); break
                    t = t[ctx.arr(idx, "int64")]
                elif k == "perm":           # a fixed re-ordering: the first record goes last
                    if len(t) < 2:
                        obs.append(("skip", "fewer than two records")); break
                    t = t[list(range(1, len(t))) + [0]]
                elif k == "emptylist":
                    t = t[[]]
                elif k == "getrest":
                    obs.append(("get", raw(getattr(t, F.FORMATS[skel["fmt"]]["rest"]))))
                elif k == "single":
                    if len(t) == 0:
                        obs.append(("skip", "empty table")); break
                    e = t[len(t) - 1]
                    obs.append(("entry", {f: raw(getattr(e, f)) for f in fields}))
                elif k == "swap":
                    t, u = u, t
                elif k == "concat":
                    t = ctx.np.concatenate([t, u])
                elif k == "replace":
                    col = INTCOL[skel["file"]][op[1]]
                    t = replace(t, **{col: ctx.arr([x[f"new{nrep}_{j}"] for j in range(len(t))], "int64")})
                    nrep += 1
                elif k == "assign":
                    col = INTCOL[skel["file"]][op[1]]
                    setattr(t, col, ctx.arr([x[f"new{nrep}_{j}"] for j in range(len(t))], "int64"))
                    nrep += 1
                elif k == "tolist":
                    rows = t.tolist()
                    ints = [nm for nm, kind in cols if kind in ("int", "oint")] if cols else []
                    obs.append(("tolist", [len(rows), [[getattr(r, nm) for nm in ints] for r in rows]]))
                elif k == "write":
                    f = ctx.wfile()
                    NpBufferedWriter(f, B).write(t)
                    obs.append(("written", ctx.file_bytes(f)))
            except Exception as e:
                if os.environ.get("VERIF_DEBUG"):
                    import traceback
                    traceback.print_exc()
                obs.append(("raised", None))
                break
        return obs

    def inputs(self, skel, V):
        n = len(skel.get("records", skel.get("rows")))
        if is_seq(skel):
            F.declare_seq(V, skel)
        else:
            F.declare_cells(V, skel)
            for r, widths in enumerate(skel["rows"]):
                for c, (nm, kind) in enumerate(F.FORMATS[skel["fmt"]]["cols"]):
                    if kind in ("int", "oint") and widths[c] > 1:
                        V.assume(V.vars[f"c{r}_{c}_0"].t != 48)
                    if kind == "ilist":          # canonical list text: no leading zero in a multi-digit element
                        k = 0
                        for w in F.list_spec(skel, r, c)["widths"]:
                            if w > 1:
                                V.assume(V.vars[f"c{r}_{c}_{k}"].t != 48)
                            k += w + 1
        # table sizes grow by concatenation: bound by n * 2^(#concat)
        ops = [tuple(o) for o in skel["ops"]]
        size = n * 2 ** sum(1 for o in ops if o[0] == "concat")
        for k in range(sum(1 for o in ops if o[0] == "mask")):
            for i in range(size):
                V.int(f"m{k}_{i}", 0, 1)
        for k in range(sum(1 for o in ops if o[0] == "ilist")):
            for j in range(2):
                V.int(f"i{k}_{j}", 0, n - 1)
        for k in range(sum(1 for o in ops if o[0] in ("replace", "assign"))):
            for j in range(size):
                V.int(f"new{k}_{j}", 0, 12)

    def _describe(self, skel):
        return f"operations {skel['ops']} then observe, write (t, u start as the table read)"


from checks.C02 import VCF as _VCF


class InfoConcat(_VCF):
    """typed INFO keys of a VCF after np.concatenate of selections whose INFO texts differ in size: the lazily and the eagerly read table
    both give the values of the records, in the order of the concatenation"""
    name = "info_concat"
    functions = ("NamedBufferExtractor.concatenate", "LazyBNPDataClass.__array_function__ (concatenate)", "VCFBuffer._get_info_field",
                 "BNPDataClass.__array_function__ (concatenate of nested INFO tables)")
    bounds = {"quick": "2-3 sites-only / genotyped VCF records with declared INFO keys (DP of 1-2 symbolic digits, flags), INFO texts of different "
                       "sizes; operands [0],[1] / [1],[0] / [0,1],[1] / [2],[0],[1]; read lazily and eagerly; with and without the INFO column of "
                       "every operand having been taken before the concatenation",
              "thorough": "same"}

    def skeletons(self, tier, seed):
        R = lambda pos, dpw, info: dict(chrom=1, pos=pos, id=1, ref=1, alt=1, info=info, dpw=dpw, fmt="GT", samples=["gt", "gt"])
        two = [R(1, 2, "dp"), R(1, 1, "fl_dp")]
        three = [R(1, 1, "fla_dp"), R(2, 2, "dp"), R(1, 1, "dp_fl")]
        out = []
        for recs, partsets in ((two, ([[0], [1]], [[1], [0]], [[0, 1], [1]])), (three, ([[2], [0], [1]], [[0, 2], [1]]))):
            for parts in partsets:
                for lazy in (True, False):
                    for touch in (False, True):
                        out.append(dict(recs=recs, buffer="VCFBuffer", crlf=False, prior=None, lazy=lazy, concat_parts=parts, touch_parts=touch))
        return out


HARNESSES = [LockStep(), OpSequences(), InfoConcat()]
