"""C10 -- genome-wide operations respect chromosome boundaries."""
import itertools
import z3
from vlib.harness import Harness, Exc
from vlib.zutil import TI, TB, z_and, z_or

NAMES = ["chr1", "chr10", "chr2", "chr3"]     # chr1 is a prefix of chr10


def sel(idx, table):
    """z3: table[idx] for a list of terms/ints"""
    t = table[-1] if z3.is_expr(table[-1]) else z3.IntVal(table[-1])
    for i in range(len(table) - 2, -1, -1):
        t = z3.If(idx == i, table[i], t)
    return t


class Coords(Harness):
    """per-chromosome <-> concatenated coordinates is a bijection on valid positions (chromosome sizes symbolic)"""
    name = "coordinates"
    functions = ("GlobalOffset.from_local_coordinates/to_local_coordinates/from_local_interval/to_local_interval/"
                 "start_ends_from_intervals",)
    bounds = {"quick": "genomes of 1-3 chromosomes with symbolic positive sizes; 1-2 coordinates / intervals with symbolic chromosome index",
              "thorough": "1-4 chromosomes, 1-3 entries"}

    def skeletons(self, tier, seed):
        ks = (1, 2, 3) if tier == "quick" else (1, 2, 3, 4)
        ms = (1, 2) if tier == "quick" else (1, 2, 3)
        out = []
        for k in ks:
            for m in ms:
                for case in ("l2g2l", "g2l2g", "reject", "interval"):
                    if case == "reject" and m > 1:
                        continue
                    out.append(dict(k=k, m=m, case=case))
        return out

    def inputs(self, skel, V):
        k, m = skel["k"], skel["m"]
        sizes = [V.int(f"size{i}", 1, None) for i in range(k)]
        total = sum(s.t for s in sizes)
        for j in range(m):
            if skel["case"] == "g2l2g":
                g = V.int(f"g{j}", 0, None)
                V.assume(g.t < total)
            else:
                c = V.int(f"c{j}", 0, k - 1)
                x = V.int(f"x{j}", 0, None)
                size_c = sel(c.t, [s.t for s in sizes])
                if skel["case"] == "reject":
                    V.assume(x.t >= size_c)
                elif skel["case"] == "interval":
                    e = V.int(f"e{j}", 1, None)
                    V.assume(z3.And(x.t < e.t, e.t <= size_c))
                else:
                    V.assume(x.t < size_c)

    def _go(self, skel, x, ctx):
        from bionumpy.genomic_data.global_offset import GlobalOffset
        from bionumpy.encodings.string_encodings import StringEncoding
        from bionumpy.datatypes import ChromosomeSize
        k = skel["k"]
        names = NAMES[:k]
        enc = StringEncoding(names)
        cs = ChromosomeSize(names, ctx.arr([x[f"size{i}"] for i in range(k)], "int64"))
        return GlobalOffset(cs, string_encoding=enc), enc

    def call(self, skel, x, ctx):
        from bionumpy.encoded_array import EncodedArray
        from bionumpy.datatypes import Interval
        go, enc = self._go(skel, x, ctx)
        m, case = skel["m"], skel["case"]
        if case == "g2l2g":
            g = ctx.arr([x[f"g{j}"] for j in range(m)], "int64")
            chrom, local = go.to_local_coordinates(g)
            back = go.from_local_coordinates(chrom, local)
            return dict(chrom=ctx.lst(chrom.raw()), local=ctx.lst(local), back=ctx.lst(back))
        chrom = EncodedArray(ctx.arr([x[f"c{j}"] for j in range(m)], "int64"), enc)
        xs = ctx.arr([x[f"x{j}"] for j in range(m)], "int64")
        if case == "interval":
            iv = Interval(chrom, xs, ctx.arr([x[f"e{j}"] for j in range(m)], "int64"))
            gi = go.from_local_interval(iv)
            li = go.to_local_interval(gi)
            return dict(gstart=ctx.lst(gi.start), gstop=ctx.lst(gi.stop), chrom=ctx.lst(li.chromosome.raw()),
                        start=ctx.lst(li.start), stop=ctx.lst(li.stop))
        g = go.from_local_coordinates(chrom, xs)
        c2, x2 = go.to_local_coordinates(g)
        return dict(g=ctx.lst(g), chrom=ctx.lst(c2.raw()), local=ctx.lst(x2))

    def post(self, skel, x, out):
        k, m, case = skel["k"], skel["m"], skel["case"]
        sizes = [x[f"size{i}"].t for i in range(k)]
        offs = [sum(sizes[:i], z3.IntVal(0)) for i in range(k)]
        if case == "reject":
            return isinstance(out, Exc)
        if isinstance(out, Exc):
            return False
        conj = []
        for j in range(m):
            if case == "g2l2g":
                g = x[f"g{j}"].t
                c, l = TI(out["chrom"][j]), TI(out["local"][j])
                conj += [c >= 0, c < k, l >= 0, l < sel(c, sizes), sel(c, offs) + l == g, TI(out["back"][j]) == g]
            elif case == "l2g2l":
                c, xx = x[f"c{j}"].t, x[f"x{j}"].t
                conj += [TI(out["g"][j]) == sel(c, offs) + xx, TI(out["chrom"][j]) == c, TI(out["local"][j]) == xx]
            else:
                c, s, e = x[f"c{j}"].t, x[f"x{j}"].t, x[f"e{j}"].t
                conj += [TI(out["gstart"][j]) == sel(c, offs) + s, TI(out["gstop"][j]) == sel(c, offs) + e,
                         TI(out["chrom"][j]) == c, TI(out["start"][j]) == s, TI(out["stop"][j]) == e]
        return z_and(conj)

    def oracle(self, skel, cx, cout):
        k, m, case = skel["k"], skel["m"], skel["case"]
        sizes = [cx[f"size{i}"] for i in range(k)]
        offs = [sum(sizes[:i]) for i in range(k)]
        if case == "reject":
            return None if isinstance(cout, Exc) else f"out-of-range local coordinate accepted: sizes={sizes} {cx} -> {cout}"
        if isinstance(cout, Exc):
            return f"raised {cout} for valid input sizes={sizes} {cx}"
        for j in range(m):
            if case == "g2l2g":
                g = cx[f"g{j}"]
                c = max(i for i in range(k) if offs[i] <= g)
                if (cout["chrom"][j], cout["local"][j], cout["back"][j]) != (c, g - offs[c], g):
                    return f"sizes={sizes}: global {g} -> ({cout['chrom'][j]}, {cout['local'][j]}) -> {cout['back'][j]}, expected ({c}, {g-offs[c]}) -> {g}"
            elif case == "l2g2l":
                c, xx = cx[f"c{j}"], cx[f"x{j}"]
                if (cout["g"][j], cout["chrom"][j], cout["local"][j]) != (offs[c] + xx, c, xx):
                    return f"sizes={sizes}: local ({c},{xx}) -> {cout['g'][j]} -> ({cout['chrom'][j]},{cout['local'][j]})"
            else:
                c, s, e = cx[f"c{j}"], cx[f"x{j}"], cx[f"e{j}"]
                got = (cout["gstart"][j], cout["gstop"][j], cout["chrom"][j], cout["start"][j], cout["stop"][j])
                if got != (offs[c] + s, offs[c] + e, c, s, e):
                    return f"sizes={sizes}: interval ({c},{s},{e}) -> global/local {got}"
        return None


GENOMES = {
    "g2": {"chr1": 3, "chr10": 2},
    "g3": {"chr1": 2, "chr10": 1, "chr2": 3},
    "g3i": {"chr1": 2, "chr1_alt": 2, "chr10": 3},      # chr1_alt is ignored by default (underscore)
    "g4": {"chr1": 2, "chr10": 2, "chr2": 1, "chr3": 2},
}


class GenomeOps(Harness):
    """whole-genome interval operations == the single-contig operation applied to each chromosome's entries"""
    name = "genomic_intervals"
    functions = ("GenomicIntervalsFull.get_mask/get_pileup/sorted/clip/extended_to_size/get_location",
                 "GenomicLocationGlobal.get_windows", "GenomeContext.mask_data", "GenomicArrayGlobal.to_dict",
                 "GlobalOffset.start_ends_from_intervals/from_local_interval")
    bounds = {"quick": "genomes {chr1:3,chr10:2}, {chr1:2,chr10:1,chr2:3}, {chr1:2,chr1_alt:2(ignored),chr10:3}; 1-2 intervals "
                       "with symbolic chromosome, start, stop (and strand)",
              "thorough": "adds a 4-chromosome genome and 3 intervals"}

    OPS = ("mask", "pileup", "sorted", "clip", "extend", "location", "windows", "merged0", "merged1", "merged0_via_track", "loc_sorted")

    def skeletons(self, tier, seed):
        out = []
        gs = ("g2", "g3", "g3i") if tier == "quick" else ("g2", "g3", "g3i", "g4")
        for g in gs:
            for op in self.OPS:
                for n in ((1, 2) if tier == "quick" else (1, 2, 3)):
                    if n == 3 and (op in ("mask", "pileup") and g == "g4"):
                        continue
                    out.append(dict(genome=g, op=op, n=n))
            out.append(dict(genome=g, op="loc_sorted", n=3))           # locations (the intervals' starts) put in genome order
            if tier == "quick" and g in ("g3", "g3i"):
                # three intervals can cover the end of one chromosome, all of the next and the start of the third: one run of the
                # concatenated mask that crosses two chromosome boundaries
                out.append(dict(genome=g, op="merged0_via_track", n=3))
            out.append(dict(genome=g, op="location", n=2, unstranded=True))      # start / stop / center of intervals without a strand
        return out

    def inputs(self, skel, V):
        sizes = list(GENOMES[skel["genome"]].values())
        k = len(sizes)
        for i in range(skel["n"]):
            c = V.int(f"c{i}", 0, k - 1)
            size_c = sel(c.t, sizes)
            if skel["op"] == "clip":
                s = V.int(f"s{i}", -2, max(sizes) + 1); e = V.int(f"e{i}", -1, max(sizes) + 3)
                V.assume(z3.And(s.t < e.t, e.t > 0, s.t < size_c))
            elif skel["op"] == "windows":
                s = V.int(f"s{i}", 0, max(sizes))
                V.assume(s.t < size_c)
            else:
                s = V.int(f"s{i}", 0, max(sizes)); e = V.int(f"e{i}", 0, max(sizes))
                V.assume(z3.And(s.t < e.t, e.t <= size_c))
            if skel["op"] in ("extend", "location", "windows"):
                V.int(f"neg{i}", 0, 0 if skel.get("unstranded") else 1)      # unstranded intervals are read like '+' intervals
            if skel["op"].startswith("merged") and i:      # precondition: sorted by chromosome, start
                pc, ps = V.vars[f"c{i-1}"].t, V.vars[f"s{i-1}"].t
                V.assume(z3.Or(c.t > pc, z3.And(c.t == pc, s.t >= ps)))
        if skel["op"] == "extend":
            V.int("L", 1, max(sizes) + 1)
        if skel["op"] == "windows":
            V.int("flank", 0, 2)

    def call(self, skel, x, ctx):
        import bionumpy as bnp
        from bionumpy.encoded_array import EncodedArray
        from bionumpy.datatypes import Interval, StrandedInterval, LocationEntry
        from bionumpy.encodings import StrandEncoding
        n, op = skel["n"], skel["op"]
        from bionumpy.genomic_data.genome_context import ignore_underscores
        genome = bnp.Genome.from_dict(dict(GENOMES[skel["genome"]]), filter_function=ignore_underscores)
        gc = genome._genome_context
        names = list(GENOMES[skel["genome"]])
        # the genome context moves ignored names last: chromosome codes follow its own encoding
        labels = gc.encoding.get_labels()
        code_of = [labels.index(nm) for nm in names]
        codes = [x[f"c{i}"] for i in range(n)]
        if ctx.mode == "plain":
            ccodes = [code_of[c] for c in codes]
        else:
            from symnp.core import S_select
            ccodes = [S_select(code_of, c) for c in codes]
        chrom = EncodedArray(ctx.arr(ccodes, "int64"), gc.encoding)
        starts = ctx.arr([x[f"s{i}"] for i in range(n)], "int64")
        stranded = op in ("extend", "location", "windows") and not skel.get("unstranded")
        strand = EncodedArray(ctx.arr([x[f"neg{i}"] for i in range(n)], "uint8"), StrandEncoding) if stranded else None
        if op == "windows":
            from bionumpy.genomic_data.genomic_intervals import GenomicLocation
            loc = GenomicLocation.from_fields(gc, chrom, starts, strand)
            w = loc.get_windows(flank=x["flank"])
            return dict(chrom=ctx.lst(w.chromosome.raw()), start=ctx.lst(w.start), stop=ctx.lst(w.stop), labels=labels)
        stops = ctx.arr([x[f"e{i}"] for i in range(n)], "int64")
        iv = StrandedInterval(chrom, starts, stops, strand) if stranded else Interval(chrom, starts, stops)
        gi = genome.get_intervals(iv, stranded=stranded)
        if op in ("mask", "pileup"):
            arr = gi.get_mask() if op == "mask" else gi.get_pileup()
            d = arr.to_dict()
            return dict(dense={k_: ctx.lst(v) for k_, v in d.items()}, labels=labels)
        if op == "location":
            res = {}
            for where in ("start", "stop", "center"):
                l = gi.get_location(where)
                res[where] = dict(chrom=ctx.lst(l.chromosome.raw()), pos=ctx.lst(l.position))
            res["labels"] = labels
            return res
        def via_track():
            # the covered runs read back from the mask as intervals, then sorted (genome order) and merged (already maximal: unchanged)
            from bionumpy.genomic_data.genomic_intervals import GenomicIntervals
            return GenomicIntervals.from_track(gi.get_mask()).sorted().merged()
        if op == "loc_sorted":
            l = gi.get_location("start").sorted()
            return dict(chrom=ctx.lst(l.chromosome.raw()), start=ctx.lst(l.position), stop=ctx.lst(l.position), labels=labels, n=len(l.position))
        r = dict(sorted=gi.sorted, clip=gi.clip, extend=lambda: gi.extended_to_size(x["L"]),
                 merged0=lambda: gi.merged(), merged1=lambda: gi.merged(1), merged0_via_track=via_track)[op]()
        res = dict(chrom=ctx.lst(r.chromosome.raw()), start=ctx.lst(r.start), stop=ctx.lst(r.stop), labels=labels, n=len(r))
        if op == "extend":
            # the extended intervals are still stranded intervals: the strand column survives and strand-aware methods keep using it
            res["stranded"] = bool(r.is_stranded())
            res["strand"] = ctx.lst(r.strand.raw()) if res["stranded"] else None
        return res

    # ---- helpers over the symbolic inputs
    def _entries(self, skel, x):
        names = list(GENOMES[skel["genome"]])
        ent = []
        for i in range(skel["n"]):
            ent.append(dict(c=x[f"c{i}"].t, s=x[f"s{i}"].t, e=x[f"e{i}"].t if f"e{i}" in x else None,
                            neg=(x[f"neg{i}"].t == 1) if f"neg{i}" in x else None))
        return names, ent

    def post(self, skel, x, out):
        if isinstance(out, Exc):
            return False
        op, n = skel["op"], skel["n"]
        sizes_d = GENOMES[skel["genome"]]
        names, ent = self._entries(skel, x)
        sizes = [sizes_d[nm] for nm in names]
        included = [("_" not in nm) for nm in names]
        labels = out["labels"]
        inc_term = lambda c: z_or([c == i for i in range(len(names)) if included[i]])
        code = lambda c: sel(c, [labels.index(nm) for nm in names])
        if op in ("mask", "pileup"):
            if set(out["dense"]) != {nm for nm, inc in zip(names, included) if inc}:
                return False
            conj = []
            for ci, nm in enumerate(names):
                if not included[ci]:
                    continue
                d = out["dense"][nm]
                if len(d) != sizes[ci]:
                    return False
                for p in range(sizes[ci]):
                    cov = [z3.And(e["c"] == ci, e["s"] <= p, p < e["e"]) for e in ent]
                    if op == "mask":
                        conj.append(TB(d[p]) == z_or(cov))
                    else:
                        conj.append(TI(d[p]) == sum([z3.If(c, 1, 0) for c in cov], z3.IntVal(0)))
            return z_and(conj)
        if op == "location":
            conj = []
            kept = [e for e in ent]
            # entries on ignored chromosomes are dropped: number of outputs is concrete on the path
            for where in ("start", "stop", "center"):
                r = out[where]
                m = len(r["pos"])
                conj.append(sum([z3.If(inc_term(e["c"]), 1, 0) for e in ent], z3.IntVal(0)) == m)
                for j in range(m):
                    opts = []
                    for i, e in enumerate(ent):
                        rank = sum([z3.If(inc_term(e2["c"]), 1, 0) for e2 in ent[:i]], z3.IntVal(0))
                        if where == "center":
                            pos = (e["s"] + e["e"]) / 2
                        else:
                            first = z3.Not(e["neg"]) if where == "start" else e["neg"]
                            pos = z3.If(first, e["s"], e["e"] - 1)
                        opts.append(z3.And(inc_term(e["c"]), rank == j, TI(r["chrom"][j]) == code(e["c"]), TI(r["pos"][j]) == pos))
                    conj.append(z_or(opts))
            return z_and(conj)
        if op.startswith("merged"):
            return self._post_merged(skel, x, out, names, ent, included, code, inc_term)
        # interval-valued results: sorted / clip / extend / windows (order preserved except for sorted)
        m = len(out["start"])
        conj = [sum([z3.If(inc_term(e["c"]), 1, 0) for e in ent], z3.IntVal(0)) == m]
        exp = []
        for e in ent:
            size = sel(e["c"], sizes)
            if op == "clip":
                exp.append((z3.If(e["s"] > 0, e["s"], 0), z3.If(e["e"] < size, e["e"], size)))
            elif op == "extend":
                L = x["L"].t
                exp.append((z3.If(e["neg"], z3.If(e["e"] - L > 0, e["e"] - L, 0), e["s"]),
                            z3.If(e["neg"], e["e"], z3.If(e["s"] + L < size, e["s"] + L, size))))
            elif op == "windows":
                f = x["flank"].t
                exp.append((z3.If(e["s"] - f > 0, e["s"] - f, 0), z3.If(e["s"] + f + 1 < size, e["s"] + f + 1, size)))
            elif op == "loc_sorted":
                exp.append((e["s"], e["s"]))
            else:
                exp.append((e["s"], e["e"]))
        if op == "extend":
            if not out.get("stranded") or len(out["strand"]) != m:
                return False
        rows_out = [(TI(out["chrom"][j]), TI(out["start"][j]), TI(out["stop"][j])) for j in range(m)]
        if op in ("sorted", "loc_sorted"):
            perms = []
            for perm in itertools.permutations(range(n), m):
                perms.append(z3.And(*[z3.And(inc_term(ent[perm[j]]["c"]), rows_out[j][0] == code(ent[perm[j]]["c"]),
                                             rows_out[j][1] == exp[perm[j]][0], rows_out[j][2] == exp[perm[j]][1]) for j in range(m)])
                             if m else z3.BoolVal(True))
            conj.append(z_or(perms))
            for j in range(m - 1):
                a, b = rows_out[j], rows_out[j + 1]
                conj.append(z3.Or(a[0] < b[0], z3.And(a[0] == b[0], z3.Or(a[1] < b[1], z3.And(a[1] == b[1], a[2] <= b[2])))))
        else:
            for j in range(m):
                opts = []
                for i, e in enumerate(ent):
                    rank = sum([z3.If(inc_term(e2["c"]), 1, 0) for e2 in ent[:i]], z3.IntVal(0))
                    opts.append(z3.And(inc_term(e["c"]), rank == j, rows_out[j][0] == code(e["c"]),
                                       rows_out[j][1] == exp[i][0], rows_out[j][2] == exp[i][1],
                                       *([TI(out["strand"][j]) == z3.If(e["neg"], 1, 0)] if op == "extend" else [])))
                conj.append(z_or(opts))
        return z_and(conj)

    def _post_merged(self, skel, x, out, names, ent, included, code, inc_term):
        """per chromosome: output runs = definitional scan over that chromosome's intervals; runs never span chromosomes"""
        d = 0 if skel["op"] in ("merged0", "merged0_via_track") else 1
        m = len(out["start"])
        n = len(ent)
        inc = [inc_term(e["c"]) for e in ent]
        # new run at entry i (among included entries, in order) iff first included, or chromosome differs from the
        # previous included entry, or start > running max stop + d
        newrun, run_max, prev_c, seen = [], None, None, z3.BoolVal(False)
        rank = []
        cnt = z3.IntVal(-1)
        for i, e in enumerate(ent):
            if i == 0:
                b = inc[0]
                run_max = e["e"]; prev_c = e["c"]; seen = inc[0]
            else:
                b = z3.And(inc[i], z3.Or(z3.Not(seen), e["c"] != prev_c, e["s"] > run_max + d))
                run_max = z3.If(inc[i], z3.If(z3.Or(b, e["e"] > run_max), e["e"], run_max), run_max)
                prev_c = z3.If(inc[i], e["c"], prev_c)
                seen = z3.Or(seen, inc[i])
            cnt = cnt + z3.If(b, 1, 0)
            rank.append(cnt)
        conj = [cnt == m - 1]
        for j in range(m):
            oc, os_, oe = TI(out["chrom"][j]), TI(out["start"][j]), TI(out["stop"][j])
            for i, e in enumerate(ent):
                conj.append(z3.Implies(z3.And(inc[i], rank[i] == j), z3.And(oc == code(e["c"]), os_ <= e["s"], oe >= e["e"])))
            conj.append(z_or([z3.And(inc[i], rank[i] == j, os_ == e["s"]) for i, e in enumerate(ent)]))
            conj.append(z_or([z3.And(inc[i], rank[i] == j, oe == e["e"]) for i, e in enumerate(ent)]))
        return z_and(conj)

    def oracle(self, skel, cx, cout):
        if isinstance(cout, Exc):
            return f"raised {cout}"
        op, n = skel["op"], skel["n"]
        sizes_d = GENOMES[skel["genome"]]
        names = list(sizes_d)
        labels = cout["labels"]
        ent = [dict(c=cx[f"c{i}"], s=cx[f"s{i}"], e=cx.get(f"e{i}"), neg=cx.get(f"neg{i}")) for i in range(n)]
        desc = [(names[e["c"]], e["s"], e["e"], None if e["neg"] is None else "+-"[e["neg"]]) for e in ent]
        inc = [e for e in ent if "_" not in names[e["c"]]]
        if op in ("mask", "pileup"):
            for nm in names:
                if "_" in nm:
                    continue
                counts = [sum(1 for e in ent if names[e["c"]] == nm and e["s"] <= p < e["e"]) for p in range(sizes_d[nm])]
                exp = [c > 0 for c in counts] if op == "mask" else counts
                got = cout["dense"].get(nm)
                got = None if got is None else ([bool(v) for v in got] if op == "mask" else [int(v) for v in got])
                if got != exp:
                    return f"{op} of {desc} on {sizes_d}: {nm} = {got}, expected {exp}"
            return None
        if op == "location":
            for where in ("start", "stop", "center"):
                exp = []
                for e in inc:
                    if where == "center":
                        p = (e["s"] + e["e"]) // 2
                    else:
                        p = e["s"] if (e["neg"] == 0) == (where == "start") else e["e"] - 1
                    exp.append((labels.index(names[e["c"]]), p))
                got = list(zip(cout[where]["chrom"], cout[where]["pos"]))
                if got != exp:
                    return f"get_location({where}) of {desc}: {got}, expected {exp}"
            return None
        if op.startswith("merged"):
            d = 0 if op in ("merged0", "merged0_via_track") else 1
            exp = []
            for e in inc:
                c = labels.index(names[e["c"]])
                if exp and exp[-1][0] == c and e["s"] <= exp[-1][2] + d:
                    exp[-1][2] = max(exp[-1][2], e["e"])
                else:
                    exp.append([c, e["s"], e["e"]])
            got = [list(t) for t in zip(cout["chrom"], cout["start"], cout["stop"])]
            return None if got == exp else f"merged({d}) of {desc} on {sizes_d}: {got}, expected {exp}"
        exp = []
        for e in inc:
            size = sizes_d[names[e["c"]]]
            if op == "clip":
                r = (max(e["s"], 0), min(e["e"], size))
            elif op == "extend":
                L = cx["L"]
                r = (max(e["e"] - L, 0), e["e"]) if e["neg"] else (e["s"], min(e["s"] + L, size))
            elif op == "windows":
                f = cx["flank"]
                r = (max(e["s"] - f, 0), min(e["s"] + f + 1, size))
            elif op == "loc_sorted":
                r = (e["s"], e["s"])
            else:
                r = (e["s"], e["e"])
            exp.append((labels.index(names[e["c"]]),) + r)
        if op in ("sorted", "loc_sorted"):
            exp = sorted(exp)
        got = list(zip(cout["chrom"], cout["start"], cout["stop"]))
        if got != exp:
            return f"{op} of {desc} on {sizes_d}: {got}, expected {exp} (chromosome codes per {labels})"
        if op == "extend":
            want = [1 if e["neg"] else 0 for e in inc]
            if not cout.get("stranded") or [int(v) for v in cout["strand"]] != want:
                return (f"extended_to_size of stranded intervals {desc}: the result is {'stranded with strand codes ' + str(cout['strand']) if cout.get('stranded') else 'NOT stranded any more'}"
                        f", expected stranded with strand codes {want} (0 = '+', 1 = '-')")
        return None


class Binned(Harness):
    """BinnedGenome.count: per-chromosome bin counts never spill into a neighbouring chromosome"""
    name = "binned_genome"
    functions = ("BinnedGenome.__init__/count/count_dict",)
    bounds = {"quick": "genomes g2, g3 and {chr1:5,chr10:4,chr2:4}; bin size 1-3; 1-2 locations with symbolic chromosome and position",
              "thorough": "bin size 1-4, 1-3 locations, g4"}

    G = dict(GENOMES, g544={"chr1": 5, "chr10": 4, "chr2": 4})

    def skeletons(self, tier, seed):
        gs = ("g2", "g3", "g544") if tier == "quick" else ("g2", "g3", "g544", "g4")
        bins = (1, 2, 3) if tier == "quick" else (1, 2, 3, 4)
        ns = (1, 2) if tier == "quick" else (1, 2, 3)
        out = []
        for g in gs:
            k = len(self.G[g])
            for b in bins:
                for n in ns:
                    for chroms in itertools.combinations_with_replacement(range(k), n):
                        out.append(dict(genome=g, bin=b, n=n, chroms=list(chroms)))
        return out

    def inputs(self, skel, V):
        sizes = list(self.G[skel["genome"]].values())
        for i in range(skel["n"]):
            V.int(f"p{i}", 0, sizes[skel["chroms"][i]] - 1)

    def call(self, skel, x, ctx):
        from bionumpy.genomic_data.binned_genome import BinnedGenome
        from bionumpy.genomic_data.genome_context import GenomeContext
        from bionumpy.datatypes import LocationEntry
        from bionumpy.encoded_array import EncodedArray
        gc = GenomeContext.from_dict(dict(self.G[skel["genome"]]))
        bg = BinnedGenome(gc, skel["bin"])
        n = skel["n"]
        names = list(self.G[skel["genome"]])
        bg.count(LocationEntry([names[c] for c in skel["chroms"]], ctx.arr([x[f"p{i}"] for i in range(n)], "int64")))
        return {k: ctx.lst(v) for k, v in bg.count_dict.items()}

    def post(self, skel, x, out):
        if isinstance(out, Exc):
            return False
        g, b, n = self.G[skel["genome"]], skel["bin"], skel["n"]
        names = list(g)
        if list(out) != names:
            return False
        conj = []
        for ci, nm in enumerate(names):
            nb = (g[nm] + b - 1) // b
            if len(out[nm]) != nb:
                return False
            for k in range(nb):
                conj.append(TI(out[nm][k]) == sum([z3.If(x[f"p{i}"].t / b == k, 1, 0)
                                                   for i in range(n) if skel["chroms"][i] == ci], z3.IntVal(0)))
        return z_and(conj)

    def oracle(self, skel, cx, cout):
        if isinstance(cout, Exc):
            return f"raised {cout}"
        g, b, n = self.G[skel["genome"]], skel["bin"], skel["n"]
        names = list(g)
        exp = {nm: [sum(1 for i in range(n) if skel["chroms"][i] == ci and cx[f"p{i}"] // b == k) for k in range((g[nm] + b - 1) // b)]
               for ci, nm in enumerate(names)}
        locs = [(names[skel["chroms"][i]], cx[f"p{i}"]) for i in range(n)]
        return None if cout == exp else f"BinnedGenome({g}, bin_size={b}).count({locs}) = {cout}, expected {exp}"


class ValuesUnderIntervals(Harness):
    """array values and sequence under intervals / at locations of a multi-chromosome genome: each interval gets exactly the values of
    its own chromosome at its own positions (reversed on the minus strand; reverse-complemented for sequence)"""
    name = "values_under_intervals"
    functions = ("GenomicArrayGlobal.extract_intervals/extract_locations", "GlobalOffset.from_local_interval/from_local_coordinates",
                 "GenomicRunLengthArray.__getitem__ (interval list)", "RunLengthRaggedArray", "GenomicSequence.extract_intervals")
    bounds = {"quick": "genomes {chr1:3, chr2:2} and {chr1:2, chr10:1, chr2:3}; a track of 1-2 bedGraph records (symbolic boundaries and values); "
                       "1-2 intervals on chosen chromosomes with symbolic 0<=start<stop<=size and symbolic strand, incl. intervals that end at a "
                       "chromosome end / start at 0 of the next; sequence: symbolic bases on 2 chromosomes",
              "thorough": "2-3 intervals on all chromosome combinations"}

    def skeletons(self, tier, seed):
        from checks.C09 import GENOMES
        out = []
        combos = {"g2": [[0], [1], [0, 1], [1, 0], [1, 1]], "g3": [[1], [0, 2], [2, 1]]}
        if tier == "thorough":
            combos = {"g2": [list(c) for k in (1, 2, 3) for c in itertools.product(range(2), repeat=k)],
                      "g3": [list(c) for k in (1, 2) for c in itertools.product(range(3), repeat=k)]}
        for g, ivsets in combos.items():
            for ivs in ivsets:
                for runs in ([[0, 1]] if g == "g2" else [[0, 2]]) + ([[1]] if tier == "thorough" or len(ivs) == 1 else []):
                    for what in ("array", "array_stranded", "locations"):
                        out.append(dict(genome=g, runs=runs, ivs=ivs, what=what))
        for ivs in combos["g2"]:
            out.append(dict(genome="g2", ivs=ivs, what="sequence"))
        # sequence read through an indexed FASTA whose record order differs from the genome's chromosome order
        # (records a, chr2, b_1, zz: the '_' contig is ignored by the genome, so zz has code 2 but is the 4th record)
        for ivs in ([3], [0, 3], [3, 1], [3, 0, 1]) + (([1, 3, 0],) if tier == "thorough" else ()):     # [3,0,1]: a request order that is a 3-cycle of the genome order
            out.append(dict(genome="fasta", ivs=ivs, what="sequence_fasta"))
        return out

    FASTA_RECORDS = [[2, 2], [2, 2], [2, 2], [3, 3]]

    def inputs(self, skel, V):
        from checks.C09 import GENOMES, declare_track
        if skel["what"] == "sequence_fasta":
            for r, (rlen, width) in enumerate(self.FASTA_RECORDS):
                for p in range(rlen):
                    v = V.int(f"b{r}_{p}", 65, 84); V.assume(z_or([v.t == c for c in (65, 67, 71, 84)]))
            for i, c in enumerate(skel["ivs"]):
                s = V.int(f"s{i}", 0, self.FASTA_RECORDS[c][0] - 1); e = V.int(f"e{i}", 1, self.FASTA_RECORDS[c][0])
                V.assume(s.t < e.t)
                V.int(f"neg{i}", 0, 1)
            return
        sizes = list(GENOMES[skel["genome"]].values())
        if skel["what"] != "sequence":
            declare_track(V, skel["runs"], sizes, "a")
        else:
            for ci, n in enumerate(sizes):
                for p in range(n):
                    V.int(f"b{ci}_{p}", 0, 3)
        for i, c in enumerate(skel["ivs"]):
            s = V.int(f"s{i}", 0, sizes[c] - 1); e = V.int(f"e{i}", 1, sizes[c])
            V.assume(s.t < e.t)
            V.int(f"neg{i}", 0, 1)

    def _call_fasta(self, skel, x, ctx):
        import os, tempfile
        import bionumpy as bnp
        import bionumpy.io.indexed_fasta as ifa
        from checks import C17
        from bionumpy.datatypes import StrandedInterval
        from bionumpy.encoded_array import EncodedArray
        from bionumpy.encodings import StrandEncoding
        from bionumpy.genomic_data.genomic_sequence import GenomicSequence
        content, rows = C17.layout(dict(records=self.FASTA_RECORDS))
        data = C17.fill(content, x)
        d = tempfile.mkdtemp(prefix="c10_")
        fa = os.path.join(d, "mem.fa")
        with open(fa + ".fai", "w") as fh:
            for r in rows:
                fh.write(f"{r['name']}\t{r['rlen']}\t{r['offset']}\t{r['lenc']}\t{r['lenb']}\n")
        real_open = open
        fobj = ctx.file(data)
        ifa.open = lambda fn, mode="r", *a, **k: fobj if str(fn) == fa and "b" in mode else real_open(fn, mode, *a, **k)
        try:
            ix = ifa.IndexedFasta(fa)
            from bionumpy.genomic_data.genome_context import ignore_underscores
            g = bnp.Genome.from_dict({r["name"]: r["rlen"] for r in rows}, filter_function=ignore_underscores)   # as Genome.from_file does
            assert g._genome_context.encoding.get_labels() != [r["name"] for r in rows]
            gs = GenomicSequence.from_indexed_fasta(ix, g._genome_context)
            m = len(skel["ivs"])
            iv = StrandedInterval([C17.NAMES[c] for c in skel["ivs"]], ctx.arr([x[f"s{i}"] for i in range(m)], "int64"),
                                  ctx.arr([x[f"e{i}"] for i in range(m)], "int64"),
                                  EncodedArray(ctx.arr([x[f"neg{i}"] for i in range(m)], "uint8"), StrandEncoding))
            out = gs[g.get_intervals(iv, stranded=True)]
            from bionumpy.encoded_array import BaseEncoding, change_encoding
            return dict(rows=[ctx.lst(change_encoding(out[i], BaseEncoding).raw()) for i in range(m)])
        finally:
            del ifa.open
            try:
                os.unlink(fa + ".fai"); os.rmdir(d)
            except OSError:
                pass

    def call(self, skel, x, ctx):
        if skel["what"] == "sequence_fasta":
            return self._call_fasta(skel, x, ctx)
        import bionumpy as bnp
        from checks.C09 import GENOMES, make_track
        from bionumpy.datatypes import StrandedInterval
        from bionumpy.encoded_array import EncodedArray
        from bionumpy.encodings import StrandEncoding
        genome = GENOMES[skel["genome"]]
        names = list(genome)
        m = len(skel["ivs"])
        chroms = [names[c] for c in skel["ivs"]]
        starts = ctx.arr([x[f"s{i}"] for i in range(m)], "int64")
        stops = ctx.arr([x[f"e{i}"] for i in range(m)], "int64")
        strand = EncodedArray(ctx.arr([x[f"neg{i}"] for i in range(m)], "uint8"), StrandEncoding)
        iv = StrandedInterval(chroms, starts, stops, strand)
        if skel["what"] == "sequence":
            from bionumpy.genomic_data.genomic_sequence import GenomicSequence
            seqs = {nm: EncodedArray(ctx.arr([x[f"b{ci}_{p}"] for p in range(genome[nm])], "uint8"), bnp.DNAEncoding) for ci, nm in enumerate(names)}
            out = GenomicSequence.from_dict(seqs).extract_intervals(iv, stranded=True)
            return dict(rows=[ctx.lst(out[i].raw()) for i in range(m)])
        A = make_track(ctx, x, skel["runs"], genome, "a")
        if skel["what"] == "locations":
            from bionumpy.genomic_data.genomic_intervals import GenomicLocation
            g = bnp.Genome.from_dict(dict(genome))
            loc = g.get_locations(bnp.datatypes.LocationEntry(chroms, starts))
            vals = A.extract_locations(loc)
            return dict(values=ctx.lst(vals.to_array() if hasattr(vals, "to_array") else vals))
        rle = A.extract_intervals(iv, stranded=skel["what"] == "array_stranded")
        return dict(rows=[ctx.lst(rle[i].to_array()) for i in range(m)])

    def _dense(self, skel, x, val):
        from checks.C09 import GENOMES, dense_terms, dense_py
        genome = GENOMES[skel["genome"]]
        return genome, list(genome)

    def post(self, skel, x, out):
        if isinstance(out, Exc):
            return False
        from checks.C09 import GENOMES, dense_terms
        if skel["what"] == "sequence_fasta":
            comp = lambda t: z3.If(t == 65, 84, z3.If(t == 84, 65, z3.If(t == 67, 71, 67)))
            conj = []
            if len(out["rows"]) != len(skel["ivs"]):
                return False
            for i, c in enumerate(skel["ivs"]):
                col = [x[f"b{c}_{p}"].t for p in range(self.FASTA_RECORDS[c][0])]
                s_, e_, neg = x[f"s{i}"].t, x[f"e{i}"].t, x[f"neg{i}"].t == 1
                row = out["rows"][i]
                conj.append(e_ - s_ == len(row))
                for j in range(len(row)):
                    fwd = z3.IntVal(-1); rev = z3.IntVal(-1)
                    for p in range(len(col)):
                        fwd = z3.If(s_ + j == p, col[p], fwd)
                        rev = z3.If(e_ - 1 - j == p, comp(col[p]), rev)
                    conj.append(TI(row[j]) == z3.If(neg, rev, fwd))
            return z_and(conj)
        genome = GENOMES[skel["genome"]]
        names = list(genome)
        m = len(skel["ivs"])
        conj = []
        if skel["what"] == "sequence":
            dense = {nm: [x[f"b{ci}_{p}"].t for p in range(genome[nm])] for ci, nm in enumerate(names)}
        else:
            dense = dense_terms(x, skel["runs"], genome, "a")
        if skel["what"] == "locations":
            if len(out["values"]) != m:
                return False
            for i, c in enumerate(skel["ivs"]):
                col = dense[names[c]]
                exp = z3.IntVal(0)
                for p in range(len(col)):
                    exp = z3.If(x[f"s{i}"].t == p, col[p], exp)
                conj.append(TI(out["values"][i]) == exp)
            return z_and(conj)
        if len(out["rows"]) != m:
            return False
        stranded = skel["what"] in ("array_stranded", "sequence")
        for i, c in enumerate(skel["ivs"]):
            col = dense[names[c]]
            s, e, neg = x[f"s{i}"].t, x[f"e{i}"].t, x[f"neg{i}"].t == 1
            row = out["rows"][i]
            conj.append(e - s == len(row))
            for j in range(len(row)):
                fwd = z3.IntVal(-1); rev = z3.IntVal(-1)
                for p in range(len(col)):
                    fwd = z3.If(s + j == p, col[p], fwd)
                    rev = z3.If(e - 1 - j == p, (3 - col[p]) if skel["what"] == "sequence" else col[p], rev)
                conj.append(TI(row[j]) == (z3.If(neg, rev, fwd) if stranded else fwd))
        return z_and(conj)

    def oracle(self, skel, cx, cout):
        if isinstance(cout, Exc):
            return f"{skel}: raised {cout}"
        from checks.C09 import GENOMES, dense_py
        if skel["what"] == "sequence_fasta":
            from checks import C17
            cm = {65: 84, 84: 65, 67: 71, 71: 67}
            exp, wins = [], []
            for i, c in enumerate(skel["ivs"]):
                col = [cx[f"b{c}_{p}"] for p in range(self.FASTA_RECORDS[c][0])]
                sub = col[cx[f"s{i}"]:cx[f"e{i}"]]
                exp.append([cm[v] for v in reversed(sub)] if cx[f"neg{i}"] == 1 else sub)
                wins.append((C17.NAMES[c], cx[f"s{i}"], cx[f"e{i}"], "+-"[cx[f"neg{i}"]]))
            got = [[int(v) for v in r] for r in cout["rows"]]
            return None if got == exp else (f"sequence under {wins} read through an indexed FASTA with records {C17.NAMES} (genome order a, chr2, zz; b_1 ignored): "
                                            f"{[bytes(r).decode() for r in got]}, expected {[bytes(r).decode() for r in exp]}")
        genome = GENOMES[skel["genome"]]
        names = list(genome)
        m = len(skel["ivs"])
        if skel["what"] == "sequence":
            dense = {nm: [cx[f"b{ci}_{p}"] for p in range(genome[nm])] for ci, nm in enumerate(names)}
        else:
            dense = dense_py(cx, skel["runs"], genome, "a")
        ivs = [(names[c], cx[f"s{i}"], cx[f"e{i}"], "+-"[cx[f"neg{i}"]]) for i, c in enumerate(skel["ivs"])]
        if skel["what"] == "locations":
            exp = [dense[n][s] for n, s, e, st in ivs]
            return None if [int(v) for v in cout["values"]] == exp else f"values at locations {[(n, s) for n, s, e, st in ivs]} of {dense}: {cout['values']}, expected {exp}"
        exp = []
        for n, s, e, st in ivs:
            sub = dense[n][s:e]
            if st == "-" and skel["what"] in ("array_stranded", "sequence"):
                sub = [(3 - v) if skel["what"] == "sequence" else v for v in reversed(sub)]
            exp.append(sub)
        got = [[int(v) for v in r] for r in cout["rows"]]
        return None if got == exp else f"{skel['what']} under intervals {ivs} of per-chromosome data {dense}: {got}, expected {exp}"


class GeometryOps(Harness):
    """the Geometry helper (chromosome names given as text): mask, pileup, clip, sort, merge and stranded extension per chromosome"""
    name = "geometry"
    functions = ("Geometry.get_mask/get_pileup/clip/sort/merge_intervals/extend_to_size", "GlobalOffset.from_local_interval/to_local_interval")
    bounds = {"quick": "genome {chr1:3, chr2:2} and {chr1:2, chr10:1, chr2:3}; 1-2 intervals on chosen chromosomes (in genome order for merge) with "
                       "symbolic bounds, incl. an interval ending at a chromosome end followed by one starting at 0 of the next; merge distance 0-1",
              "thorough": "3 intervals"}

    def skeletons(self, tier, seed):
        out = []
        combos = {"g2": [[0], [1], [0, 0], [0, 1], [1, 1]], "g3": [[0, 2], [1, 2], [0, 1]]}
        if tier == "thorough":
            combos["g2"] += [[0, 0, 1], [0, 1, 1]]
            combos["g3"] += [[0, 1, 2]]
        for g, sets in combos.items():
            for ivs in sets:
                for op in ("mask", "pileup", "clip", "sort", "merge0", "merge1", "extend", "track"):
                    out.append(dict(genome=g, ivs=ivs, op=op))
                if len(ivs) == 2 and ivs[0] != ivs[1]:
                    out.append(dict(genome=g, ivs=ivs[::-1], op="sort"))
        # a genome whose order is not the string order of its names (chr1, chr2, chr10): sorting follows the genome
        for ivs in ([2, 1], [1, 2], [2, 0]) + (([2, 1, 0], [1, 2, 1]) if tier == "thorough" else ()):
            out.append(dict(genome="g3x", ivs=ivs, op="sort"))
        return out

    def inputs(self, skel, V):
        from checks.C09 import GENOMES as G9
        sizes = list(G9[skel["genome"]].values())
        for i, c in enumerate(skel["ivs"]):
            if skel["op"] == "clip":
                s = V.int(f"s{i}", -2, sizes[c] - 1); e = V.int(f"e{i}", 1, sizes[c] + 2)
            else:
                s = V.int(f"s{i}", 0, sizes[c] - 1); e = V.int(f"e{i}", 1, sizes[c])
            V.assume(s.t < e.t)
            if skel["op"] == "track":          # bedGraph records: values, sorted and non-overlapping within a chromosome
                V.int(f"v{i}", -3, 3)
                if i and skel["ivs"][i - 1] == c:
                    V.assume(s.t >= V.vars[f"e{i-1}"].t)
            if skel["op"] == "extend":
                V.int(f"neg{i}", 0, 1)
                if not i:
                    V.int("L", 1, max(sizes) + 1)
            if skel["op"].startswith("merge") and i and skel["ivs"][i - 1] == c:
                V.assume(s.t >= V.vars[f"s{i-1}"].t)        # precondition of merging: sorted by start within a chromosome

    def call(self, skel, x, ctx):
        from bionumpy.genomic_data.geometry import Geometry
        from bionumpy.datatypes import Interval
        from checks.C09 import GENOMES as G9
        genome = G9[skel["genome"]]
        names = list(genome)
        m = len(skel["ivs"])
        g = Geometry(dict(genome))
        iv = Interval([names[c] for c in skel["ivs"]], ctx.arr([x[f"s{i}"] for i in range(m)], "int64"), ctx.arr([x[f"e{i}"] for i in range(m)], "int64"))
        op = skel["op"]
        if op == "extend":
            from bionumpy.datatypes import StrandedInterval
            from bionumpy.encoded_array import EncodedArray
            from bionumpy.encodings import StrandEncoding
            siv = StrandedInterval(iv.chromosome, iv.start, iv.stop, EncodedArray(ctx.arr([x[f"neg{i}"] for i in range(m)], "uint8"), StrandEncoding))
            r = g.extend_to_size(siv, x["L"])
            return dict(rows=[[nm.to_string() for nm in r.chromosome], ctx.lst(r.start), ctx.lst(r.stop)], src=[ctx.lst(siv.start), ctx.lst(siv.stop)])
        if op == "track":
            from bionumpy.datatypes import BedGraph
            r = g.get_track(BedGraph(iv.chromosome, iv.start, iv.stop, ctx.arr([x[f"v{i}"] for i in range(m)], "int64")))
            return dict(dense={k: ctx.lst(v) for k, v in r.to_dict().items()})
        if op in ("mask", "pileup"):
            r = g.get_mask(iv) if op == "mask" else g.get_pileup(iv)
            return dict(dense={k: ctx.lst(v) for k, v in r.to_dict().items()})
        r = g.clip(iv) if op == "clip" else (g.sort(iv) if op == "sort" else g.merge_intervals(iv, int(op[-1])))
        return dict(rows=[[nm.to_string() for nm in r.chromosome], ctx.lst(r.start), ctx.lst(r.stop)])

    def _merge_model(self, skel, get, z):
        """definitional merge per chromosome for up to 3 sorted intervals: list of (chrom index, [member indices] alternatives)"""
        return None

    def post(self, skel, x, out):
        if isinstance(out, Exc):
            return False
        from checks.C09 import GENOMES as G9
        genome = G9[skel["genome"]]
        names = list(genome)
        sizes = list(genome.values())
        ivs, m, op = skel["ivs"], len(skel["ivs"]), skel["op"]
        S = [x[f"s{i}"].t for i in range(m)]
        E = [x[f"e{i}"].t for i in range(m)]
        conj = []
        if op in ("mask", "pileup", "track"):
            if list(out["dense"]) != names:
                return False
            for ci, nm in enumerate(names):
                col = out["dense"][nm]
                if len(col) != sizes[ci]:
                    return False
                for p in range(sizes[ci]):
                    cov = [z3.And(S[i] <= p, p < E[i]) for i in range(m) if ivs[i] == ci]
                    if op == "mask":
                        conj.append(TB(col[p]) == z_or(cov))
                    elif op == "track":
                        val = z3.IntVal(0)
                        for i in range(m):
                            if ivs[i] == ci:
                                val = z3.If(z3.And(S[i] <= p, p < E[i]), x[f"v{i}"].t, val)
                        conj.append(TI(col[p]) == val)
                    else:
                        conj.append(TI(col[p]) == sum([z3.If(c, 1, 0) for c in cov], z3.IntVal(0)))
            return z_and(conj)
        chroms, starts, stops = out["rows"]
        if op == "extend":
            if chroms != [names[c] for c in ivs] or len(starts) != m or len(stops) != m:
                return False
            L = x["L"].t
            for i, c in enumerate(ivs):
                neg = x[f"neg{i}"].t == 1
                conj.append(TI(starts[i]) == z3.If(neg, z3.If(E[i] - L > 0, E[i] - L, 0), S[i]))
                conj.append(TI(stops[i]) == z3.If(neg, E[i], z3.If(S[i] + L < sizes[c], S[i] + L, sizes[c])))
                conj += [TI(out["src"][0][i]) == S[i], TI(out["src"][1][i]) == E[i]]
            return z_and(conj)
        if op == "clip":
            if chroms != [names[c] for c in ivs]:
                return False
            for i, c in enumerate(ivs):
                conj.append(TI(starts[i]) == z3.If(S[i] < 0, 0, S[i]))
                conj.append(TI(stops[i]) == z3.If(E[i] > sizes[c], sizes[c], E[i]))
            return z_and(conj)
        if op == "sort":
            if len(chroms) != m or sorted(chroms, key=names.index) != chroms:
                return False
            # per chromosome: the same intervals, by non-decreasing start
            for ci, nm in enumerate(names):
                src = [i for i in range(m) if ivs[i] == ci]
                got = [j for j in range(m) if chroms[j] == nm]
                if len(src) != len(got):
                    return False
                if len(src) == 1:
                    conj += [TI(starts[got[0]]) == S[src[0]], TI(stops[got[0]]) == E[src[0]]]
                elif len(src) == 2:
                    a, b = src
                    same = z3.And(TI(starts[got[0]]) == S[a], TI(stops[got[0]]) == E[a], TI(starts[got[1]]) == S[b], TI(stops[got[1]]) == E[b])
                    swap = z3.And(TI(starts[got[0]]) == S[b], TI(stops[got[0]]) == E[b], TI(starts[got[1]]) == S[a], TI(stops[got[1]]) == E[a])
                    conj += [z3.Or(same, swap), TI(starts[got[0]]) <= TI(starts[got[1]])]
                elif len(src) > 2:
                    return False
            return z_and(conj)
        # merge: per chromosome, neighbours (sorted by start) are joined iff next.start <= running stop + d
        d = int(op[-1])
        exp = []           # list of alternatives handled by forking on the concrete number of output rows per chromosome
        pos = 0
        for ci, nm in enumerate(names):
            src = [i for i in range(m) if ivs[i] == ci]
            k = len([c for c in chroms if c == nm])
            got = list(range(pos, pos + k)); pos += k
            if not src:
                if k:
                    return False
                continue
            if len(src) == 1:
                if k != 1:
                    return False
                conj += [TI(starts[got[0]]) == S[src[0]], TI(stops[got[0]]) == E[src[0]]]
            elif len(src) == 2:
                a, b = src
                joined = S[b] <= E[a] + d
                if k == 1:
                    conj += [joined, TI(starts[got[0]]) == S[a], TI(stops[got[0]]) == z3.If(E[b] > E[a], E[b], E[a])]
                elif k == 2:
                    conj += [z3.Not(joined), TI(starts[got[0]]) == S[a], TI(stops[got[0]]) == E[a], TI(starts[got[1]]) == S[b], TI(stops[got[1]]) == E[b]]
                else:
                    return False
            else:
                return False
        if pos != len(chroms):
            return False
        return z_and(conj)

    def oracle(self, skel, cx, cout):
        from checks.C09 import GENOMES as G9
        genome = G9[skel["genome"]]
        names = list(genome)
        sizes = list(genome.values())
        ivs, m, op = skel["ivs"], len(skel["ivs"]), skel["op"]
        I = [(names[c], cx[f"s{i}"], cx[f"e{i}"]) for i, c in enumerate(ivs)]
        if isinstance(cout, Exc):
            return f"Geometry({genome}).{op} on {I} raised {cout}"
        if op == "track":
            exp = {nm: [sum(cx[f"v{i}"] for i, (n2, s, e) in enumerate(I) if n2 == nm and s <= p < e) for p in range(sizes[ci])] for ci, nm in enumerate(names)}
            got = {k: [int(v) for v in col] for k, col in cout["dense"].items()}
            recs = [t + (cx[f"v{i}"],) for i, t in enumerate(I)]
            return None if got == exp else f"Geometry({genome}).get_track of bedGraph records {recs}: {got}, expected {exp}"
        if op in ("mask", "pileup"):
            exp = {nm: [sum(1 for n2, s, e in I if n2 == nm and s <= p < e) for p in range(sizes[ci])] for ci, nm in enumerate(names)}
            if op == "mask":
                exp = {k: [v > 0 for v in col] for k, col in exp.items()}
            got = {k: [(bool(v) if op == "mask" else int(v)) for v in col] for k, col in cout["dense"].items()}
            return None if got == exp else f"Geometry.{op} of {I}: {got}, expected {exp}"
        got = list(zip(cout["rows"][0], [int(v) for v in cout["rows"][1]], [int(v) for v in cout["rows"][2]]))
        if op == "extend":
            L = cx["L"]
            exp = [(n, max(e - L, 0), e) if cx[f"neg{i}"] == 1 else (n, s, min(s + L, genome[n])) for i, (n, s, e) in enumerate(I)]
            if got != exp:
                return f"Geometry({genome}).extend_to_size of {[(t, '+-'[cx[f'neg{i}']]) for i, t in enumerate(I)]} to {L}: {got}, expected {exp}"
            return None
        if op == "clip":
            exp = [(n, max(s, 0), min(e, genome[n])) for n, s, e in I]
        elif op == "sort":
            exp = sorted(I, key=lambda t: (names.index(t[0]), t[1]))
            if sorted(got) == sorted(exp) and [g[:2] for g in got] == [e[:2] for e in exp]:
                return None
        else:
            d = int(op[-1])
            exp = []
            for nm in names:
                cur = None
                for n2, s, e in I:
                    if n2 != nm:
                        continue
                    if cur is not None and s <= cur[2] + d:
                        cur = (nm, cur[1], max(cur[2], e))
                    else:
                        if cur is not None:
                            exp.append(cur)
                        cur = (nm, s, e)
                if cur is not None:
                    exp.append(cur)
        return None if got == exp else f"Geometry({genome}).{op} of {I}: {got}, expected {exp}"


class MapLocations(Harness):
    """locations mapped into intervals (GenomicIntervals.map_locations / coordinate_mapping.find_indices): a location belongs to an
    interval iff it is on the interval's chromosome and start <= position < stop; never a location of the neighbouring chromosome"""
    name = "map_locations"
    functions = ("GenomicIntervals.map_locations", "coordinate_mapping.find_indices", "GlobalOffset.from_local_interval/from_local_coordinates")
    assumptions = ("locations sorted in genome order (searchsorted precondition)",)
    bounds = {"quick": "genomes {chr1:3,chr10:2} and {chr1:2,chr10:1,chr2:3}; 1-2 intervals and 1-3 locations on chosen chromosomes (incl. an interval "
                       "ending at a chromosome end with a location at 0 of the next chromosome); symbolic start/stop/position",
              "thorough": "3 intervals, 4 locations"}

    def skeletons(self, tier, seed):
        out = []
        combos = {"g2": [([0], [0]), ([0], [0, 1]), ([1], [0, 1]), ([0, 1], [0, 1]), ([0, 0], [0, 0, 1]), ([1, 0], [0, 1, 1])],
                  "g3": [([0], [0, 1, 2]), ([1], [0, 1, 2]), ([0, 2], [1, 2]), ([2, 1], [0, 2, 2])]}
        if tier == "thorough":
            combos["g2"] += [([0, 1, 0], [0, 0, 1, 1]), ([0, 0, 1], [0, 1, 1])]
            combos["g3"] += [([0, 1, 2], [0, 1, 2, 2]), ([2, 0, 1], [0, 0, 1, 2])]
        for g, sets in combos.items():
            for ivs, locs in sets:
                out.append(dict(genome=g, ivs=ivs, locs=locs))
        return out

    def inputs(self, skel, V):
        from checks.C09 import GENOMES as G9
        sizes = list(G9[skel["genome"]].values())
        for i, c in enumerate(skel["ivs"]):
            s = V.int(f"s{i}", 0, sizes[c]); e = V.int(f"e{i}", 0, sizes[c])
            V.assume(s.t < e.t)
        for j, c in enumerate(skel["locs"]):
            p_ = V.int(f"p{j}", 0, sizes[c] - 1)
            if j and skel["locs"][j - 1] == c:
                V.assume(V.vars[f"p{j-1}"].t <= p_.t)

    def call(self, skel, x, ctx):
        import bionumpy as bnp
        from checks.C09 import GENOMES as G9
        from bionumpy.datatypes import Interval, LocationEntry
        genome = G9[skel["genome"]]
        names = list(genome)
        g = bnp.Genome.from_dict(dict(genome))
        n, m = len(skel["ivs"]), len(skel["locs"])
        iv = Interval([names[c] for c in skel["ivs"]], ctx.arr([x[f"s{i}"] for i in range(n)], "int64"),
                      ctx.arr([x[f"e{i}"] for i in range(n)], "int64"))
        gi = g.get_intervals(iv)
        loc = LocationEntry([names[c] for c in skel["locs"]], ctx.arr([x[f"p{j}"] for j in range(m)], "int64"))
        r = gi.map_locations(loc)
        return dict(chrom=[str(v) for v in r.chromosome.tolist()], pos=ctx.lst(r.position))

    def post(self, skel, x, out):
        if isinstance(out, Exc):
            return False
        K = len(out["pos"])
        if len(out["chrom"]) != K:
            return False
        pairs = []          # in output order: interval by interval, its locations in order
        for i, ci in enumerate(skel["ivs"]):
            for j, cj in enumerate(skel["locs"]):
                if ci != cj:
                    continue
                inside = z3.And(x[f"s{i}"].t <= x[f"p{j}"].t, x[f"p{j}"].t < x[f"e{i}"].t)
                pairs.append((i, inside, x[f"p{j}"].t - x[f"s{i}"].t))
        cnt = lambda ps: z3.Sum([z3.If(ins, 1, 0) for _, ins, _ in ps]) if ps else z3.IntVal(0)
        conds = [cnt(pairs) == K]
        for q, (i, ins, rel) in enumerate(pairs):
            rank = cnt(pairs[:q])
            conds.append(z3.Implies(ins, z_or([z3.And(rank == k, TI(out["pos"][k]) == rel) for k in range(K) if out["chrom"][k] == str(i)])))
        return z_and(conds)

    def oracle(self, skel, cx, cout):
        if isinstance(cout, Exc):
            return f"map_locations raised {cout!r}"
        from checks.C09 import GENOMES as G9
        names = list(G9[skel["genome"]])
        exp = [(str(i), cx[f"p{j}"] - cx[f"s{i}"]) for i, ci in enumerate(skel["ivs"]) for j, cj in enumerate(skel["locs"])
               if ci == cj and cx[f"s{i}"] <= cx[f"p{j}"] < cx[f"e{i}"]]
        got = list(zip(cout["chrom"], [int(v) for v in cout["pos"]]))
        if got == exp:
            return None
        ivs = [(names[c], cx[f"s{i}"], cx[f"e{i}"]) for i, c in enumerate(skel["ivs"])]
        locs = [(names[c], cx[f"p{j}"]) for j, c in enumerate(skel["locs"])]
        return f"map_locations of {locs} into intervals {ivs}: (interval, relative position) = {got}, expected {exp}"



class TrackByName(Harness):
    """track[chromosome name]: the values of that chromosome of THIS track, also when a track over another genome with the same
    chromosome names (other sizes) was indexed by name earlier in the process"""
    name = "track_by_name"
    functions = ("GenomicArrayGlobal.__getitem__(str)/extract_chromsome", "GlobalOffset.get_offset/get_size")
    bounds = {"quick": "genomes {chr1:3,chr2:2} and {chr1:2,chr10:1,chr2:3}; 1-2 bedGraph records with symbolic boundaries and values; with and "
                       "without a prior genome {chr1:5, chr2:4, chr10:2} whose track was indexed by every name",
              "thorough": "3 records"}

    def skeletons(self, tier, seed):
        out = []
        for g, runsets in (("g2", [[0], [0, 1], [1, 1]]), ("g3", [[0, 2], [1]])):
            for runs in runsets + ([[0, 0, 1]] if tier == "thorough" and g == "g2" else []):
                for prior in (False, True):
                    out.append(dict(genome=g, runs=runs, prior=prior))
        # track[locations]: the value at each location, the locations given in reverse genome order
        for g, runs in (("g2", [0, 1]), ("g2", [1, 1]), ("g3", [0, 2])):
            out.append(dict(genome=g, runs=runs, prior=False, locations=True))
        # the array assembled from a dict of per-chromosome arrays whose key order is / is not the genome order
        for g in ("g2", "g3"):
            for order in ("genome", "reversed"):
                out.append(dict(genome=g, from_dict=order))
                out.append(dict(genome=g, from_dict=order, streamed=True))      # the class that holds one chromosome at a time
        return out

    def inputs(self, skel, V):
        from checks.C09 import GENOMES as G9, declare_track
        if skel.get("from_dict"):
            for nm, size in G9[skel["genome"]].items():
                for p in range(size):
                    V.int(f"d_{nm}_{p}", 0, 2)
            return
        declare_track(V, skel["runs"], list(G9[skel["genome"]].values()), "a")

    def call(self, skel, x, ctx):
        import bionumpy as bnp
        from bionumpy.datatypes import BedGraph
        from checks.C09 import GENOMES as G9, make_track
        genome = G9[skel["genome"]]
        if skel.get("from_dict"):
            from bionumpy.arithmetics.intervals import GenomicRunLengthArray
            from bionumpy.genomic_data.genomic_track import GenomicArrayGlobal
            names = list(genome)[::-1] if skel["from_dict"] == "reversed" else list(genome)
            d = {nm: GenomicRunLengthArray.from_array(ctx.arr([x[f"d_{nm}_{p}"] for p in range(genome[nm])], "int64")) for nm in names}
            if skel.get("streamed"):
                from bionumpy.genomic_data.genomic_track import GenomicArrayNode
                from bionumpy.computation_graph import compute
                A = GenomicArrayNode.from_dict(d, bnp.Genome.from_dict(dict(genome))._genome_context)
                bg = compute(A.get_data())
                dense = {nm: [None] * genome[nm] for nm in genome}
                for nm_, a_, b_, v_ in zip(bg.chromosome, ctx.lst(bg.start), ctx.lst(bg.stop), ctx.lst(bg.value)):
                    for p_ in range(int(a_), int(b_)):
                        dense[nm_.to_string()][p_] = v_
                return dict(dense=dense)
            A = GenomicArrayGlobal.from_dict(d, bnp.Genome.from_dict(dict(genome))._genome_context)
            return dict(dense={nm: ctx.lst(v) for nm, v in A.to_dict().items()})
        if skel["prior"]:
            other = bnp.Genome.from_dict({"chr1": 5, "chr2": 4, "chr10": 2})
            t0 = other.get_track(BedGraph(["chr1", "chr2", "chr10"], [1, 0, 0], [5, 3, 2], [7, 8, 9]))
            seen = {nm: t0[nm].to_array().tolist() for nm in ("chr1", "chr2", "chr10")}
            assert seen == {"chr1": [0, 7, 7, 7, 7], "chr2": [8, 8, 8, 0], "chr10": [9, 9]}, seen
        A = make_track(ctx, x, skel["runs"], genome, "a")
        if skel.get("locations"):
            from bionumpy.datatypes import LocationEntry
            where = [(nm, p) for nm in genome for p in range(genome[nm])][::-1]
            locations = bnp.Genome.from_dict(dict(genome)).get_locations(LocationEntry([nm for nm, _ in where], [p for _, p in where]))
            values = ctx.lst(A[locations])[::-1]
            dense, k = {}, 0
            for nm in genome:
                dense[nm] = values[k:k + genome[nm]]
                k += genome[nm]
            return dict(dense=dense)
        return dict(dense={nm: ctx.lst(A[nm].to_array()) for nm in genome})

    def post(self, skel, x, out):
        if isinstance(out, Exc):
            return False
        from checks.C09 import GENOMES as G9, dense_terms
        genome = G9[skel["genome"]]
        exp = {nm: [x[f"d_{nm}_{p}"].t for p in range(genome[nm])] for nm in genome} if skel.get("from_dict") else dense_terms(x, skel["runs"], genome, "a")
        if list(out["dense"]) != list(genome):
            return False
        conj = []
        for nm in genome:
            if len(out["dense"][nm]) != genome[nm]:
                return False
            conj += [TI(g) == e for g, e in zip(out["dense"][nm], exp[nm])]
        return z_and(conj)

    def oracle(self, skel, cx, cout):
        if isinstance(cout, Exc):
            return f"track[{'locations' if skel.get('locations') else 'name'}] raised {cout}"
        from checks.C09 import GENOMES as G9, dense_py
        genome = G9[skel["genome"]]
        if skel.get("from_dict"):
            exp = {nm: [cx[f"d_{nm}_{p}"] for p in range(genome[nm])] for nm in genome}
            got = {nm: [int(v) for v in col] for nm, col in cout["dense"].items()}
            return None if got == exp else (f"GenomicArray.from_dict on genome {genome} from per-chromosome arrays given in {skel['from_dict']} key order: "
                                            f"{got}, the arrays are {exp}")
        exp = dense_py(cx, skel["runs"], genome, "a")
        got = {nm: [int(v) for v in col] for nm, col in cout["dense"].items()}
        return None if got == exp else (f"track over {genome}{' (after a track over another genome with the same names was indexed by name)' if skel['prior'] else ''}: "
                                        f"track[{'locations, every position' if skel.get('locations') else 'name'}] = {got}, the chromosomes' values are {exp}")


from checks.C11 import Pipelines as _Pipelines, chunkings as _chunkings


class StreamedChromosomes(_Pipelines):
    """the same whole-genome results evaluated chromosome by chromosome (streamed intervals): chromosomes without entries -- before, between
    and after the others -- still get their (empty) per-chromosome result (the C11 pipeline harness under its C10 name, on these layouts)"""
    name = "streamed_chromosomes"
    bounds = {"quick": "genome {chr1:2, chr10:1, chr2:3} and {chr1:3, chr2:2}; 2 sorted intervals placed so that the first, the middle or the LAST "
                       "chromosome(s) have no entries; symbolic coordinates; both chunkings; pileup and mask records",
              "thorough": "3 intervals, all 4 chunkings"}

    def skeletons(self, tier, seed):
        n = 2 if tier == "quick" else 3
        assign = {"g3": [[0, 0], [1, 1], [2, 2], [0, 2], [0, 1]], "g2": [[0, 0], [1, 1]]}
        if tier == "thorough":
            assign = {"g3": [[0, 0, 0], [1, 1, 1], [2, 2, 2], [0, 2, 2], [0, 0, 1]], "g2": [[0, 0, 0], [1, 1, 1]]}
        return [dict(genome=g, chroms=c, chunks=ch, what=what) for g, sets in assign.items() for c in sets for ch in _chunkings(n)
                for what in ("pileup", "mask")]


HARNESSES = [Coords(), GenomeOps(), Binned(), ValuesUnderIntervals(), GeometryOps(), MapLocations(), TrackByName(), StreamedChromosomes()]
