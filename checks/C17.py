"""C17 -- indexed FASTA random access agrees with the file."""
import itertools
import os
import tempfile
import z3
from vlib.harness import Harness, Exc
from vlib.zutil import TI, TB, z_and, z_or

NAMES = ["a", "chr2", "b_1", "zz"]


def layout(skel):
    """file layout from the skeleton: list of records (name, rlen, width); returns content template where bases are
    ('b', record, pos) markers, plus the true index rows"""
    nl = [13, 10] if skel.get("crlf") else [10]
    content, rows, off = [], [], 0
    for r, (rlen, width) in enumerate(skel["records"]):
        name = NAMES[r]
        head = [ord(">")] + [ord(c) for c in name] + (list(b" desc") if skel.get("desc") and r == 0 else []) + nl
        content += head
        off += len(head)
        rows.append(dict(name=name, rlen=rlen, offset=off, lenc=min(width, rlen), lenb=min(width, rlen) + len(nl)))
        for p in range(rlen):
            content.append(("b", r, p))
            off += 1
            if (p + 1) % width == 0 or p == rlen - 1:
                if not (p == rlen - 1 and r == len(skel["records"]) - 1 and skel.get("no_final_newline")):
                    content += nl
                    off += len(nl)
    return content, rows


def fill(content, x):
    return [x[f"b{c[1]}_{c[2]}"] if isinstance(c, tuple) else c for c in content]


def declare_bases(skel, V):
    for r, (rlen, width) in enumerate(skel["records"]):
        for p in range(rlen):
            V.int(f"b{r}_{p}", 65, 122)      # letters (upper/lower) and a few punctuation bytes; never '>' or newline


class BuildIndex(Harness):
    """create_index: (name, true length, byte offset of first base, bases per line, bytes per line) for every record"""
    name = "create_index"
    functions = ("indexed_fasta.create_index", "FastaIdxBuffer.get_data", "MultiLineFastaBuffer.from_raw_buffer",
                 "NumpyFileReader.read_chunk(s)")
    stubs = ("bnp_open replaced by a reader over the in-memory file (SymFile)",)
    bounds = {"quick": "1-2 records, length 1-5, line width 1-3, LF/CRLF, whole-file read and 2-3 chunk sizes that split the records",
              "thorough": "1-3 records, length 1-7, width 1-4"}

    def skeletons(self, tier, seed):
        out = []
        if tier == "quick":
            recs = [[(1, 1)], [(3, 2)], [(4, 2)], [(5, 3)], [(2, 3)], [(3, 1), (2, 2)], [(4, 2), (5, 3)], [(2, 2), (1, 3)]]
        else:
            recs = [[(l, w)] for l in range(1, 8) for w in range(1, 5)] + \
                   [[(3, 1), (2, 2)], [(4, 2), (5, 3)], [(2, 2), (1, 3)], [(6, 3), (6, 4)], [(7, 2), (1, 1), (4, 4)], [(4, 4), (3, 3), (2, 2)]]
        for rs in recs:
            for crlf in (False, True):
                out.append(dict(records=[list(r) for r in rs], crlf=crlf, chunk=None, desc=crlf))
                if tier == "thorough" or len(rs) > 1 or rs[0] in ((1, 1), (4, 2), (5, 3)):     # the file ends with the last base
                    out.append(dict(records=[list(r) for r in rs], crlf=crlf, chunk=None, desc=False, no_final_newline=True))
            if len(rs) > 1:
                size = len(layout(dict(records=rs))[0])
                first = len(layout(dict(records=rs[:1]))[0])
                for ch in sorted({first + 1, first + 3, size - 1}):
                    out.append(dict(records=[list(r) for r in rs], crlf=False, chunk=ch))
        return out

    def inputs(self, skel, V):
        declare_bases(skel, V)

    def call(self, skel, x, ctx):
        import bionumpy.io.indexed_fasta as ifa
        from bionumpy.io.parser import NumpyFileReader
        from bionumpy.io.npdataclassreader import NpDataclassReader
        content = fill(layout(skel)[0], x)
        f = ctx.file(content)
        chunk = skel.get("chunk")

        class R:
            def __init__(self, reader):
                self.r = reader

            def read_chunks(self, *a, **k):
                return self.r.read_chunks(chunk) if chunk else self.r.read_chunks()
        old = ifa.bnp_open
        ifa.bnp_open = lambda filename, buffer_type=None: R(NpDataclassReader(NumpyFileReader(f, buffer_type)))
        try:
            idx = ifa.create_index("mem.fa")
        finally:
            ifa.bnp_open = old
        return dict(names=idx.chromosome.tolist(), length=ctx.lst(idx.length), start=ctx.lst(idx.start),
                    lenc=ctx.lst(idx.characters_per_line), lenb=ctx.lst(idx.line_length))

    def _expected(self, skel):
        _, rows = layout(skel)
        names = [r["name"] for r in rows]      # the name of a record is its header up to the first white space (a description is not part of it)
        return dict(names=names, length=[r["rlen"] for r in rows], start=[r["offset"] for r in rows],
                    lenc=[r["lenc"] for r in rows], lenb=[r["lenb"] for r in rows])

    def post(self, skel, x, out):
        if isinstance(out, Exc):
            # a chunk size too small to hold one record may raise
            return skel.get("chunk") is not None and out.type in ("RuntimeError", "Exception")
        exp = self._expected(skel)
        if out["names"] != exp["names"]:
            return False
        conj = []
        for k in ("length", "start", "lenc", "lenb"):
            if len(out[k]) != len(exp[k]):
                return False
            conj += [TI(a) == b for i, (a, b) in enumerate(zip(out[k], exp[k])) if not (k == "lenb" and i in self._free_lenb(skel))]
        return z_and(conj)

    @staticmethod
    def _free_lenb(skel):
        """a one-line record that ends the file without a line break has no observable bytes-per-line (faidx tools differ; the value is
        never used to address a base of a one-line record): it is left unconstrained"""
        rlen, width = skel["records"][-1]
        return {len(skel["records"]) - 1} if skel.get("no_final_newline") and rlen <= width else set()

    def oracle(self, skel, cx, cout):
        if isinstance(cout, Exc):
            if skel.get("chunk") is not None and cout.type in ("RuntimeError", "Exception"):
                return None
            return f"raised {cout}"
        exp = self._expected(skel)
        for i in self._free_lenb(skel):
            if isinstance(cout.get("lenb"), list) and len(cout["lenb"]) == len(exp["lenb"]):
                exp["lenb"][i] = cout["lenb"][i]
        return None if cout == exp else f"create_index (records (len,width)={skel['records']}, crlf={skel['crlf']}, chunk={skel.get('chunk')}) = {cout}, expected {exp}"


class Fetch(Harness):
    """IndexedFasta: contig lengths, whole contigs and interval sequences equal the file's sequences"""
    name = "fetch"
    functions = ("IndexedFasta.__init__/get_contig_lengths/__getitem__/get_interval_sequences/_get_interval_sequences_fast",
                 "read_index")
    stubs = ("indexed_fasta.open returns the in-memory FASTA (SymFile) for the data file; the faidx file is a real temporary file",)
    bounds = {"quick": "1-2 records, length 1-5, width 1-3, LF/CRLF; 1-2 intervals with every 0<=a<b<=length (symbolic), "
                       "plain-name path and StringEncoding fast path",
              "thorough": "length up to 7, width up to 4, up to 3 records; files with and without a final newline"}

    def skeletons(self, tier, seed):
        out = []
        if tier == "quick":
            recs = [[(1, 1)], [(4, 2)], [(5, 3)], [(5, 2)], [(3, 1), (4, 3)], [(4, 2), (2, 2)],
                    [(3, 3), (2, 3)], [(2, 2), (2, 2), (1, 2)]]         # single-line records followed by records that are not longer
        else:
            recs = [[(l, w)] for l in (1, 2, 3, 5, 6, 7) for w in (1, 2, 3, 4)] + [[(3, 1), (4, 3)], [(4, 2), (2, 2)], [(7, 3), (6, 2), (1, 1)],
                                                                                     [(3, 3), (2, 3)], [(2, 2), (2, 2), (1, 2)], [(4, 4), (4, 4), (3, 4)]]
        for rs in recs:
            for crlf in (False, True):
                for mode in ("whole", "plain", "fast"):
                    if mode == "whole":
                        out.append(dict(records=[list(r) for r in rs], crlf=crlf, mode=mode, targets=[]))
                        if not crlf and rs in recs[1:4]:
                            out.append(dict(records=[list(r) for r in rs], crlf=crlf, mode=mode, targets=[], reopened=True))
                        continue
                    tg = [[0], [len(rs) - 1, 0]] if len(rs) > 1 else [[0], [0, 0]]
                    for t in tg:
                        if tier == "quick" and len(t) == 2 and rs[0][0] > 4:
                            continue
                        out.append(dict(records=[list(r) for r in rs], crlf=crlf, mode=mode, targets=t))
                        if not crlf and rs in recs[1:4]:
                            out.append(dict(records=[list(r) for r in rs], crlf=crlf, mode=mode, targets=t, reopened=True))
                        if t[0] == len(rs) - 1 and (tier == "thorough" or not crlf):    # last record fetched from a file without a final newline
                            out.append(dict(records=[list(r) for r in rs], crlf=crlf, mode=mode, targets=t, no_final_newline=True))
        return out

    def inputs(self, skel, V):
        declare_bases(skel, V)
        for i, r in enumerate(skel["targets"]):
            rlen = skel["records"][r][0]
            a = V.int(f"a{i}", 0, rlen - 1); b = V.int(f"e{i}", 1, rlen)
            V.assume(a.t < b.t)

    def call(self, skel, x, ctx):
        import bionumpy.io.indexed_fasta as ifa
        from bionumpy.datatypes import Interval
        content, rows = layout(skel)
        data = fill(content, x)
        d = tempfile.mkdtemp(prefix="c17_")
        fa = os.path.join(d, "mem.fa")
        with open(fa + ".fai", "w") as fh:
            for r in rows:
                fh.write(f"{r['name']}\t{r['rlen']}\t{r['offset']}\t{r['lenc']}\t{r['lenb']}\n")
        real_open = open
        fobj = ctx.file(data)
        ifa.open = lambda fn, mode="r", *a, **k: fobj if str(fn) == fa and "b" in mode else real_open(fn, mode, *a, **k)
        try:
            if skel.get("reopened"):
                # history: the same path held another FASTA (longer records, other offsets) that was opened earlier in this process;
                # the file and its index were then replaced
                with open(fa + ".fai", "w") as fh:
                    for r in rows:
                        fh.write(f"{r['name']}\t{r['rlen'] + 1}\t{r['offset'] + 3}\t{r['lenc'] + 1}\t{r['lenb'] + 1}\n")
                ifa.IndexedFasta(fa).get_contig_lengths()
                with open(fa + ".fai", "w") as fh:
                    for r in rows:
                        fh.write(f"{r['name']}\t{r['rlen']}\t{r['offset']}\t{r['lenc']}\t{r['lenb']}\n")
            ix = ifa.IndexedFasta(fa)
            res = dict(lengths=ix.get_contig_lengths())
            if skel["mode"] == "whole":
                kept = {r["name"]: ix[r["name"]] for r in rows}       # all contigs are fetched (and kept) before any is looked at
                res["seqs"] = {nm: ctx.lst(v.raw()) for nm, v in kept.items()}
                return res
            names = [rows[r]["name"] for r in skel["targets"]]
            m = len(names)
            starts = ctx.arr([x[f"a{i}"] for i in range(m)], "int64")
            stops = ctx.arr([x[f"e{i}"] for i in range(m)], "int64")
            if skel["mode"] == "fast":
                from bionumpy.encodings.string_encodings import StringEncoding
                from bionumpy.encoded_array import as_encoded_array
                enc = StringEncoding([r["name"] for r in rows][::-1])        # label order differs from file order
                chrom = as_encoded_array(names, enc)
            else:
                chrom = names
            seqs = ix.get_interval_sequences(Interval(chrom, starts, stops))
            res["rows"] = ctx.lst(seqs)
            return res
        finally:
            del ifa.open
            try:
                os.unlink(fa + ".fai"); os.rmdir(d)
            except OSError:
                pass

    def post(self, skel, x, out):
        if isinstance(out, Exc):
            return False
        _, rows = layout(skel)
        if out["lengths"] != {r["name"]: r["rlen"] for r in rows}:
            return False
        conj = []
        if skel["mode"] == "whole":
            for ri, r in enumerate(rows):
                s = out["seqs"].get(r["name"])
                if s is None or len(s) != r["rlen"]:
                    return False
                conj += [TI(s[p]) == x[f"b{ri}_{p}"].t for p in range(r["rlen"])]
            return z_and(conj)
        if len(out["rows"]) != len(skel["targets"]):
            return False
        for i, ri in enumerate(skel["targets"]):
            a, b = x[f"a{i}"].t, x[f"e{i}"].t
            row = out["rows"][i]
            conj.append(b - a == len(row))
            for j in range(len(row)):
                t = z3.IntVal(-1)
                for p in range(rows[ri]["rlen"]):
                    t = z3.If(a + j == p, x[f"b{ri}_{p}"].t, t)
                conj.append(TI(row[j]) == t)
        return z_and(conj)

    def oracle(self, skel, cx, cout):
        if isinstance(cout, Exc):
            return f"raised {cout}"
        _, rows = layout(skel)
        truth = {r["name"]: r["rlen"] for r in rows}
        if cout["lengths"] != truth:
            return f"get_contig_lengths() = {cout['lengths']}, true sequence lengths {truth}"
        seq = lambda ri: [cx[f"b{ri}_{p}"] for p in range(rows[ri]["rlen"])]
        if skel["mode"] == "whole":
            exp = {r["name"]: seq(ri) for ri, r in enumerate(rows)}
            return None if cout["seqs"] == exp else f"whole contig fetch {cout['seqs']} != {exp}"
        exp = [seq(ri)[cx[f"a{i}"]:cx[f"e{i}"]] for i, ri in enumerate(skel["targets"])]
        if cout["rows"] != exp:
            iv = [(rows[ri]["name"], cx[f"a{i}"], cx[f"e{i}"]) for i, ri in enumerate(skel["targets"])]
            return (f"get_interval_sequences({iv}) [{skel['mode']} path, records (len,width)={skel['records']}, crlf={skel['crlf']}] = "
                    f"{[bytes(r).decode('latin1') for r in cout['rows']]}, expected {[bytes(r).decode('latin1') for r in exp]}")
        return None



def _genome_sequence_harness():
    from checks.C10 import ValuesUnderIntervals

    class GenomeSequence(ValuesUnderIntervals):
        """Genome.read_sequence()[intervals] over an indexed FASTA (GenomicSequenceIndexedFasta): every interval gets its own bases, in the order
        of the request, whatever the order of the request relative to the file and the genome (the C10 harness under its C17 name)"""
        name = "genome_sequence"
        bounds = {"quick": "indexed FASTA with records a, chr2, b_1 (ignored by the genome), zz; 2-3 stranded intervals requested in orders that are a "
                           "swap, a 3-cycle and a repetition of the genome order; symbolic bounds, strands and bases",
                  "thorough": "all orders of 3 intervals over the three genome contigs"}

        def skeletons(self, tier, seed):
            orders = [[3, 0, 1], [1, 3, 0], [0, 0, 3], [3, 1]]
            if tier == "thorough":
                orders += [[0, 1, 3], [0, 3, 1], [1, 0, 3], [3, 1, 0], [3, 3, 0]]
            return [dict(genome="fasta", ivs=o, what="sequence_fasta") for o in orders]
    return GenomeSequence()


HARNESSES = [BuildIndex(), Fetch(), _genome_sequence_harness()]


def prelude(tier):
    """File-level wiring.  The symbolic harnesses drive create_index / IndexedFasta over an in-memory file and a hand-written index; the step
    between them -- the index WRITTEN next to a FASTA by the library and read back by Genome.from_file / open_indexed -- needs real files and
    is exercised here on concrete FASTA files (names with descriptions after a space or a TAB, line widths, CRLF, no final newline): contig
    lengths, whole contigs and a grid of intervals must equal the file's sequences.  Probing on the real library, not a solver verdict."""
    import itertools, os, shutil, tempfile, time
    import bionumpy as bnp
    from bionumpy.datatypes import Interval
    t0 = time.time()
    res = dict(obligations=0, discharged=0, queries=0, inconclusive=[], violations=[], samples=[])
    seqs = [("a", "ACGTAC"), ("chr2", "GGTTA"), ("zz", "T")]
    n = 0
    for desc, width, nl, final in itertools.product(("", " some description", "\tdesc"), (2, 4, 7), ("\n", "\r\n"), (True, False)):
        text = ""
        for k, (name, seq) in enumerate(seqs):
            text += ">" + name + (desc if k == 0 else "") + nl
            lines = [seq[i:i + width] for i in range(0, len(seq), width)]
            text += nl.join(lines) + nl
        if not final:
            text = text[:-len(nl)]
        d = tempfile.mkdtemp(prefix="c17_files_")
        try:
            for api in ("genome", "open_indexed"):
                n += 1
                path = os.path.join(d, api + ".fa")
                with open(path, "w", newline="") as fh:
                    fh.write(text)
                try:
                    if api == "genome":
                        g = bnp.Genome.from_file(path)
                        lengths = dict(g.get_genome_context().chrom_sizes) if hasattr(g, "get_genome_context") else dict(g._genome_context.chrom_sizes)
                        gs = g.read_sequence()
                        ivs = [(nm, a, b) for nm, sq in seqs for a in range(len(sq)) for b in range(a + 1, len(sq) + 1)]
                        got = gs[g.get_intervals(Interval([i[0] for i in ivs], [i[1] for i in ivs], [i[2] for i in ivs]))].tolist()
                    else:
                        f = bnp.open_indexed(path)
                        lengths = dict(f.get_contig_lengths())
                        ivs = [(nm, a, b) for nm, sq in seqs for a in range(len(sq)) for b in range(a + 1, len(sq) + 1)]
                        got = f.get_interval_sequences(Interval([i[0] for i in ivs], [i[1] for i in ivs], [i[2] for i in ivs])).tolist()
                        whole = {nm: f[nm].to_string() for nm, _ in seqs}
                        if whole != dict(seqs):
                            raise AssertionError(f"whole contigs {whole}")
                    exp = [dict(seqs)[nm][a:b] for nm, a, b in ivs]
                    outcome = None if (lengths == {nm: len(sq) for nm, sq in seqs} and got == exp) else f"lengths {lengths}, first differing interval " + \
                        str(next(((iv, g_, e_) for iv, g_, e_ in zip(ivs, got, exp) if g_ != e_), None))
                except Exception as e:
                    outcome = f"raised {type(e).__name__}: {str(e)[:120]}"
                if outcome is not None:
                    res["violations"].append(dict(obligation="fasta-file-probe", inputs=dict(api=api, text=repr(text)), output=outcome,
                                                  why=f"[real run, concrete FASTA file] {'Genome.from_file(p).read_sequence()' if api == 'genome' else 'open_indexed(p)'} "
                                                      f"on {text!r} (index built by the library): {outcome}"))
        finally:
            shutil.rmtree(d, ignore_errors=True)
        if len(res["violations"]) >= 5:
            break
    # history on ONE opened object: interval requests whose chromosome column is encoded against label lists in different orders / subsets
    from bionumpy.encodings.string_encodings import StringEncoding
    d = tempfile.mkdtemp(prefix="c17_files_")
    m = 0
    try:
        path = os.path.join(d, "two.fa")
        recs = [("c0", "ACGTAC"), ("c1", "TTGCA"), ("c2", "GG")]
        with open(path, "w") as fh:
            for name, seq in recs:
                fh.write(">" + name + "\n" + "\n".join(seq[i:i + 4] for i in range(0, len(seq), 4)) + "\n")
        seqd = dict(recs)
        tuples = [("c0", 1, 5), ("c1", 0, 3), ("c0", 3, 4), ("c1", 4, 5)]
        expected = [seqd[nm][a:b] for nm, a, b in tuples]
        for orders in itertools.permutations((["c0", "c1"], ["c1", "c0"], ["c1", "c2", "c0"], ["c0", "c1", "c2"]), 2):
            m += 1
            fasta = bnp.open_indexed(path)
            for k, labels in enumerate(orders):
                try:
                    iv = Interval.from_entry_tuples(tuples)
                    iv = bnp.replace(iv, chromosome=bnp.as_encoded_array(iv.chromosome, StringEncoding(labels)))
                    got = [s_.to_string() for s_ in fasta.get_interval_sequences(iv)]
                except Exception as e:
                    got = ("raised", type(e).__name__)
                if got != expected and len(res["violations"]) < 4:
                    res["violations"].append(dict(obligation="indexed-fasta-history", inputs=dict(label_orders=[list(o) for o in orders], request=k), output=repr(got),
                                                  why=f"[real run, concrete files] request {k + 1} on one IndexedFasta with chromosome labels {labels} "
                                                      f"(requests so far used {[list(o) for o in orders[:k + 1]]}): {got}, expected {expected}"))
    finally:
        shutil.rmtree(d, ignore_errors=True)
    res["solver_s"] = time.time() - t0
    res["summary"] = f"{m} two-request histories on one opened object with differently ordered chromosome labels; library-built index read back through Genome.from_file and open_indexed on {n} concrete FASTA files: {len(res['violations'])} deviations"
    return res
