"""C02 -- parsed columns mean what the file format says the text means."""
import itertools
import z3
from vlib.harness import Harness, Exc
from vlib.zutil import TI, TB, z_and, z_or
from checks import textfmt as F


def read_file(ctx, skel, x, lazy=False):
    from bionumpy.io.parser import NumpyFileReader
    from bionumpy.io.npdataclassreader import NpDataclassReader
    buf = F.get_buffer(skel["fmt"])
    f = ctx.file(F.content(skel, x))
    return NpDataclassReader(NumpyFileReader(f, buf), lazy=lazy).read()


def column_out(ctx, data, name, kind):
    v = getattr(data, name)
    if kind == "id":
        return ctx.lst(v.raw())
    if kind == "str":
        return ctx.lst(v)
    if kind == "strand":
        return ctx.lst(v.raw())
    return ctx.lst(v)


class Delimited(Harness):
    name = "delimited"
    functions = ("NpDataclassReader.read", "NumpyFileReader.read", "DelimitedBuffer.from_raw_buffer/_get_buffer_extractor/"
                 "_modify_for_carriage_return/get_data/_get_field_by_number", "TextBufferExtractor.get_digit_array/get_padded_field/"
                 "get_field_by_number", "move_intervals_to_digit_array/right_padded_array", "str_to_int(_with_missing)", "str_to_float",
                 "as_string_array", "AlphabetEncoding._encode")
    bounds = {"quick": "BED3, BED6, chrom.sizes, bedGraph; 1-3 records; cell widths from {1,2,4,5} incl. very unequal widths in one "
                       "column, and 10-12 digit integers (beyond 2^31 and 2^32); signed integers; '.' score placeholders; LF/CRLF; final newline or none; one header/comment line",
              "thorough": "more width patterns, 4 records"}
    assumptions = ("bedGraph value column compared in the exact-real model (which real number is computed; rounding outside the claim)",)

    def skeletons(self, tier, seed):
        out = []
        W = {"bed3": [[[1, 1, 1]], [[2, 1, 2], [1, 4, 4]], [[4, 1, 1], [1, 2, 2], [1, 1, 4]], [[1, 2, 1], [1, 1, 2]],
                      [[1, 1, 1], [1, 4, 5]], [[1, 1, 1], [1, 2, 2], [1, 5, 5]],   # first fields end before the widest field's width
                      [[1, 10, 10]], [[1, 1, 10], [1, 10, 11]]],                     # values beyond 2^31 / 2^32
             "bed6": [[[1, 1, 1, 1, 1, 1]], [[2, 1, 2, 1, 2, 1], [1, 2, 2, 3, 1, 1]]],
             "chromsizes": [[[1, 1]], [[4, 1], [1, 4]], [[2, 2], [1, 1], [3, 4]], [[1, 1], [1, 5]], [[1, 12], [1, 1]]],
             "bedgraph": [[[1, 1, 1, 1]], [[1, 1, 2, 3], [2, 2, 2, 1]], [[1, 1, 1, 4], [1, 1, 1, 2]]]}
        if tier == "thorough":
            W["bed3"] += [[[1, 1, 1], [2, 2, 2], [4, 4, 4], [1, 4, 1]], [[3, 5, 5], [1, 1, 1]]]
            W["bed6"] += [[[1, 4, 4, 1, 1, 1], [4, 1, 1, 2, 3, 1], [1, 1, 2, 1, 1, 1]]]
            W["chromsizes"] += [[[1, 7], [1, 1]]]
        W["sam"] = [[[1, 1, 1, 2, 1, 2, 1, 1, 1, 3, 3]], [[2, 2, 1, 1, 2, 1, 1, 1, 2, 1, 1, 3], [1, 1, 2, 3, 1, 4, 1, 2, 1, 2, 2]],
                    [[1, 1, 1, 1, 1, 1, 1, 1, 1, 1, 1, 2, 3], [1, 3, 1, 1, 1, 1, 1, 1, 1, 4, 4, 1]]]
        W["gtf"] = [[[1, 1, 1, 1, 1, 1, 1, 1, 1]], [[2, 3, 4, 1, 3, 1, 1, 1, 5], [1, 1, 1, 4, 4, 2, 1, 1, 2]]]
        for fmt, rowsets in W.items():
            for rows in rowsets:
                for crlf, nofinal in ((False, False), (True, False), (False, True)):
                    out.append(dict(fmt=fmt, rows=rows, crlf=crlf, no_final_newline=nofinal))
                if fmt in ("bed3", "bed6"):
                    out.append(dict(fmt=fmt, rows=rows, signed=[[0, 1]], crlf=False))
                    out.append(dict(fmt=fmt, rows=rows, header=["#comment line", "#x"], crlf=False))
                if fmt == "bed6" and all(r[4] == 1 for r in rows):
                    out.append(dict(fmt=fmt, rows=rows, score_dots=True))
        # float texts with many decimals (19 and more digits after the point: powers of ten beyond the int64 range)
        for lits in (["0.0000000000000000001", "1.5", "0.00123456789012345678"], ["12.0000000000000000005", "0.25"], ["0.1234567890123456789012345"]):
            out.append(dict(fmt="bedgraph", rows=[[1, 1, 1, len(t)] for t in lits], literal_floats=lits))
        # an identifier column (BED6 name) that is empty in every record, in some records
        out.append(dict(fmt="bed6", rows=[[1, 1, 1, 0, 1, 1], [1, 2, 1, 0, 1, 1]]))
        out.append(dict(fmt="bed6", rows=[[1, 1, 1, 0, 1, 1]]))
        out.append(dict(fmt="bed6", rows=[[1, 1, 1, 0, 1, 1], [1, 2, 1, 2, 1, 1], [1, 1, 1, 0, 1, 1]]))
        # the '.' placeholder in some records only (a score column mixing '.' and numbers is well-formed)
        for dots in ([0], [1], [0, 2], [2]):
            rows = [[1, 1, 1, 1, 1 if r in dots else 2, 1] for r in range(3)]
            out.append(dict(fmt="bed6", rows=rows, score_dots=dots))
        return out

    def inputs(self, skel, V):
        F.declare_cells(V, skel)

    def call(self, skel, x, ctx):
        data = read_file(ctx, skel, x)
        cols = F.FORMATS[skel["fmt"]]["cols"]
        res = dict(n=len(data), cols={nm: column_out(ctx, data, nm, kind) for nm, kind in cols})
        rest = F.FORMATS[skel["fmt"]].get("rest")
        if rest:
            res["rest"] = ctx.lst(getattr(data, rest))
        return res

    def post(self, skel, x, out):
        if isinstance(out, Exc):
            return False
        cols = F.FORMATS[skel["fmt"]]["cols"]
        n = len(skel["rows"])
        if out["n"] != n:
            return False
        signed = {tuple(s) for s in skel.get("signed", [])}
        conj = []
        for c, (nm, kind) in enumerate(cols):
            col = out["cols"][nm]
            if len(col) != n:
                return False
            for r in range(n):
                w = skel["rows"][r][c]
                cv = F.cell(x, r, c, w)
                dot = (w // 2 if w >= 3 else None) if kind == "float" else (F.list_spec(skel, r, c) if kind == "ilist" else None)
                ref = F.ref_value(kind, cv, signed=(r, c) in signed, dot=dot)
                got = col[r]
                if isinstance(ref, list):
                    if not isinstance(got, list) or len(got) != len(ref):
                        return False
                    conj += [TI(g) == e for g, e in zip(got, ref)]
                elif kind == "float" and skel.get("literal_floats"):
                    # concrete text, concrete double: equal to the decimal value of the text up to a relative 1e-12 (accuracy in ulps is C18's subject)
                    from fractions import Fraction
                    want = Fraction(skel["literal_floats"][r])
                    try:
                        ok = abs(Fraction(float(got)) - want) <= Fraction(1, 10 ** 12) * abs(want)
                    except (TypeError, ValueError, OverflowError):
                        ok = False
                    conj.append(z3.BoolVal(bool(ok)))
                elif kind == "float":
                    from symnp.core import T
                    g = T(got)
                    conj.append((z3.ToReal(g) if not z3.is_real(g) else g) == ref)
                else:
                    conj.append(TI(got) == ref)
        if "rest" in out:
            for r in range(n):
                exp = self._rest(skel, r, lambda nm: x[nm].t)
                if len(out["rest"][r]) != len(exp):
                    return False
                conj += [TI(g) == e for g, e in zip(out["rest"][r], exp)]
        return z_and(conj)

    def _rest(self, skel, r, g):
        ncols = len(F.FORMATS[skel["fmt"]]["cols"])
        exp = []
        for c in range(ncols, len(skel["rows"][r])):
            exp += ([9] if c > ncols else []) + [g(f"c{r}_{c}_{j}") for j in range(skel["rows"][r][c])]
        return exp

    def oracle(self, skel, cx, cout):
        if isinstance(cout, Exc):
            return f"raised {cout}"
        cols = F.FORMATS[skel["fmt"]]["cols"]
        n = len(skel["rows"])
        signed = {tuple(s) for s in skel.get("signed", [])}
        text = bytes(F.content(skel, cx)).decode("latin1")
        if cout["n"] != n:
            return f"{cout['n']} entries parsed from a file with {n} records: {text!r}"
        if "rest" in cout:
            for r in range(n):
                exp = self._rest(skel, r, lambda nm: cx[nm])
                if cout["rest"][r] != exp:
                    return f"file {text!r}: optional-tags field of record {r} = {bytes(cout['rest'][r])!r}, expected {bytes(exp)!r}"
        for c, (nm, kind) in enumerate(cols):
            for r in range(n):
                w = skel["rows"][r][c]
                vals = [cx[f"c{r}_{c}_{j}"] for j in range(w)]
                exp = F.py_value(kind, vals, signed=(r, c) in signed, dot=F.list_spec(skel, r, c) if kind == "ilist" else None)
                got = cout["cols"][nm][r]
                if kind == "float" and skel.get("literal_floats"):
                    ok = abs(float(got) - exp) <= 1e-12 * abs(exp)
                else:
                    ok = (abs(float(got) - exp) <= 1e-9 * max(1, abs(exp))) if kind == "float" else (got == exp)
                if not ok:
                    return f"file {text!r}: column {nm} of record {r} parsed as {got!r}, the text {bytes(vals).decode('latin1')!r} means {exp!r}"
        return None


class MoreFormats(Delimited):
    """the less common delimited formats: BED12 (list-valued columns), narrowPeak (float columns, signed summit), pairs,
    GFF3 with comment lines between the records"""
    name = "more_formats"
    functions = ("Bed12Buffer / NarrowPeakBuffer / PairsBuffer / GFFBuffer", "DelimitedBuffer._get_field_by_number (List[int], float, "
                 "Optional[int] parsers)", "str_to_int / str_to_float / split on list columns", "DelimitedBufferWithInernalComments."
                 "_calculate_col_starts_and_ends")
    bounds = {"quick": "BED12: 1-2 records, block lists of 1-3 elements of 1-2 digits, with and without the trailing comma that UCSC "
                       "writes; narrowPeak: 1-2 records, floats d.d / dd.dd / d, summit with sign; pairs: 1-2 records with a '#' header; "
                       "GFF3: 2-3 records with comment lines before, between and after them; LF/CRLF",
              "thorough": "3 records, longer lists"}
    assumptions = ("float columns compared in the exact-real model",)

    def skeletons(self, tier, seed):
        out = []
        L = lambda *w, t=False: dict(widths=list(w), trailing=t)
        # BED12: columns 10, 11 are lists
        b12 = []
        for lists in ([(L(2), L(1))], [(L(1, 2), L(1, 1)), (L(2), L(1))], [(L(1, 1, 2), L(1, 2, 1))],
                      [(L(1, 2, t=True), L(1, 1, t=True))], [(L(2, t=True), L(1, t=True)), (L(1, 1, t=True), L(1, 2, t=True))],
                      # the two styles MIXED in one file: a row with the trailing comma, a row without it (both orders, both columns differing)
                      [(L(1, 2, t=True), L(1, 1)), (L(1, 1), L(2, 1, t=True))], [(L(2, 1), L(1, 1)), (L(1, t=True), L(1, t=True)), (L(1, 1), L(2, 2))]):
            rows, spec = [], {}
            for r, (a, b) in enumerate(lists):
                rows.append([1 + r, 1, 2, 1, 1, 1, 1, 2, 1, 1, F.list_width(a), F.list_width(b)])
                spec[f"{r}_10"], spec[f"{r}_11"] = a, b
            b12.append(dict(fmt="bed12", rows=rows, lists=spec))
        for sk in b12:
            for crlf in (False, True):
                out.append(dict(sk, crlf=crlf))
        # narrowPeak
        for rows in ([[1, 1, 2, 1, 1, 1, 3, 1, 3, 1]], [[2, 1, 1, 1, 2, 1, 1, 3, 5, 2], [1, 2, 2, 1, 1, 1, 3, 1, 1, 1]]):
            out.append(dict(fmt="narrowpeak", rows=rows, crlf=False))
            out.append(dict(fmt="narrowpeak", rows=rows, crlf=False, signed=[[r, 9] for r in range(len(rows))]))
            out.append(dict(fmt="narrowpeak", rows=rows, crlf=True))
        # pairs
        for rows in ([[1, 1, 1, 1, 1, 1, 1]], [[2, 1, 3, 2, 1, 1, 1], [1, 2, 1, 1, 2, 1, 1]]):
            out.append(dict(fmt="pairs", rows=rows, crlf=False, header=["## pairs format v1.0", "#columns: readID chr1 pos1 chr2 pos2 strand1 strand2"]))
            out.append(dict(fmt="pairs", rows=rows, crlf=False))
        # GFF3 with comment lines
        g = [[1, 1, 1, 1, 2, 1, 1, 1, 3], [2, 2, 1, 2, 2, 1, 1, 1, 1], [1, 1, 2, 1, 1, 1, 1, 1, 2]]
        for rows, comments in ((g[:2], {}), (g[:2], {"1": "#x"}), (g, {"1": "##sequence-region c 1 9", "2": "#y"}), (g[:2], {"0": "##gff-version 3"}),
                               (g[:2], {"1": "#a\tb"})):
            out.append(dict(fmt="gff", rows=rows, comments=comments, crlf=False))
        out.append(dict(fmt="gff", rows=g[:2], comments={"1": "#x"}, crlf=True))
        if tier == "thorough":
            out.append(dict(fmt="gff", rows=g, comments={"1": "#x", "2": "#y"}, crlf=True))
        return out


class Sequences(Harness):
    name = "sequences"
    functions = ("OneLineBuffer.from_raw_buffer/_get_buffer_extractor/_modify_for_carriage_return/get_data", "FastQBuffer.get_data/"
                 "get_field_by_number/_validate", "MultiLineFastaBuffer.from_raw_buffer/get_data", "QualityEncoding",
                 "NumpyFileReader.read (final newline / entry marker handling)")
    bounds = {"quick": "two-line FASTA, FASTQ (with and without '+name'), FASTA wrapped at width 2-3; 1-3 records, name length 0-3 (an empty name among "
                       "non-empty ones included), sequence length 1-5 (unequal), LF/CRLF, final newline or none",
              "thorough": "more length patterns, width 1-4"}

    def skeletons(self, tier, seed):
        out = []
        recsets = [[[1, 1]], [[2, 3], [1, 1]], [[1, 2], [3, 4], [2, 1]],
                   [[0, 1], [2, 2]], [[1, 2], [0, 1], [2, 1]]]         # a record whose name is empty ('>' / '@' alone) among named ones
        if tier == "thorough":
            recsets += [[[3, 5], [1, 5]], [[1, 1], [1, 1], [1, 6]], [[0, 2], [0, 1]], [[2, 1], [0, 3]]]
        for recs in recsets:
            for crlf, nofinal in ((False, False), (True, False), (False, True)):
                out.append(dict(fmt="fasta2", records=recs, crlf=crlf, no_final_newline=nofinal))
                out.append(dict(fmt="fastq", records=recs, crlf=crlf, no_final_newline=nofinal))
            out.append(dict(fmt="fastq", records=recs, plus_name=True))
        wrecs = [([[1, 1]], 2), ([[2, 5], [1, 2]], 2), ([[1, 3], [2, 4], [1, 1]], 3), ([[1, 4], [1, 5]], 2)]
        if tier == "thorough":
            wrecs += [([[1, 6], [2, 3]], 3), ([[1, 5], [1, 8]], 4), ([[1, 3], [1, 2]], 1)]
        for recs, w in wrecs:
            for crlf, nofinal in ((False, False), (True, False), (False, True)):
                out.append(dict(fmt="mfasta", records=recs, width=w, crlf=crlf, no_final_newline=nofinal))
        return out

    def inputs(self, skel, V):
        F.declare_seq(V, skel)

    def call(self, skel, x, ctx):
        from bionumpy.io.parser import NumpyFileReader
        from bionumpy.io.npdataclassreader import NpDataclassReader
        f = ctx.file(F.seq_content(skel, x))
        data = NpDataclassReader(NumpyFileReader(f, F.get_seq_buffer(skel["fmt"])), lazy=False).read()
        res = dict(n=len(data), name=ctx.lst(data.name.raw()), seq=ctx.lst(data.sequence))
        if skel["fmt"] == "fastq":
            res["qual"] = ctx.lst(data.quality)
        return res

    def post(self, skel, x, out):
        if isinstance(out, Exc):
            return False
        n = len(skel["records"])
        if out["n"] != n or len(out["name"]) != n or len(out["seq"]) != n:
            return False
        conj = []
        for r, (nl, sl) in enumerate(skel["records"]):
            if len(out["name"][r]) != nl or len(out["seq"][r]) != sl:
                return False
            conj += [TI(g) == x[f"qn{r}_{j}"].t for j, g in enumerate(out["name"][r])]
            conj += [TI(g) == x[f"qs{r}_{j}"].t for j, g in enumerate(out["seq"][r])]
            if skel["fmt"] == "fastq":
                if len(out["qual"][r]) != sl:
                    return False
                conj += [TI(g) == x[f"qq{r}_{j}"].t - 33 for j, g in enumerate(out["qual"][r])]
        return z_and(conj)

    def oracle(self, skel, cx, cout):
        if isinstance(cout, Exc):
            return f"raised {cout}"
        text = bytes(F.seq_content(skel, cx)).decode("latin1")
        n = len(skel["records"])
        exp = dict(n=n, name=[[cx[f"qn{r}_{j}"] for j in range(nl)] for r, (nl, sl) in enumerate(skel["records"])],
                   seq=[[cx[f"qs{r}_{j}"] for j in range(sl)] for r, (nl, sl) in enumerate(skel["records"])])
        if skel["fmt"] == "fastq":
            exp["qual"] = [[cx[f"qq{r}_{j}"] - 33 for j in range(sl)] for r, (nl, sl) in enumerate(skel["records"])]
        return None if cout == exp else f"file {text!r} ({skel['fmt']}): parsed {cout}, expected {exp}"


VCF_HEADER = ("##fileformat=VCFv4.2\n"
              "##INFO=<ID=DP,Number=1,Type=Integer,Description=\"depth\">\n"
              "##INFO=<ID=FL,Number=0,Type=Flag,Description=\"flag\">\n"
              "##INFO=<ID=FLA,Number=0,Type=Flag,Description=\"a flag whose name starts with another flag's name\">\n"
              "##INFO=<ID=FLX,Number=1,Type=Integer,Description=\"a key whose name starts with a flag's name\">\n"
              "##INFO=<ID=XDP,Number=1,Type=Integer,Description=\"a key whose name ends with another key's name\">\n"
              "##INFO=<ID=AF,Number=1,Type=Float,Description=\"a float-valued key\">\n"
              "##FORMAT=<ID=GT,Number=1,Type=String,Description=\"Genotype\">\n"
              "#CHROM\tPOS\tID\tREF\tALT\tQUAL\tFILTER\tINFO\tFORMAT\tS1\tS2\n")


class VCF(Harness):
    """VCF: 0-based positions, verbatim string columns, typed INFO keys, genotype columns"""
    name = "vcf"
    functions = ("VCFBuffer._get_field_by_number (POS-1)/_get_info_field/_get_dataclass_field/_extract_genotypes",
                 "NamedBufferExtractor.get_field_by_name/has_field_name", "VCFMatrixBuffer (GenotypeRowEncoding.encode/decode)",
                 "TextBufferExtractor.get_padded_field(stop_at=':')", "FileBuffer.read_header")
    bounds = {"quick": "1-2 records; widths chrom 1-2, POS 1-3 digits, ID 1-2, REF/ALT 1-2; INFO 'DP=<1-2 digits>' or 'FL;DP=<d>', a Float key AF written d.d / .d / .dd / d or absent; FORMAT GT or GT:DP "
                       "with 2 samples whose alleles/separators are symbolic over {0,1,2,.}x{/,|}; one sample may lack its sub-fields; "
                       "histories: the same file parsed first with another buffer type (VCFBuffer/VCFBuffer2/VCFMatrixBuffer/PhasedVCFMatrixBuffer)",
              "thorough": "3 records, wider fields"}

    def skeletons(self, tier, seed):
        R = lambda chrom, pos, idw, ref, alt, info, dpw, fmt, samples: dict(chrom=chrom, pos=pos, id=idw, ref=ref, alt=alt, info=info,
                                                                            dpw=dpw, fmt=fmt, samples=samples)
        sets = [
            [R(1, 1, 1, 1, 1, "dp", 1, "GT", ["gt", "gt"])],
            [R(2, 3, 1, 1, 2, "dp", 2, "GT:DP", ["gt:2", "gt:1"]), R(1, 1, 2, 2, 1, "fl_dp", 1, "GT:DP", ["gt:1", "gt:2"])],
            [R(1, 2, 1, 1, 1, "dp", 1, "GT:DP", ["gt", "gt:4"]), R(1, 1, 1, 1, 1, "dp", 2, "GT:DP", ["gt:1", "gt:1"])],
        ]
        # INFO keys that are prefixes / suffixes of one another, flags in any position
        sets.append([R(1, 1, 1, 1, 1, "fla_dp", 1, "GT", ["gt", "gt"]), R(1, 1, 1, 1, 1, "fl_dp", 1, "GT", ["gt", "gt"])])
        sets.append([R(1, 1, 1, 1, 1, "flx_dp", 1, "GT", ["gt", "gt"]), R(1, 2, 1, 1, 1, "dp_fl", 2, "GT", ["gt", "gt"]),
                     R(1, 1, 1, 1, 1, "xdp_dp", 1, "GT", ["gt", "gt"])])
        sets.append([R(1, 1, 1, 1, 1, "fla_fl_dp", 1, "GT", ["gt", "gt"]), R(1, 1, 1, 1, 1, "xdp_dp", 2, "GT", ["gt", "gt"])])
        # a Float key: digits around the decimal point given by (digits before, digits after); (0, k) is the form '.5' without a leading zero;
        # every record of a set may have that form, or only some, or a record may lack the key
        AF = lambda rec, shape: dict(rec, af=shape)
        sets.append([AF(R(1, 1, 1, 1, 1, "dp", 1, "GT", ["gt", "gt"]), (0, 1))])
        sets.append([AF(R(1, 1, 1, 1, 1, "dp", 1, "GT", ["gt", "gt"]), (0, 2)), AF(R(1, 1, 1, 1, 1, "fl_dp", 1, "GT", ["gt", "gt"]), (0, 1))])
        sets.append([AF(R(1, 1, 1, 1, 1, "dp", 1, "GT", ["gt", "gt"]), (1, 1)), AF(R(1, 1, 1, 1, 1, "dp", 1, "GT", ["gt", "gt"]), (0, 1))])
        sets.append([AF(R(1, 1, 1, 1, 1, "dp", 1, "GT", ["gt", "gt"]), (1, 0)), R(1, 1, 1, 1, 1, "dp", 1, "GT", ["gt", "gt"])])
        if tier == "thorough":
            sets.append([R(1, 1, 1, 1, 1, "dp", 1, "GT:DP", ["gt:3", "gt"]), R(3, 4, 1, 3, 1, "fl_dp", 2, "GT:DP", ["gt:1", "gt:1"]),
                         R(1, 1, 1, 1, 1, "dp", 1, "GT:DP", ["gt:1", "gt:3"])])
        out = []
        bufs = ("VCFBuffer2", "VCFBuffer", "VCFMatrixBuffer")
        for recs in sets:
            for buf in bufs:
                for crlf in ((False, True) if buf == "VCFBuffer" else (False,)):
                    out.append(dict(recs=recs, buffer=buf, crlf=crlf, prior=None))
        for buf in bufs:
            out.append(dict(recs=sets[1], buffer=buf, crlf=False, prior=None, prior_header=True))
        # history: the same header was parsed before with another buffer type in this process (class-level caches keyed by header)
        for recs in sets[:1] if tier == "quick" else sets:
            for prior in bufs + ("PhasedVCFMatrixBuffer",):
                for buf in bufs:
                    if buf != prior:
                        out.append(dict(recs=recs, buffer=buf, crlf=False, prior=prior))
        return out

    def inputs(self, skel, V):
        for r, rec in enumerate(skel["recs"]):
            for nm, w, lo, hi in (("c", rec["chrom"], 48, 122), ("i", rec["id"], 48, 122), ("r", rec["ref"], 65, 84), ("a", rec["alt"], 65, 84),
                                  ("f", 2, 65, 90)):
                for j in range(w):
                    v = V.int(f"v{r}_{nm}{j}", lo, hi)
                    if nm in ("c", "i"):
                        V.assume(F._id_ok(v.t))
            for j in range(rec["pos"]):
                V.int(f"v{r}_p{j}", 48, 57)
            # POS 0 is legal (a telomere): it reads as -1
            for j in range(rec["dpw"]):
                V.int(f"v{r}_d{j}", 48, 57)
            if rec.get("af"):
                for j in range(sum(rec["af"])):
                    V.int(f"v{r}_af{j}", 48, 57)
            for si, sm in enumerate(rec["samples"]):
                for k in (0, 2):
                    v = V.int(f"v{r}_g{si}_{k}", 46, 50); V.assume(v.t != 47)          # allele: . 0 1 2
                v = V.int(f"v{r}_g{si}_1", 47, 124); V.assume(z3.Or(v.t == 47, v.t == 124))   # separator / or |
                if ":" in sm:
                    for j in range(int(sm.split(":")[1])):
                        V.int(f"v{r}_x{si}_{j}", 48, 57)

    def _content(self, skel, x):
        nl = [13, 10] if skel["crlf"] else [10]
        header = VCF_HEADER.replace("\tFORMAT\tS1\tS2", "") if skel.get("no_samples") else VCF_HEADER      # a sites-only VCF: INFO is the last column
        out = list(header.replace("\n", "\r\n").encode()) if skel["crlf"] else list(header.encode())
        g = lambda nm: x[nm]
        for r, rec in enumerate(skel["recs"]):
            f = []
            f.append([g(f"v{r}_c{j}") for j in range(rec["chrom"])])
            f.append([g(f"v{r}_p{j}") for j in range(rec["pos"])])
            f.append([g(f"v{r}_i{j}") for j in range(rec["id"])])
            f.append([g(f"v{r}_r{j}") for j in range(rec["ref"])])
            f.append([g(f"v{r}_a{j}") for j in range(rec["alt"])])
            f.append([ord(".")])
            f.append([g(f"v{r}_f{j}") for j in range(2)])
            dp = list(b"DP=") + [g(f"v{r}_d{j}") for j in range(rec["dpw"])]
            pre = {"dp": b"", "only_x": b"", "dp_fl": b"", "fl_dp": b"FL;", "fla_dp": b"FLA;", "flx_dp": b"FLX=7;", "xdp_dp": b"XDP=9;", "fla_fl_dp": b"FLA;FL;"}[rec["info"]]
            af = []
            if rec.get("af"):
                ip, fp = rec["af"]
                af = list(b";AF=") + [g(f"v{r}_af{j}") for j in range(ip)] + ([46] + [g(f"v{r}_af{ip + j}") for j in range(fp)] if fp else [])
            if rec["info"] == "only_x":          # an INFO column that holds just one short undeclared token: no DP, no flag
                f.append([ord("X")])
            else:
                f.append(list(pre) + dp + (list(b";FL") if rec["info"] == "dp_fl" else []) + af)
            if skel.get("no_samples"):
                for k, cell in enumerate(f):
                    out += cell + ([9] if k < len(f) - 1 else nl)
                continue
            f.append(list(rec["fmt"].encode()))
            for si, sm in enumerate(rec["samples"]):
                cell = [g(f"v{r}_g{si}_{k}") for k in range(3)]
                if ":" in sm:
                    cell += [ord(":")] + [g(f"v{r}_x{si}_{j}") for j in range(int(sm.split(":")[1]))]
                f.append(cell)
            for k, cell in enumerate(f):
                out += cell + ([9] if k < len(f) - 1 else nl)
        return out

    def call(self, skel, x, ctx):
        from bionumpy.io.parser import NumpyFileReader
        from bionumpy.io.npdataclassreader import NpDataclassReader
        import bionumpy.io.vcf_buffers as vb
        buf = getattr(vb, skel["buffer"])
        # the class-level caches are process state: start every call from the state of a fresh process, then replay the history
        vb.VCFBuffer.vcfentry_cache.clear()
        vb.VCFBuffer.info_cache.clear()
        if skel.get("prior"):
            pd = NpDataclassReader(NumpyFileReader(ctx.file(self._content(skel, x)), getattr(vb, skel["prior"])), lazy=False).read()
            len(pd), pd.info
        if skel.get("prior_header"):
            # another file was parsed earlier in the process: the same INFO ids in the same order, declared with other types
            other = VCF_HEADER.replace("ID=DP,Number=1,Type=Integer", "ID=DP,Number=A,Type=String").replace("ID=FLX,Number=1,Type=Integer", "ID=FLX,Number=1,Type=Float")
            assert other != VCF_HEADER
            rec = "c\t5\ti\tA\tC\t.\tPA\tDP=x,y\tGT\t0/1\t1/1\n"
            pd = NpDataclassReader(NumpyFileReader(ctx.file(list((other + rec).encode())), buf), lazy=False).read()
            len(pd), pd.info.DP
        d = NpDataclassReader(NumpyFileReader(ctx.file(self._content(skel, x)), buf), lazy=skel.get("lazy", False)).read()
        for key in skel.get("touch", []):
            getattr(d.info, key)              # history: an INFO key was read on the whole table before the selection is made
        if skel.get("select") is not None:
            d = d[list(skel["select"])]       # the selected records, in the order of the index list
        if skel.get("concat_parts"):
            # selections of the table (their INFO texts differ in size) put together again with np.concatenate
            parts = [d[list(p)] for p in skel["concat_parts"]]
            if skel.get("touch_parts"):
                for p in parts:
                    p.info                    # history: the INFO column of every operand was taken (no key read) before the concatenation
            d = ctx.np.concatenate(parts)
        res = dict(n=len(d), chrom=ctx.lst(d.chromosome.raw()), pos=ctx.lst(d.position), id=ctx.lst(d.id), ref=ctx.lst(d.ref_seq),
                   alt=ctx.lst(d.alt_seq), filter=ctx.lst(d.filter), dp=ctx.lst(d.info.DP), fl=ctx.lst(d.info.FL))
        if any(rec.get("af") for rec in skel["recs"]):
            res["af"] = ctx.lst(d.info.AF)
        if skel["buffer"] == "VCFBuffer2":
            res["gt"] = ctx.lst(d.genotype.raw())
        elif skel["buffer"] == "VCFMatrixBuffer":
            res["gt"] = ctx.lst(d.genotypes.encoding.decode(d.genotypes))
        return res

    def _expect(self, skel, x, val, I):
        exp = dict(chrom=[], pos=[], id=[], ref=[], alt=[], filter=[], dp=[], fl=[], gt=[])
        for r, rec in enumerate(skel["recs"]):
            g = lambda nm: val(x[nm])
            exp["chrom"].append([g(f"v{r}_c{j}") for j in range(rec["chrom"])])
            exp["pos"].append(I([g(f"v{r}_p{j}") for j in range(rec["pos"])]) - 1)
            exp["id"].append([g(f"v{r}_i{j}") for j in range(rec["id"])])
            exp["ref"].append([g(f"v{r}_r{j}") for j in range(rec["ref"])])
            exp["alt"].append([g(f"v{r}_a{j}") for j in range(rec["alt"])])
            exp["filter"].append([g(f"v{r}_f{j}") for j in range(2)])
            exp["dp"].append(I([g(f"v{r}_d{j}") for j in range(rec["dpw"])]) if rec["info"] != "only_x" else 0)     # an absent Integer key reads as 0
            exp["fl"].append(rec["info"] in ("fl_dp", "dp_fl", "fla_fl_dp"))
            exp["gt"].append([[g(f"v{r}_g{si}_{k}") for k in range(3)] for si in range(len(rec["samples"]))])
        if self._selection(skel) is not None:
            exp = {k: [v[i] for i in self._selection(skel)] for k, v in exp.items()}
        return exp

    @staticmethod
    def _selection(skel):
        if skel.get("concat_parts"):
            return [i for p in skel["concat_parts"] for i in p]
        return skel.get("select")

    def _recs(self, skel):
        """(source record index, record spec) of the entries of the result, in order"""
        idx = self._selection(skel) if self._selection(skel) is not None else range(len(skel["recs"]))
        return [(i, skel["recs"][i]) for i in idx]

    def post(self, skel, x, out):
        if isinstance(out, Exc):
            return False
        from vlib.zutil import digits_value
        exp = self._expect(skel, x, lambda v: v.t, lambda ds: digits_value(ds, signed=False))
        n = len(self._recs(skel))
        if out["n"] != n:
            return False
        conj = []

        def eq(got, e):
            if isinstance(e, bool):
                conj.append(TB(got) == e)
            elif isinstance(e, list):
                from vlib.harness import SStr
                if isinstance(got, SStr) and len(got) > len(e):      # NUL padding of a byte string is not significant
                    conj.extend(TI(t) == 0 for t in got[len(e):])
                    got = got[:len(e)]
                if not isinstance(got, list) or len(got) != len(e):
                    conj.append(z3.BoolVal(False))
                    return
                for g_, e_ in zip(got, e):
                    eq(g_, e_)
            else:
                if isinstance(got, (list, tuple, str, bytes)) or got is None:
                    conj.append(z3.BoolVal(False))       # a list / text where a number is expected
                    return
                conj.append(TI(got) == e)
        for k in ("chrom", "pos", "id", "ref", "alt", "filter", "dp", "fl"):
            eq(out[k], exp[k])
        if "af" in out:
            from symnp.core import T
            if len(out["af"]) != n:
                return False
            for j, (r, rec) in enumerate(self._recs(skel)):
                got = out["af"][j]
                if not rec.get("af"):          # the key is absent from this record: the missing value (NaN)
                    conj.append(z3.BoolVal(isinstance(got, float) and got != got))
                    continue
                if isinstance(got, float) and got != got:
                    conj.append(z3.BoolVal(False)); continue
                ip, fp = rec["af"]
                ds = [x[f"v{r}_af{j}"].t for j in range(ip + fp)]
                ref = z3.ToReal(digits_value(ds[:ip], signed=False) if ip else z3.IntVal(0)) + \
                    (z3.ToReal(digits_value(ds[ip:], signed=False)) / (10 ** fp) if fp else z3.RealVal(0))
                g_ = T(got)
                conj.append((z3.ToReal(g_) if not z3.is_real(g_) else g_) == ref)
        if "gt" in out:
            if skel["buffer"] == "VCFMatrixBuffer":
                # decoded row text: genotypes of all samples joined by TAB
                flat = [[t for si, gcell in enumerate(row) for t in (gcell + ([9] if si < len(row) - 1 else []))] for row in exp["gt"]]
                eq(out["gt"], flat)
            else:
                eq(out["gt"], exp["gt"])
        return z_and(conj)

    def oracle(self, skel, cx, cout):
        if isinstance(cout, Exc):
            return f"raised {cout}"
        exp = self._expect(skel, cx, lambda v: v, lambda ds: int(bytes(ds)))
        text = bytes(self._content(skel, cx)).decode("latin1").split("#CHROM", 1)[1].split("\n", 1)[1]
        if skel.get("select") is not None:
            text += f" after reading INFO keys {skel.get('touch', [])} the table is indexed with {list(skel['select'])}:"
        if cout["n"] != len(self._recs(skel)):
            return f"{cout['n']} entries from {len(self._recs(skel))} selected VCF records"
        if skel["buffer"] == "VCFMatrixBuffer":
            exp["gt"] = [[t for si, gcell in enumerate(row) for t in (gcell + ([9] if si < len(row) - 1 else []))] for row in exp["gt"]]
        if "af" in cout:
            for j, (r, rec) in enumerate(self._recs(skel)):
                got = float(cout["af"][j])
                if rec.get("af"):
                    ip, fp = rec["af"]
                    txt = bytes([cx[f"v{r}_af{j}"] for j in range(ip)] + ([46] + [cx[f"v{r}_af{ip + j}"] for j in range(fp)] if fp else [])).decode()
                    want = float(txt)
                    if not (got == got and abs(got - want) <= 1e-9 * max(1, abs(want))):
                        return f"VCF records {text!r} ({skel['buffer']}): INFO key AF (Type=Float) of entry {j} (record {r}) parsed as {got}, the text {txt!r} means {want}"
                elif got == got:
                    return f"VCF records {text!r} ({skel['buffer']}): INFO key AF is absent from entry {j} (record {r}) but parsed as {got}"
        for k in exp:
            if k in cout and cout[k] != (exp[k] if k != "fl" else [bool(v) for v in exp[k]]) and not (k == "fl" and [bool(v) for v in cout[k]] == exp[k]):
                return f"VCF records {text!r} ({skel['buffer']}): column {k} parsed as {cout[k]}, the text means {exp[k]}"
        return None


HARNESSES = [Delimited(), MoreFormats(), Sequences(), VCF()]
