"""C06 -- alphabet encodings accept exactly their alphabet and never change the text."""
import itertools
import z3
from vlib.harness import Harness, Exc
from vlib.zutil import TI, z_and, z_or, upper, in_set

# specification of the predefined alphabets (independent of the implementation's tables)
ALPHABETS = {
    "ACTGEncoding": "ACTG", "ACGTEncoding": "ACGT", "ACTGnEncoding": "ACTGN", "ACGTnEncoding": "ACGTN",
    "DigitEncoding": "0123456789", "ACUGEncoding": "ACUG", "AminoAcidEncoding": "ACDEFGHIKLMNPQRSTVWY*",
    "BamEncoding": "=ACMGRSVTWYHKDBN", "CigarOpEncoding": "MIDNSHP=X", "StrandEncoding": "+-.",
}
NAMES = list(ALPHABETS)


def get_enc(name):
    import bionumpy.encodings.alphabet_encoding as ae
    return getattr(ae, name)


def valid(c, alphabet):
    """byte term c belongs to the alphabet, letters matched case-insensitively"""
    return in_set(upper(c), [ord(a) for a in alphabet])


def code_of(c, alphabet):
    u = upper(c)
    t = z3.IntVal(-1)
    for i, a in enumerate(alphabet):
        t = z3.If(u == ord(a), i, t)
    return t


def py_upper(b):
    return b - 32 if 97 <= b <= 122 else b


class Encode(Harness):
    """enc.encode(text) for symbolic text presented as str / list of str / base-encoded array / ragged"""
    name = "encode"
    functions = ("AlphabetEncoding._initialize/_encode/_decode", "OneToOneEncoding.encode/decode", "as_encoded_array")
    bounds = {"quick": "10 predefined alphabets x {str len 1-2, list [1,2], base-encoded array len 1-3, ragged [2,0,1]}; "
                       "every byte 0..127 (str entry) / 0..255 (array entry) in every position",
              "thorough": "adds str len 3-4, list [2,0,1] and [1,1,2], array len 4"}

    def skeletons(self, tier, seed):
        out = []
        for n in NAMES:
            out.append(dict(enc=n, kind="str", lens=[1]))
            out.append(dict(enc=n, kind="str", lens=[2]))
            out.append(dict(enc=n, kind="list", lens=[1, 2]))
            out.append(dict(enc=n, kind="array", lens=[1]))
            out.append(dict(enc=n, kind="array", lens=[3]))
            out.append(dict(enc=n, kind="ragged", lens=[2, 0, 1]))
            # history: a caller obtained the alphabet / label list earlier and changed ITS OWN list in place; the encoding must be unaffected
            out.append(dict(enc=n, kind="array", lens=[2], caller_edits_alphabet=True))
            if tier == "thorough":
                out.append(dict(enc=n, kind="str", lens=[3]))
                out.append(dict(enc=n, kind="str", lens=[4]))
                out.append(dict(enc=n, kind="list", lens=[2, 0, 1]))
                out.append(dict(enc=n, kind="list", lens=[1, 1, 2]))
                out.append(dict(enc=n, kind="array", lens=[4]))
        return out

    def inputs(self, skel, V):
        hi = 127 if skel["kind"] in ("str", "list") else 255
        for i in range(sum(skel["lens"])):
            V.int(f"b{i}", 0, hi)

    def call(self, skel, x, ctx):
        from bionumpy.encoded_array import EncodedArray, EncodedRaggedArray, BaseEncoding, as_encoded_array
        enc = get_enc(skel["enc"])
        n = sum(skel["lens"])
        bs = [x[f"b{i}"] for i in range(n)]
        kind = skel["kind"]
        if kind == "str":
            data = ctx.text(bs)
        elif kind == "list":
            data, k = [], 0
            for L in skel["lens"]:
                data.append(ctx.text(bs[k:k + L])); k += L
        elif kind == "array":
            data = EncodedArray(ctx.arr(bs, "uint8"), BaseEncoding)
        else:
            data = EncodedRaggedArray(EncodedArray(ctx.arr(bs, "uint8"), BaseEncoding), list(skel["lens"]))
        edited = []
        if skel.get("caller_edits_alphabet"):
            for getter in ("get_alphabet", "get_labels"):
                lst = getattr(enc, getter)()
                edited.append((lst, list(lst)))
                lst.reverse(); lst.append("#")
        try:
            res = as_encoded_array(data, enc)
            assert res.encoding == enc, "result encoding differs"
            dec = enc.decode(res)
        finally:
            for lst, saved in edited:       # should the list be shared with the encoding, put it back for the other jobs of this worker
                lst[:] = saved
        if kind in ("list", "ragged"):
            return dict(codes=ctx.lst(res.ravel().raw()), decoded=ctx.lst(dec.ravel().raw()), lens=[int(l) for l in res.lengths])
        return dict(codes=ctx.lst(res.raw()), decoded=ctx.lst(dec.raw()), lens=[len(res)])

    def post(self, skel, x, out):
        alpha = ALPHABETS[skel["enc"]]
        n = sum(skel["lens"])
        bs = [x[f"b{i}"].t for i in range(n)]
        if isinstance(out, Exc):
            if out.type != "EncodingError":
                return False
            k = out.attrs.get("offset")
            if not isinstance(k, int) or not 0 <= k < n:
                return False
            return z3.And(*[valid(bs[i], alpha) for i in range(k)], z3.Not(valid(bs[k], alpha)))
        if out["lens"] != list(skel["lens"]) or len(out["codes"]) != n or len(out["decoded"]) != n:
            return False
        return z3.And(*[valid(b, alpha) for b in bs],
                      *[TI(c) == code_of(b, alpha) for c, b in zip(out["codes"], bs)],
                      *[TI(d) == upper(b) for d, b in zip(out["decoded"], bs)])

    def oracle(self, skel, cx, cout):
        alpha = ALPHABETS[skel["enc"]]
        n = sum(skel["lens"])
        bs = [cx[f"b{i}"] for i in range(n)]
        up = [py_upper(b) for b in bs]
        bad = [i for i, u in enumerate(up) if chr(u) not in alpha]
        text = bytes(bs).decode("latin1")
        if bad:
            if not isinstance(cout, Exc):
                return f"{skel['enc']} accepted {text!r} (byte {bs[bad[0]]} at {bad[0]} not in alphabet {alpha!r}); codes={cout['codes']}"
            if cout.type != "EncodingError":
                return f"encoding {text!r}: raised {cout.type}, expected EncodingError"
            if cout.attrs.get("offset") != bad[0]:
                return f"encoding {text!r}: EncodingError.offset={cout.attrs.get('offset')}, first invalid position is {bad[0]}"
            return None
        if isinstance(cout, Exc):
            return f"{skel['enc']} rejected valid text {text!r}: {cout}"
        exp = [alpha.index(chr(u)) for u in up]
        if cout["codes"] != exp or cout["decoded"] != up or cout["lens"] != list(skel["lens"]):
            return f"encode({text!r}) codes={cout['codes']} decoded={cout['decoded']} lens={cout['lens']}; expected codes={exp} decoded={up}"
        return None


class Retarget(Harness):
    """already-encoded data presented to another alphabet encoding / change_encoding: same text or raise"""
    name = "retarget"
    functions = ("as_encoded_array (re-targeting branch)", "change_encoding")
    bounds = {"quick": "all ordered pairs of the 10 alphabets, code arrays of length 1-2 (every code of the source alphabet)",
              "thorough": "lengths 1-4, plus ragged [2,1]"}

    def skeletons(self, tier, seed):
        out = []
        Ls = [1, 2] if tier == "quick" else [1, 2, 3, 4]
        for a, b in itertools.permutations(NAMES, 2):
            for L in Ls:
                out.append(dict(src=a, dst=b, n=L, ragged=False))
            if tier == "thorough":
                out.append(dict(src=a, dst=b, n=3, ragged=True))
        return out

    def inputs(self, skel, V):
        for i in range(skel["n"]):
            V.int(f"c{i}", 0, len(ALPHABETS[skel["src"]]) - 1)

    def call(self, skel, x, ctx):
        from bionumpy.encoded_array import EncodedArray, EncodedRaggedArray, as_encoded_array, change_encoding
        src, dst = get_enc(skel["src"]), get_enc(skel["dst"])
        codes = [x[f"c{i}"] for i in range(skel["n"])]

        def mk():
            ea = EncodedArray(ctx.arr(codes, "uint8"), src)
            return EncodedRaggedArray(ea, [2, 1]) if skel["ragged"] else ea
        res = {}
        for nm, fn in (("as_encoded_array", as_encoded_array), ("change_encoding", change_encoding)):
            try:
                r = fn(mk(), dst)
            except Exception as e:
                res[nm] = "raised:" + type(e).__name__
                continue
            assert r.encoding == dst
            try:
                res[nm] = ctx.lst(dst.decode(r).ravel().raw())
            except IndexError:
                res[nm] = "invalid"      # data was accepted but carries codes outside the target alphabet
        return res

    def _text(self, skel, codes):
        alpha = ALPHABETS[skel["src"]]
        out = []
        for c in codes:
            t = z3.IntVal(-1)
            for i, a in enumerate(alpha):
                t = z3.If(c == i, ord(a), t)
            out.append(t)
        return out

    def post(self, skel, x, out):
        if isinstance(out, Exc):
            return False
        codes = [x[f"c{i}"].t for i in range(skel["n"])]
        text = self._text(skel, codes)
        conj = []
        for nm in ("as_encoded_array", "change_encoding"):
            r = out[nm]
            if r == "invalid":
                return False
            if isinstance(r, str):
                if nm == "change_encoding":
                    # decode-then-encode must succeed exactly when every letter is in the target alphabet
                    dst = ALPHABETS[skel["dst"]]
                    conj.append(z3.Not(z3.And(*[in_set(t, [ord(a) for a in dst]) for t in text])))
                continue
            if len(r) != len(codes):
                return False
            conj += [TI(d) == t for d, t in zip(r, text)]
        return z_and(conj)

    def oracle(self, skel, cx, cout):
        if isinstance(cout, Exc):
            return f"unexpected {cout}"
        src, dst = ALPHABETS[skel["src"]], ALPHABETS[skel["dst"]]
        text = [ord(src[cx[f"c{i}"]]) for i in range(skel["n"])]
        for nm in ("as_encoded_array", "change_encoding"):
            r = cout[nm]
            if r == "invalid":
                return f"{nm}({bytes(text).decode()!r} encoded with {skel['src']}, {skel['dst']}) was accepted but holds codes outside the target alphabet"
            if isinstance(r, str):
                if nm == "change_encoding" and all(chr(t) in dst for t in text):
                    return f"change_encoding({bytes(text).decode()!r}: {skel['src']}->{skel['dst']}) {r} although every letter is in the target alphabet"
                continue
            if r != text:
                return (f"{nm}({bytes(text).decode()!r} encoded with {skel['src']}, {skel['dst']}) decodes to "
                        f"{bytes(r).decode('latin1')!r}: silently different letters")
        return None


class Numeric(Harness):
    """numeric encodings by offset (FASTQ qualities '!'+q, digits '0'+d): value = byte - offset, decode is the inverse, input untouched"""
    name = "numeric"
    functions = ("DigitEncodingFactory._encode/_decode", "OneToOneEncoding.encode/decode (numeric branch)", "as_encoded_array")
    bounds = {"quick": "QualityEncoding (bytes '!'..'~') and DigitEncoding ('0'..'9'); base-encoded array of 1 and 3 bytes, ragged [2,0,1]; "
                       "via enc.encode and via as_encoded_array",
              "thorough": "adds array of 5 bytes, ragged [1,3,0,2]"}
    OFFSET = {"QualityEncoding": (33, 126), "DigitEncoding": (48, 57)}

    def skeletons(self, tier, seed):
        shapes = [("array", [1]), ("array", [3]), ("ragged", [2, 0, 1])] + ([("array", [5]), ("ragged", [1, 3, 0, 2])] if tier == "thorough" else [])
        return [dict(enc=e, kind=k, lens=l, via=v) for e in self.OFFSET for k, l in shapes for v in ("encode", "as_encoded_array")]

    def inputs(self, skel, V):
        lo, hi = self.OFFSET[skel["enc"]]
        for i in range(sum(skel["lens"])):
            V.int(f"b{i}", lo, hi)

    def call(self, skel, x, ctx):
        import bionumpy.encodings as E
        from bionumpy.encoded_array import EncodedArray, EncodedRaggedArray, BaseEncoding, as_encoded_array
        enc = getattr(E, skel["enc"])
        n = sum(skel["lens"])
        flat = EncodedArray(ctx.arr([x[f"b{i}"] for i in range(n)], "uint8"), BaseEncoding)
        data = flat if skel["kind"] == "array" else EncodedRaggedArray(flat, list(skel["lens"]))
        res = enc.encode(data) if skel["via"] == "encode" else as_encoded_array(data, enc)
        dec = enc.decode(res)
        rav = lambda a: a.ravel() if hasattr(a, "ravel") else a
        raw = lambda a: a.raw() if hasattr(a, "raw") else a
        lens = [int(l) for l in res.lengths] if skel["kind"] == "ragged" else [len(res)]
        return dict(codes=ctx.lst(raw(rav(res))), decoded=ctx.lst(raw(rav(dec))), lens=lens, src=ctx.lst(flat.raw()))

    def post(self, skel, x, out):
        if isinstance(out, Exc):
            return False
        n = sum(skel["lens"])
        lo = self.OFFSET[skel["enc"]][0]
        if out["lens"] != list(skel["lens"]) or any(len(out[k]) != n for k in ("codes", "decoded", "src")):
            return False
        bs = [x[f"b{i}"].t for i in range(n)]
        return z_and([TI(c) == b - lo for c, b in zip(out["codes"], bs)] + [TI(d) == b for d, b in zip(out["decoded"], bs)] +
                     [TI(v) == b for v, b in zip(out["src"], bs)])

    def oracle(self, skel, cx, cout):
        if isinstance(cout, Exc):
            return f"{skel['enc']} raised {cout!r}"
        n = sum(skel["lens"])
        lo = self.OFFSET[skel["enc"]][0]
        bs = [cx[f"b{i}"] for i in range(n)]
        exp = dict(codes=[b - lo for b in bs], decoded=bs, lens=list(skel["lens"]), src=bs)
        got = {k: ([int(v) for v in cout[k]]) for k in exp}
        return None if got == exp else f"{skel['enc']} via {skel['via']} on {bytes(bs)!r} rows {skel['lens']}: {got}, expected {exp}"


HARNESSES = [Encode(), Retarget(), Numeric()]


def prelude(tier):
    """Stub-boundary validation.  The str / list-of-str entry points are driven symbolically through a stub (encoded_array.bytes/ord accept a
    symbolic str whose characters are bytes 0..127).  What lies before that boundary - turning a real Python str into bytes - is exercised
    here on CONCRETE probe strings run through the real, unstubbed library: alphabet letters in both cases and foreign characters incl. control
    characters inside list elements and code points >= 128 / >= 256 that alias an alphabet letter modulo 256.  A deviation from the alphabet
    specification is a real-run violation; this part is probing, not a solver verdict, and is reported as such in the evidence."""
    import time
    from bionumpy.encoded_array import as_encoded_array
    t0 = time.time()
    res = dict(obligations=0, discharged=0, queries=0, inconclusive=[], violations=[], samples=[])
    n = 0
    for name, alpha in ALPHABETS.items():
        enc = get_enc(name)
        a0, a1 = alpha[0], alpha[-1]
        foreign = ["\n", "\t", "\0", " ", "\r", chr(127), chr(128), chr(233), chr(255), chr(256 + ord(a0)), chr(512 + ord(a1.lower())), chr(0x147), chr(0x131)]
        probes = [a0, a1, a0.lower() + a1, a0 + a1 + a0]
        for f in foreign:
            probes += [f, a0 + f, f + a1, a0 + f + a1]
        lists = [[a0, a1 + a0], [a0 + a1, "", a0]]
        for f in foreign[:6] + foreign[9:]:
            lists += [[a0 + f + a1, a0], [a0, f + a1], [a0 + a1, a1 + f]]
        for data in probes + lists:
            n += 1
            flat = data if isinstance(data, str) else "".join(data)
            ok = all(c.upper() in alpha or c in alpha for c in flat) and all(ord(c) < 128 for c in flat)
            try:
                r = as_encoded_array(data, enc)
                dec = enc.decode(r)
                got = dec.to_string() if isinstance(data, str) else [row.to_string() for row in dec]
                outcome = ("ok", got)
            except Exception as e:
                outcome = ("raised", type(e).__name__)
            exp = ("ok", data.upper() if isinstance(data, str) else [d.upper() for d in data]) if ok else ("raised", None)
            good = (outcome == exp) if ok else outcome[0] == "raised"
            if not good:
                res["violations"].append(dict(obligation="str-entry-probe", inputs=dict(encoding=name, text=repr(data)), output=repr(outcome),
                                              why=f"[real run, concrete probe of the str entry point] as_encoded_array({data!r}, {name}) gave {outcome}, "
                                                  f"the alphabet {alpha!r} {'contains every character: expected ' + repr(exp[1]) if ok else 'does not contain every character: it must be refused'}"))
                if len(res["violations"]) >= 5:
                    break
    # decode of a re-ordered row selection that has not been flattened yet; an encoded array handed to the constructor under ANOTHER alphabet
    from bionumpy.encoded_array import EncodedArray, EncodedRaggedArray
    import numpy as _np
    m = 0
    for name, alpha in ALPHABETS.items():
        enc = get_enc(name)
        rows = [alpha[:2], alpha[2:] + alpha[0], alpha[-1], alpha[1] + alpha[0] + alpha[1]]
        for sel_name, sel, pick in (("[[1, 0]]", lambda x: x[[1, 0]], [1, 0]), ("[::-1]", lambda x: x[::-1], [3, 2, 1, 0]), ("[[2, 0, 1]]", lambda x: x[[2, 0, 1]], [2, 0, 1]),
                                    ("[[3, 3, 0]]", lambda x: x[[3, 3, 0]], [3, 3, 0])):
            m += 1
            try:
                got = [r.to_string() for r in enc.decode(sel(as_encoded_array(rows, enc)))]
            except Exception as e:
                got = ("raised", type(e).__name__)
            exp = [rows[i] for i in pick]
            if got != exp:
                res["violations"].append(dict(obligation="decode-of-selection", inputs=dict(encoding=name, rows=rows, selection=sel_name), output=repr(got),
                                              why=f"[real run, concrete probe] {name}.decode(x{sel_name}) for x = {rows} gave {got}, expected {exp}"))
        for other, oalpha in ALPHABETS.items():
            if oalpha == alpha or len(oalpha) != len(alpha) or sorted(oalpha) != sorted(alpha):
                continue
            m += 1
            x = as_encoded_array(alpha, enc)
            for what, make in (("EncodedArray(x, other)", lambda: EncodedArray(x, get_enc(other))),
                               ("EncodedRaggedArray(EncodedArray(x.ravel(), other), [n])", lambda: EncodedRaggedArray(EncodedArray(x.ravel(), get_enc(other)), [len(alpha)]))):
                try:
                    y = make()
                    txt = get_enc(other).decode(y.ravel()).to_string()
                    outcome = ("built", txt)
                except Exception as e:
                    outcome = ("raised", type(e).__name__)
                if outcome[0] == "built" and outcome[1] != alpha:
                    res["violations"].append(dict(obligation="constructor-relabels", inputs=dict(source=name, target=other), output=repr(outcome),
                                                  why=f"[real run, concrete probe] {what} with x = {alpha!r} encoded as {name} and other = {other}: the codes were taken over "
                                                      f"unchanged and now read {outcome[1]!r} (an array in another alphabet must be refused or converted)"))
    res["solver_s"] = time.time() - t0
    res["summary"] = f"decode of {m} unflattened selections / cross-alphabet constructions probed; str / list-of-str entry point probed on {n} concrete texts per run (control characters, code points >= 128 and >= 256): {len(res['violations'])} deviations"
    return res
