"""C04 -- unmodified records and fields are written back byte-for-byte."""
import itertools
import z3
from vlib.harness import Harness, Exc
from vlib.zutil import TI, TB, z_and, z_or
from checks import textfmt as F
from checks.C18 import canonical_text_post


class C0:
    def __getitem__(self, k):
        return 0


def is_seq(skel):
    return skel["fmt"] in F.SEQ_FORMATS


def record_bytes(skel, x, r):
    """bytes of record r as they stand in the file (with line terminator)"""
    if is_seq(skel):
        return F.seq_content(dict(skel, records=[skel["records"][r]], no_final_newline=False), _Shift(x, r, "q"))
    return F.content(dict(skel, rows=[skel["rows"][r]], header=[], no_final_newline=False), _Shift(x, r, "c"))


class _Shift:
    """view of the variables of record r as if it were record 0"""
    def __init__(self, x, r, prefix):
        self.x, self.r, self.p = x, r, prefix

    def __getitem__(self, k):
        if self.p == "c":
            assert k.startswith("c0_")
            return self.x[f"c{self.r}_" + k[3:]]
        kind, rest = k[1], k[2:]
        assert rest.startswith("0_")
        return self.x[f"q{kind}{self.r}_" + rest[2:]]


# selection programs over the list of record indices; 'M' = symbolic boolean mask, 'L' = symbolic integer list of length 2
PROGRAMS = {
    "all": [], "tail": [("slice", 1, None, None)], "step": [("slice", None, None, 2)], "rev": [("slice", None, None, -1)],
    "mask": [("mask",)], "list": [("ilist", 2)], "fixed": [("fixed", [2, 0, 0])],
    "list3": [("ilist", 3)], "fixed_asc": [("fixed", [0, 0, 2])],       # as many entries as the table has, with repeats (same total size possible)
    "mask_tail": [("mask",), ("slice", 1, None, None)], "tail_rev": [("slice", 1, None, None), ("slice", None, None, -1)],
    "step_list": [("slice", None, None, 2), ("ilist", 2)],
    "cat": [("concat", [("slice", 1, None, None)], [("slice", None, 2, None)])],
    "cat_fixed_step": [("concat", [("fixed", [2, 0])], [("slice", None, None, 2)])],
    "cat_mask": [("concat", [("mask",)], [("slice", None, None, -1)])],
}


def run_program(prog, table, x, ctx, n, log, counter):
    """apply the selection program to the real table; records the concrete choices made in `log`"""
    for op in prog:
        cur_n = len(table)
        if op[0] == "slice":
            table = table[slice(op[1], op[2], op[3])]
        elif op[0] == "mask":
            k = counter[0]; counter[0] += 1
            bits = [x[f"m{k}_{i}"] for i in range(cur_n)]
            table = table[ctx.arr(bits, "int64") == 1]
            log.append(("mask", [bool(b == 1) for b in bits]))
        elif op[0] == "ilist":
            k = counter[0]; counter[0] += 1
            idx = [x[f"i{k}_{j}"] for j in range(op[1])]
            for v in idx:
                if not bool((v >= 0) & (v < cur_n)) if ctx.mode == "plain" else not bool(_inrange(v, cur_n)):
                    raise IndexError("harness: index out of range for this selection")
            table = table[ctx.arr(idx, "int64")]
            log.append(("ilist", [int(v) for v in idx]))
        elif op[0] == "fixed":
            if max(op[1]) >= cur_n:
                raise IndexError("harness: index out of range for this selection")
            table = table[list(op[1])]
        elif op[0] == "concat":
            a = run_program(op[1], table, x, ctx, n, log, counter)
            b = run_program(op[2], table, x, ctx, n, log, counter)
            table = ctx.np.concatenate([a, b])
    return table


def _inrange(v, n):
    from symnp.core import S_land, S_ge, S_lt
    return S_land(S_ge(v, 0), S_lt(v, n))


def model_program(prog, idx, log):
    """the same program on the Python list of record indices, using the logged concrete choices"""
    for op in prog:
        if op[0] == "slice":
            idx = idx[slice(op[1], op[2], op[3])]
        elif op[0] == "mask":
            bits = log.pop(0)[1]
            idx = [i for i, b in zip(idx, bits) if b]
        elif op[0] == "ilist":
            sel = log.pop(0)[1]
            idx = [idx[j] for j in sel]
        elif op[0] == "fixed":
            idx = [idx[j] for j in op[1]]
        elif op[0] == "concat":
            a = model_program(op[1], idx, log)
            b = model_program(op[2], idx, log)
            idx = a + b
    return idx


def count_symbols(prog, n):
    """number of mask / ilist operators (each gets its own variables; masks are declared with n bits, the longest possible)"""
    c = 0
    for op in prog:
        if op[0] in ("mask", "ilist"):
            c += 1
        elif op[0] == "concat":
            c += count_symbols(op[1], n) + count_symbols(op[2], n)
    return c


class WriteBack(Harness):
    name = "writeback"
    functions = ("NpDataclassReader.read (lazy)", "LazyBNPDataClass.__getitem__/get_buffer/__replace__/__array_function__(concatenate)",
                 "ItemGetter", "TextThroughputExtractor.__getitem__/_make_contigous/concatenate/get_fields_by_range",
                 "DelimitedBuffer.join_fields/get_column_range_as_text", "OneLineBuffer.join_fields", "NpBufferedWriter.write")
    bounds = {"quick": "BED3, BED6, two-line FASTA, FASTQ (plain '+' line), GTF, SAM (with tags), VCF with FORMAT/sample columns: 3 records of "
                       "unequal length with symbolic bytes incl. non-canonical spellings (leading zeros, '+5'); 13 selection programs of 1-2 "
                       "steps (slices, reversal, symbolic boolean mask, symbolic integer list, fixed list with repeats, concatenations); for "
                       "BED3/BED6 additionally replacement of one integer column by symbolic values (replace() or attribute assignment), with other "
                       "columns parsed before / after the replacement; CRLF FASTQ / FASTA selections",
              "thorough": "4 records, all programs for all formats, replacement after every program"}

    FILES = {
        "bed3": dict(fmt="bed3", rows=[[1, 2, 1], [2, 1, 3], [1, 1, 1]], signed=[[1, 1]]),
        "bed6": dict(fmt="bed6", rows=[[1, 1, 2, 1, 1, 1], [2, 2, 2, 2, 2, 1], [1, 1, 1, 1, 1, 1]]),
        "gtf": dict(fmt="gtf", rows=[[1, 1, 1, 2, 2, 1, 1, 1, 2], [1, 2, 1, 1, 1, 1, 1, 1, 1], [2, 1, 2, 1, 2, 1, 1, 1, 3]]),
        "sam": dict(fmt="sam", rows=[[1, 1, 1, 2, 1, 2, 1, 1, 1, 2, 2], [2, 1, 1, 1, 1, 1, 1, 1, 1, 1, 1, 3], [1, 2, 1, 1, 1, 1, 1, 1, 1, 1, 1, 1, 2]],
                    header=["@HD\tVN:1.0"]),
        "fasta2": dict(fmt="fasta2", records=[[1, 2], [2, 1], [1, 3]]),
        "fastq": dict(fmt="fastq", records=[[1, 2], [2, 1], [1, 3]]),
        "bed3_crlf": dict(fmt="bed3", rows=[[1, 2, 1], [2, 1, 3], [1, 1, 1]], crlf=True),
        "fastq_plusname": dict(fmt="fastq", records=[[1, 2], [2, 1], [1, 3]], plus_name=True),
        "fastq_crlf": dict(fmt="fastq", records=[[1, 2], [2, 1], [1, 3]], crlf=True),
        "fasta2_crlf": dict(fmt="fasta2", records=[[1, 2], [2, 1], [1, 3]], crlf=True),
        # records of EQUAL byte length (a selection with repeats can then have exactly the size of the whole buffer)
        "bed3_eq": dict(fmt="bed3", rows=[[1, 2, 1], [1, 2, 1], [1, 1, 2]]),
        "fastq_eq": dict(fmt="fastq", records=[[1, 2], [1, 2], [2, 1]]),
        "vcf": dict(fmt="vcf", rows=[[1, 1, 1, 1, 1, 1, 2, 2, 2, 3, 3], [2, 2, 1, 1, 2, 1, 1, 1, 2, 3, 3], [1, 1, 2, 1, 1, 1, 1, 3, 2, 3, 3]],
                    header=["##fileformat=VCFv4.2", "#CHROM\tPOS\tID\tREF\tALT\tQUAL\tFILTER\tINFO\tFORMAT\tS1\tS2"]),
        # bedGraph lines in a .wig file (values written d.d, which str() of the parsed double reproduces)
        "wig": dict(fmt="wig", rows=[[1, 1, 1, 3], [2, 1, 2, 3], [1, 2, 1, 3]], literal_floats=["1.5", "0.2", "7.0"]),
        "sam_crlf": dict(fmt="sam", rows=[[1, 1, 1, 2, 1, 2, 1, 1, 1, 2, 2, 2], [2, 1, 1, 1, 1, 1, 1, 1, 1, 1, 1, 3], [1, 2, 1, 1, 1, 1, 1, 1, 1, 1, 1, 1]],
                         header=["@HD\tVN:1.0"], crlf=True),
    }

    def skeletons(self, tier, seed):
        out = []
        for name, f in self.FILES.items():
            progs = list(PROGRAMS) if (tier == "thorough" or name in ("bed3", "fastq")) else ["all", "tail", "mask", "fixed", "cat", "step_list"]
            if name in ("bed3_crlf", "fastq_plusname", "fastq_crlf", "fasta2_crlf", "sam_crlf") and tier == "quick":
                progs = ["all", "tail", "fixed", "cat"] if name != "fasta2_crlf" else ["tail", "mask"]
            if name == "wig":
                progs = ["all", "tail", "fixed", "mask"] + (["rev", "cat"] if tier == "thorough" else [])
            if name in ("bed3_eq", "fastq_eq"):
                progs = ["list3", "fixed_asc"] + (["cat", "mask", "rev"] if tier == "thorough" else [])
            for p in progs:
                out.append(dict(f, file=name, prog=p, replace=None))
            if name == "sam":
                out.append(dict(f, file=name, prog="all", replace="position"))
            if name == "vcf":
                for p in (["all", "fixed", "tail"] if tier == "quick" else ["all", "fixed", "rev", "tail", "mask", "list", "cat"]):
                    out.append(dict(f, file=name, prog=p, replace="position"))
            if name in ("vcf", "sam"):
                # histories on one parent table: a write with a replaced column first, then an unmodified selection / the same replaced write
                # again / the untouched source (the first write must leave nothing behind in the shared buffer)
                for p1, p2, r2 in (("all", "fixed", None), ("all", "all", "position"), ("tail", "all", None), ("all", "rev", None)):
                    out.append(dict(f, file=name, prog=p1, replace="position", then=dict(prog=p2, replace=r2)))
                out.append(dict(f, file=name, prog="all", replace="position", then_source=True))
            if name in ("sam", "sam_crlf"):
                # a replaced column on selections that are not a prefix of the file (the other cells, incl. the optional tags, keep their text)
                for p in (["fixed", "rev", "tail"] if tier == "quick" else ["fixed", "rev", "tail", "mask", "list", "cat"]):
                    out.append(dict(f, file=name, prog=p, replace="position"))
                    out.append(dict(f, file=name, prog=p, replace="position", touch=["extra"]))
            if name in ("bed3", "bed6"):
                for p in (["all", "tail", "mask", "fixed", "cat_fixed_step"] if tier == "quick" else list(PROGRAMS)):
                    out.append(dict(f, file=name, prog=p, replace="stop" if name == "bed3" else "start"))
            if name in ("bed3", "bed6"):
                # fields parsed (cached) before / after the replacement, replacement by replace() or by attribute assignment:
                # the columns that were not replaced keep their source text
                col = "stop" if name == "bed3" else "start"
                other = "start" if name == "bed3" else "stop"
                for p in (["all", "mask"] if tier == "quick" else ["all", "tail", "mask", "fixed", "cat"]):
                    for assign in (False, True):
                        out.append(dict(f, file=name, prog=p, replace=col, touch=[other], assign=assign))
                        out.append(dict(f, file=name, prog=p, replace=col, touch_after=[other, col], assign=assign))
                    out.append(dict(f, file=name, prog=p, replace=col, touch_parent=[other], touch=[col], assign=True))
                    out.append(dict(f, file=name, prog=p, replace=None, touch=[other, col]))
                    # branching history: a replace() copy is made (and written), then the UNTOUCHED source selection is written
                    out.append(dict(f, file=name, prog=p, replace=col, then_source=True))
            # histories: a first selection is written, then the SAME parent table is used again
            pairs = [("tail", "all"), ("step", "tail"), ("rev", "fixed"), ("mask", "rev")]
            if tier == "thorough":
                pairs += [("tail_rev", "step"), ("list", "all"), ("cat", "mask")]
            for p1, p2 in pairs:
                if name in ("bed3", "fastq") or tier == "thorough":
                    out.append(dict(f, file=name, prog=p1, replace=None, then=dict(prog=p2, replace=None)))
                if name in ("bed3", "bed6"):
                    out.append(dict(f, file=name, prog=p1, replace=None, then=dict(prog=p2, replace="stop" if name == "bed3" else "start")))
        return out

    def inputs(self, skel, V):
        n = len(skel.get("records", skel.get("rows")))
        if is_seq(skel):
            F.declare_seq(V, skel)
        else:
            F.declare_cells(V, skel)
        nsym = count_symbols(PROGRAMS[skel["prog"]], n) + (count_symbols(PROGRAMS[skel["then"]["prog"]], n) if skel.get("then") else 0)
        for k in range(nsym):
            for i in range(2 * n):
                V.int(f"m{k}_{i}", 0, 1)
            for j in range(3):
                V.int(f"i{k}_{j}", 0, n - 1)
        if skel["replace"] or (skel.get("then") or {}).get("replace"):
            for j in range(2 * n + 2):
                V.int(f"new{j}", 0, 12)

    def call(self, skel, x, ctx):
        from bionumpy.io.parser import NumpyFileReader, NpBufferedWriter
        from bionumpy.io.npdataclassreader import NpDataclassReader
        from bionumpy.bnpdataclass import replace
        B = F.get_seq_buffer(skel["fmt"]) if is_seq(skel) else F.get_buffer(skel["fmt"])
        content = F.seq_content(skel, x) if is_seq(skel) else F.content(skel, x)
        n = len(skel.get("records", skel.get("rows")))
        table = NpDataclassReader(NumpyFileReader(ctx.file(content), B), lazy=True).read()
        log = []
        counter = [0]
        for fld in skel.get("touch_parent", []):
            getattr(table, fld)
        sel = run_program(PROGRAMS[skel["prog"]], table, x, ctx, n, log, counter)
        m = len(sel)
        for fld in skel.get("touch", []):
            getattr(sel, fld)                      # parses and caches the field on the lazy object
        source = sel
        if skel["replace"]:
            values = ctx.arr([x[f"new{j}"] for j in range(m)], "int64")
            if skel.get("assign"):
                setattr(sel, skel["replace"], values)
            else:
                sel = replace(sel, **{skel["replace"]: values})
        for fld in skel.get("touch_after", []):
            getattr(sel, fld)
        f = ctx.wfile()
        NpBufferedWriter(f, B).write(sel)
        res = dict(bytes=ctx.file_bytes(f), log=log, m=m)
        if skel.get("then_source"):
            # branching history: the replace() copy has been made and written; the source selection itself was not replaced
            fs = ctx.wfile()
            NpBufferedWriter(fs, B).write(source)
            res["source_bytes"] = ctx.file_bytes(fs)
        if skel.get("then"):
            log2 = []
            sel2 = run_program(PROGRAMS[skel["then"]["prog"]], table, x, ctx, n, log2, counter)
            m2 = len(sel2)
            if skel["then"]["replace"]:
                sel2 = replace(sel2, **{skel["then"]["replace"]: ctx.arr([x[f"new{j}"] for j in range(m2)], "int64")})
            f2 = ctx.wfile()
            NpBufferedWriter(f2, B).write(sel2)
            res["then"] = dict(bytes=ctx.file_bytes(f2), log=log2, m=m2)
        return res

    def _expected(self, skel, g, log, m):
        """list of expected record descriptions: for each output record its source index"""
        n = len(skel.get("records", skel.get("rows")))
        return model_program(PROGRAMS[skel["prog"]], list(range(n)), list(log))

    def post(self, skel, x, out):
        if isinstance(out, Exc):
            return out.type == "IndexError" and "harness" in out.msg      # program not applicable to this selection size
        first = self._post_one(skel, x, out)
        if first is not False and "source_bytes" in out:
            src = self._post_one(dict(skel, replace=None), x, dict(out, bytes=out["source_bytes"]))
            first = False if src is False else z3.And(first, src)
        if first is False or "then" not in out:
            return first
        second = self._post_one(dict(skel, prog=skel["then"]["prog"], replace=skel["then"]["replace"]), x, out["then"])
        if second is False:
            return False
        return z3.And(first, second)

    def _post_one(self, skel, x, out):
        idx = self._expected(skel, None, out["log"], out["m"])
        if len(idx) != out["m"]:
            return False
        nl = [13, 10] if skel.get("crlf") else [10]
        hdr = sum((list(h.encode()) + nl for h in skel.get("header", [])), [])
        got = out["bytes"]
        conj = []
        if not skel["replace"]:
            exp = hdr + [b for r in idx for b in record_bytes(skel, x, r)]
            if len(exp) != len(got):
                return False
            return z_and([TI(g) == (e.t if hasattr(e, "t") else e) for g, e in zip(got, exp)])
        # with a replaced column: split the output on the concrete separators and compare cell by cell
        col = [nm for nm, _ in F.FORMATS[skel["fmt"]]["cols"]].index(skel["replace"])
        body = got[len(hdr):]
        if got[:len(hdr)] != hdr:
            return False
        lines, cur, cells = [], [], []
        for b in body:
            if isinstance(b, int) and b == 10:
                cells.append(cur); lines.append(cells); cur, cells = [], []
            elif isinstance(b, int) and b == 9:
                cells.append(cur); cur = []
            else:
                cur.append(b)
        if cur or cells or len(lines) != len(idx):
            return False
        for j, (cells, r) in enumerate(zip(lines, idx)):
            widths = skel["rows"][r]
            if len(cells) != len(widths):
                return False
            if skel.get("crlf") and cells[-1] and isinstance(cells[-1][-1], int) and cells[-1][-1] == 13:
                cells[-1] = cells[-1][:-1]         # a re-assembled record of a CRLF file may end with CRLF or LF (the property is about the cells)
            for c, w in enumerate(widths):
                if c == col:
                    if not cells[c]:
                        return False
                    conj.append(canonical_text_post(x[f"new{j}"].t + F.FORMATS[skel["fmt"]].get("write_offset", {}).get(skel["replace"], 0),
                                                    len(cells[c]), cells[c]))
                else:
                    if len(cells[c]) != w:
                        return False
                    conj += [TI(a) == x[f"c{r}_{c}_{k}"].t for k, a in enumerate(cells[c])]
        return z_and(conj)

    def oracle(self, skel, cx, cout):
        if isinstance(cout, Exc):
            if cout.type == "IndexError" and "harness" in cout.msg:
                return None
            return f"raised {cout}"
        r = self._oracle_one(skel, cx, cout)
        if r is None and "source_bytes" in cout:
            r = self._oracle_one(dict(skel, replace=None), cx, dict(cout, bytes=cout["source_bytes"]))
            if r is not None:
                r = f"after a replace() copy of the selection was made and written, the untouched selection itself: " + r
        if r is None and "then" in cout:
            r = self._oracle_one(dict(skel, prog=skel["then"]["prog"], replace=skel["then"]["replace"]), cx, cout["then"])
            if r is not None:
                r = f"after first writing selection {skel['prog']} of the same table: " + r
        return r

    def _oracle_one(self, skel, cx, cout):
        idx = self._expected(skel, None, cout["log"], cout["m"])
        nl = [13, 10] if skel.get("crlf") else [10]
        hdr = sum((list(h.encode()) + nl for h in skel.get("header", [])), [])
        text = bytes(F.seq_content(skel, cx) if is_seq(skel) else F.content(skel, cx))
        if not skel["replace"]:
            exp = hdr + [b for r in idx for b in record_bytes(skel, cx, r)]
        else:
            col = [nm for nm, _ in F.FORMATS[skel["fmt"]]["cols"]].index(skel["replace"])
            exp = list(hdr)
            for j, r in enumerate(idx):
                cells = [[cx[f"c{r}_{c}_{k}"] for k in range(w)] for c, w in enumerate(skel["rows"][r])]
                cells[col] = list(str(cx[f"new{j}"] + F.FORMATS[skel["fmt"]].get("write_offset", {}).get(skel["replace"], 0)).encode())
                exp += [b for c, cell in enumerate(cells) for b in (cell + ([9] if c < len(cells) - 1 else [10]))]
        if cout["bytes"] != exp and not (skel["replace"] and skel.get("crlf") and bytes(cout["bytes"]).replace(b"\r\n", b"\n") == bytes(exp).replace(b"\r\n", b"\n")):
            return (f"file {text!r} read lazily, program {skel['prog']} (choices {cout['log']}) selects records {idx}"
                    f"{', column ' + skel['replace'] + ' replaced' if skel['replace'] else ''}: written {bytes(cout['bytes'])!r}, expected {bytes(exp)!r}")
        return None


from checks.C16 import WriteBack as _BamWriteBack


class BamWriteBack(_BamWriteBack):
    """BAM records written back byte for byte (the C16 write-back harness under its C04 name)"""
    name = "bam_writeback"


HARNESSES = [WriteBack(), BamWriteBack()]
