"""C03 -- write then read returns the same table; writing is canonical and composable."""
import itertools
import z3
from vlib.harness import Harness, Exc
from vlib.zutil import TI, TB, z_and, z_or
from checks import textfmt as F
from checks.C18 import canonical_text_post

# tables: (dataclass path, buffer path, columns [(field, kind)]) ; kinds as in textfmt (+ 'seq', 'qualv')
TABLES = {
    "bed3": dict(dc=("bionumpy.datatypes", "Interval"), buf=("bionumpy.io.delimited_buffers", "BedBuffer"),
                 cols=[("chromosome", "id"), ("start", "int"), ("stop", "int")]),
    "bed6": dict(dc=("bionumpy.datatypes", "Bed6"), buf=("bionumpy.io.delimited_buffers", "Bed6Buffer"),
                 cols=[("chromosome", "id"), ("start", "int"), ("stop", "int"), ("name", "id"), ("score", "int"), ("strand", "strand")]),
    "chromsizes": dict(dc=("bionumpy.datatypes", "ChromosomeSize"), buf=("bionumpy.io.delimited_buffers", "ChromosomeSizeBuffer"),
                       cols=[("name", "id"), ("size", "int")]),
    "vcf": dict(dc=("bionumpy.datatypes", "VCFWithInfoAsStringEntry"), buf=("bionumpy.io.vcf_buffers", "VCFWithInfoAsStringBuffer"),
                cols=[("chromosome", "id"), ("position", "int"), ("id", "str"), ("ref_seq", "str"), ("alt_seq", "str"), ("quality", "str"),
                      ("filter", "str"), ("info", "str")], header=True),
    # the plain VCF entry (its INFO column is declared Union[parsed table, text]) built in memory with the INFO column as text
    "vcf_entry": dict(dc=("bionumpy.datatypes", "VCFEntry"), buf=("bionumpy.io.vcf_buffers", "VCFBuffer"),
                      cols=[("chromosome", "id"), ("position", "int"), ("id", "str"), ("ref_seq", "str"), ("alt_seq", "str"), ("quality", "str"),
                            ("filter", "str"), ("info", "str")], header=True),
    "gtf": dict(dc=("bionumpy.datatypes", "GTFEntry"), buf=("bionumpy.io.delimited_buffers", "GTFBuffer"),
                cols=[("chromosome", "id"), ("source", "str"), ("feature_type", "id"), ("start", "int"), ("stop", "int"), ("score", "str"),
                      ("strand", "strand"), ("phase", "str"), ("atributes", "str")]),
    "bed12": dict(dc=("bionumpy.datatypes", "Bed12"), buf=("bionumpy.io.delimited_buffers", "Bed12Buffer"),
                  cols=[("chromosome", "id"), ("start", "int"), ("stop", "int"), ("name", "id"), ("score", "int"), ("strand", "strand"),
                        ("thick_start", "int"), ("thick_end", "int"), ("item_rgb", "str"), ("block_count", "int"),
                        ("block_sizes", "ilist"), ("block_starts", "ilist")]),
    "bedgraph": dict(dc=("bionumpy.datatypes", "BedGraph"), buf=("bionumpy.io.delimited_buffers", "BdgBuffer"),
                     cols=[("chromosome", "id"), ("start", "int"), ("stop", "int"), ("value", "fconst")]),
    "fasta2": dict(dc=("bionumpy.datatypes", "SequenceEntry"), buf=("bionumpy.io.one_line_buffer", "TwoLineFastaBuffer"),
                   cols=[("name", "id"), ("sequence", "str")]),
    "mfasta": dict(dc=("bionumpy.datatypes", "SequenceEntry"), buf=("bionumpy.io.multiline_buffer", "MultiLineFastaBuffer"),
                   cols=[("name", "id"), ("sequence", "str")]),
    "fastq": dict(dc=("bionumpy.datatypes", "SequenceEntryWithQuality"), buf=("bionumpy.io.fastq_buffer", "FastQBuffer"),
                  cols=[("name", "id"), ("sequence", "str"), ("quality", "qualv")]),
}
VCF_DEFAULT_HEADER = "##fileformat=VCFv4.1\n#CHROM\tPOS\tID\tREF\tALT\tQUAL\tFILTER\tINFO\tFORMAT\n"


def _get(path):
    import importlib
    return getattr(importlib.import_module(path[0]), path[1])


def declare_table(V, skel):
    """skel["rows"]: per row, per column the text width (str kinds) or the int range index"""
    cols = TABLES[skel["table"]]["cols"]
    for r, widths in enumerate(skel["rows"]):
        for c, w in enumerate(widths):
            kind = cols[c][1]
            if kind == "int":
                lo, hi = skel["big_range"] if skel.get("big_col") == c else skel.get("int_range", [0, 12])
                V.int(f"t{r}_{c}", lo, hi)
            elif kind == "fconst":                     # concrete doubles given by the skeleton (float text is made by Python's str())
                pass
            elif kind == "strand":
                V.int(f"t{r}_{c}", 0, 2)
            elif kind == "ilist":                      # w = number of elements of the list
                lo, hi = skel.get("int_range", [0, 12])
                for j in range(w):
                    V.int(f"t{r}_{c}_{j}", lo, hi)
            elif kind == "qualv":
                for j in range(w):
                    V.int(f"t{r}_{c}_{j}", 0, 93)
            else:
                for j in range(w):
                    v = V.int(f"t{r}_{c}_{j}", F.ID_LO, F.ID_HI)
                    V.assume(F._id_ok(v.t))


def build_table(ctx, skel, x, rows=None):
    from bionumpy.encoded_array import EncodedArray, EncodedRaggedArray, BaseEncoding
    from bionumpy.encodings import StrandEncoding
    from npstructures import RaggedArray
    spec = TABLES[skel["table"]]
    rows = list(range(len(skel["rows"]))) if rows is None else rows
    cols = {}
    for c, (nm, kind) in enumerate(spec["cols"]):
        if kind == "int":
            cols[nm] = ctx.arr([x[f"t{r}_{c}"] for r in rows], "int64")
        elif kind == "strand":
            cols[nm] = EncodedArray(ctx.arr([x[f"t{r}_{c}"] for r in rows], "uint8"), StrandEncoding)
        elif kind == "fconst":
            cols[nm] = ctx.arr([float(skel["floats"][r]) for r in rows], "float64")
        elif kind == "ilist":
            flat = [x[f"t{r}_{c}_{j}"] for r in rows for j in range(skel["rows"][r][c])]
            cols[nm] = RaggedArray(ctx.arr(flat, "int64"), [skel["rows"][r][c] for r in rows])
        elif kind == "qualv":
            flat = [x[f"t{r}_{c}_{j}"] for r in rows for j in range(skel["rows"][r][c])]
            cols[nm] = RaggedArray(ctx.arr(flat, "uint8"), [skel["rows"][r][c] for r in rows])
        else:
            flat = [x[f"t{r}_{c}_{j}"] for r in rows for j in range(skel["rows"][r][c])]
            cols[nm] = EncodedRaggedArray(EncodedArray(ctx.arr(flat, "uint8"), BaseEncoding), [skel["rows"][r][c] for r in rows])
    return _get(spec["dc"])(**cols)


def buffer_type(skel):
    B = _get(TABLES[skel["table"]]["buf"])
    if skel["table"] == "mfasta":
        class Wrapped(B):
            n_characters_per_line = skel["width"]
        return Wrapped
    return B


def _close(got, want):
    """float read back: equal to the written double up to a relative 1e-12 (accuracy in ulps is outside the claim, DESIGN 8.1)"""
    try:
        got, want = float(got), float(want)
    except Exception:
        return False
    return got == want or abs(got - want) <= 1e-12 * abs(want)


def partition(rows, cuts):
    """split row indices at the given cut positions"""
    pieces, prev = [], 0
    for c in list(cuts) + [len(rows)]:
        pieces.append(rows[prev:c]); prev = c
    return pieces


class Write(Harness):
    name = "write"
    functions = ("NpBufferedWriter.write", "DelimitedBuffer.from_data/make_header", "dump_csv/get_column/join_columns", "ints_to_strings",
                 "OneLineBuffer.from_data/join_fields", "FastQBuffer.from_data", "MultiLineFastaBuffer.from_data (wrap arithmetic)",
                 "VCFBuffer.from_data (POS+1)/make_header", "then the readers of C02 on the symbolic bytes written")
    stubs = ("SymFile as output file (plain, mode 'w')", "MultiLineFastaBuffer.n_characters_per_line set to 2/3 in a subclass so that "
             "sequence lengths around multiples of the line width are within reach")
    bounds = {"quick": "Interval, Bed6, ChromosomeSize, VCF (info as string), GTF, two-line FASTA, wrapped FASTA (line width 2-3, sequence "
                       "lengths w-1, w, w+1, 2w), FASTQ; 0-3 rows; integer cells symbolic in [0,12] ([-12,12] for 2-row BED3); text cells "
                       "symbolic; every split of the rows into successive write calls (including empty pieces), the pieces being slices of the "
                       "one table object, which is then written once more",
              "thorough": "every split of the rows; integer cells in [-10^4, 10^4] (tables with <= 2 integer cells), [-1200, 1200] (<= 4), "
                          "[0, 120] (more); longer wrapped sequences"}
    assumptions = ("float columns: concrete doubles per skeleton (float_to_strings formats with Python's str(), a symbolic double cannot pass "
                   "through it); the value read back is compared up to a relative 1e-12",
                   "append mode is driven through bnp.open with in-memory targets that carry the `mode` attribute of builtin files / GzipFile; compression itself is not encoded")

    def skeletons(self, tier, seed):
        out = []
        T = {"bed3": [[], [[1, 0, 0]], [[2, 0, 0], [1, 0, 0]], [[1, 0, 0], [3, 0, 0], [1, 0, 0]]],
             "bed6": [[[1, 0, 0, 2, 0, 0]], [[2, 0, 0, 1, 0, 0], [1, 0, 0, 3, 0, 0]]],
             "chromsizes": [[[1, 0], [4, 0]]],
             "vcf": [[[1, 0, 1, 1, 2, 1, 1, 3]], [[2, 0, 1, 2, 1, 1, 4, 1], [1, 0, 2, 1, 1, 1, 1, 2]]],
             "vcf_entry": [[[1, 0, 1, 1, 2, 1, 1, 3], [2, 0, 2, 1, 1, 1, 1, 1]]],
             "gtf": [[[1, 2, 1, 0, 0, 1, 0, 1, 3], [2, 1, 4, 0, 0, 1, 0, 1, 1]]],
             "bed12": [[[1, 0, 0, 1, 0, 0, 0, 0, 1, 0, 2, 2], [2, 0, 0, 1, 0, 0, 0, 0, 1, 0, 1, 1], [1, 0, 0, 2, 0, 0, 0, 0, 1, 0, 3, 3]],
                       # records whose lists are EMPTY: in the middle and at the end of the table
                       [[1, 0, 0, 1, 0, 0, 0, 0, 1, 0, 2, 2], [1, 0, 0, 1, 0, 0, 0, 0, 1, 0, 0, 0], [1, 0, 0, 1, 0, 0, 0, 0, 1, 0, 1, 1],
                        [1, 0, 0, 1, 0, 0, 0, 0, 1, 0, 0, 0]]],
             "fasta2": [[[1, 1]], [[2, 3], [1, 1]], [[1, 1], [1, 0], [1, 2]]],
             "fastq": [[[1, 1, 1]], [[2, 3, 3], [1, 1, 1]], [[1, 2, 2], [1, 1, 1], [2, 2, 2]], [[1, 0, 0], [1, 1, 1]]]}
        for tab, rowsets in T.items():
            for rows in rowsets:
                n = len(rows)
                splits = [()] + [c for k in (1, 2) for c in itertools.combinations_with_replacement(range(0, n + 1), k)]
                if tier == "quick":
                    # one write; a split in the middle; leading / trailing empty pieces (header must still appear once)
                    splits = [(), (n // 2,)] + ([(0,), (0, 0)] if tab in ("vcf", "bed3") else []) + ([(n,)] if tab == "bed3" else [])
                    splits = [s for i, s in enumerate(splits) if s not in splits[:i]]
                if tab == "bed12":
                    splits = ([(), (1,), (1, 2)] if n == 3 else [(), (2,), (1, 2)]) if tier == "quick" else splits      # (1, 2): a piece holding only empty lists
                for cuts in splits:
                    sk = dict(table=tab, rows=rows, cuts=list(cuts))
                    if tab == "bed12":
                        sk["int_range"] = [0, 9]            # seven integer columns per row: one digit each keeps the path count down
                        out.append(sk)
                        continue
                    if tab == "bed3" and n == 2:
                        sk["int_range"] = [-12, 12] if tier == "quick" else [-120, 1200]
                    if tier == "thorough":
                        # every integer cell forks on sign and digit count: the range shrinks with the number of integer cells
                        n_int = n * sum(1 for _, kind in TABLES[tab]["cols"] if kind == "int")
                        hi = 10 ** 4 if n_int <= 2 else (1200 if n_int <= 4 else 120)
                        sk["int_range"] = [-hi, hi] if tab == "bed3" and n_int <= 4 else [0, hi]
                    out.append(sk)
        for tab, rows in (("bed3", T["bed3"][3]), ("vcf", T["vcf"][1]), ("bed6", T["bed6"][1])):
            out.append(dict(table=tab, rows=rows, cuts=[], lazy_concat=True))
        # append mode through bnp.open: a first piece written with mode 'w', the rest with mode 'a', to a plain and to a gzip target
        # (formats with and without a header); the result must be what one write gives
        for tab, rows in (("bed3", T["bed3"][2]), ("vcf", T["vcf"][1]), ("fastq", T["fastq"][1])):
            for suffix in ({"bed3": ".bed", "vcf": ".vcf", "fastq": ".fq"}[tab] + z for z in ("", ".gz")):
                out.append(dict(table=tab, rows=rows, cuts=[1], append=suffix))
        # a short first record followed by a much wider integer (read-back through the right-aligned digit windows)
        out.append(dict(table="bed3", rows=[[1, 0, 0], [1, 0, 0]], cuts=[], int_range=[0, 1200]))
        # one integer column in narrow windows of LARGE magnitude (around 2^53, at the top of int64, around 10^17: the digit count changes
        # inside the window), written and read back; the members of each path at the ends of the ranges are also run on the real code
        # (effects outside the integer model, e.g. a float detour).  The whole int64 range at once is beyond the solver for this composition.
        out.append(dict(table="bed3", rows=[[1, 0, 0]], cuts=[], big_col=2, big_range=[2 ** 53 - 6, 2 ** 53 + 6], boundary_witnesses=True))
        out.append(dict(table="bed3", rows=[[1, 0, 0]], cuts=[], big_col=2, big_range=[2 ** 63 - 12, 2 ** 63 - 1], boundary_witnesses=True))
        out.append(dict(table="chromsizes", rows=[[1, 0], [2, 0]], cuts=[], big_col=1, big_range=[10 ** 17 - 6, 10 ** 17 + 6], boundary_witnesses=True))
        # a lazily read table with a column assigned in place, written whole and in pieces
        for tab, rows, cutsets in (("bed3", T["bed3"][3], [(1,), (2,), (1, 2)]), ("vcf", T["vcf"][1], [(1,)]), ("bed6", T["bed6"][1], [(1,)])):
            for cuts in cutsets:
                out.append(dict(table=tab, rows=rows, cuts=list(cuts), source="lazy_assigned"))
        # the pieces as ONE stream of chunks (chunks without entries in every position; a stream of nothing but empty chunks)
        for tab, rows in (("bed3", T["bed3"][3]), ("vcf", T["vcf"][1]), ("fastq", T["fastq"][2]), ("vcf", []), ("bed3", [])):
            n = len(rows)
            cutsets = [(1,), (1, 1), (0,), (0, 0, 1), (n,), (1, n, n)] if n else [(0,), (0, 0)]
            for cuts in cutsets:
                if all(c <= n for c in cuts):
                    out.append(dict(table=tab, rows=rows, cuts=list(cuts), stream=True))
        # float column (bedGraph): concrete doubles whose text takes every shape str() produces (plain decimals, negative, exponent with
        # '-' and with '+', integers-valued), symbolic integer columns; whole, in pieces, read back
        for floats in ([0.5, 2.5e-07, 1e16], [-3.25, 1e+22, 120.0], [1.5e-300, -7e+300, 0.0]):
            for cuts in ((), (1,)) + (((1, 2), (0,)) if tier == "thorough" else ()):
                out.append(dict(table="bedgraph", rows=[[1, 0, 0, 0]] * 3, floats=floats, cuts=list(cuts), int_range=[0, 12]))
        for w in (2, 3):
            # empty sequences (written as one empty line) alone, last, first
            for lens in ([w - 1], [w], [w + 1], [2 * w, 1], [w, w + 1, 2 * w - 1], [0], [w, 0], [0, w + 1]) + (([3 * w], [2 * w + 1, w]) if tier == "thorough" else ()):
                rows = [[1, L] for L in lens]
                for cuts in ([()] + ([(1,)] if len(rows) > 1 else [])):
                    out.append(dict(table="mfasta", rows=rows, cuts=list(cuts), width=w))
        return out

    def inputs(self, skel, V):
        declare_table(V, skel)

    def call(self, skel, x, ctx):
        from bionumpy.io.parser import NpBufferedWriter, NumpyFileReader
        from bionumpy.io.npdataclassreader import NpDataclassReader
        B = buffer_type(skel)
        n = len(skel["rows"])

        whole = build_table(ctx, skel, x)        # ONE table object: every write below is given this object or a slice of it

        if skel.get("source") == "lazy_assigned":
            # the same table reached another way: written with zeros in its first integer column, read back lazily, and the column
            # assigned in place (t.start = values); selections of that object are what the piecewise write below hands to the writer
            from bionumpy.bnpdataclass import replace
            col = next(nm for nm, kind in TABLES[skel["table"]]["cols"] if kind == "int")
            f0 = ctx.wfile()
            NpBufferedWriter(f0, B).write(replace(whole, **{col: ctx.arr([0] * n, "int64")}))
            lz = NpDataclassReader(NumpyFileReader(ctx.file(ctx.file_bytes(f0)), B), lazy=True).read()
            setattr(lz, col, getattr(whole, col))
            whole = lz

        def write(pieces, stream=False):
            f = ctx.wfile()
            w = NpBufferedWriter(f, B)
            tables = [whole if len(rows) == n else whole[(rows[0] if rows else 0):(rows[-1] + 1 if rows else 0)] for rows in pieces]
            if stream:       # the pieces handed to ONE write call as a stream of chunks
                from bionumpy.streams import NpDataclassStream
                w.write(NpDataclassStream(iter(tables), dataclass=type(whole)))
            else:
                for t in tables:
                    w.write(t)
            return ctx.file_bytes(f)
        def write_appending(pieces, suffix):
            """the pieces written through bnp.open: the first with mode 'w', the others with mode 'a' (plain target or gzip target); the
            files module's open functions are replaced by in-memory targets that carry the `mode` attribute real file objects have"""
            import types
            import bionumpy.io.files as ifiles
            target = ctx.wfile()

            class Handle:
                name = "mem"

                def __init__(self, mode):
                    self.mode = mode

                def write(self, b):
                    return target.write(b)

                def close(self):
                    pass
            real_gzip = ifiles.gzip
            ifiles.open = lambda fn, mode="rb": Handle(mode)                                   # builtin file objects: mode 'wb' / 'ab'
            ifiles.gzip = types.SimpleNamespace(open=lambda fn, mode="rb": Handle(real_gzip.WRITE))   # GzipFile.mode is the constant WRITE for both
            try:
                for k, rows in enumerate(pieces):
                    w = ifiles.bnp_open("mem" + suffix, "w" if k == 0 else "a", buffer_type=B)
                    w.write(whole if len(rows) == n else whole[(rows[0] if rows else 0):(rows[-1] + 1 if rows else 0)])
                    w.close()
            finally:
                del ifiles.open
                ifiles.gzip = real_gzip
            return ctx.file_bytes(target)
        single = write([list(range(n))])
        res = dict(single=single)
        if skel.get("append"):
            res["split"] = write_appending(partition(list(range(n)), skel["cuts"]), skel["append"])
        elif skel["cuts"]:
            res["split"] = write(partition(list(range(n)), skel["cuts"]), stream=bool(skel.get("stream")))
        res["again"] = write([list(range(n))])      # the same table written once more (writing must not change the table)
        if skel.get("lazy_concat"):
            # composition through a file: what was written is read back lazily, the whole table and a selection of it are
            # concatenated and written in one call -- the file holds the table's records followed by the selected ones
            lz = NpDataclassReader(NumpyFileReader(ctx.file(single), B), lazy=True).read()
            f = ctx.wfile()
            NpBufferedWriter(f, B).write(ctx.np.concatenate([lz, lz[1:]]))
            res["lazy_concat"] = ctx.file_bytes(f)
        # read the written bytes back with the library's reader (composition on the symbolic output)
        if n:
            back = NpDataclassReader(NumpyFileReader(ctx.file(single), B), lazy=False).read()
            cols = TABLES[skel["table"]]["cols"]
            res["back"] = {nm: (ctx.lst(getattr(back, nm).raw()) if kind in ("id", "strand") else
                                ([float(v) for v in ctx.lst(getattr(back, nm))] if kind == "fconst" else ctx.lst(getattr(back, nm)))) for nm, kind in cols}
            res["n_back"] = len(back)
        return res

    # ---- expected serialisation: list of lines, each a list of cells, each cell described by its source
    def _lines(self, skel, g):
        tab = skel["table"]
        cols = TABLES[tab]["cols"]
        lines = []
        for r, widths in enumerate(skel["rows"]):
            cell = lambda c: [g(f"t{r}_{c}_{j}") for j in range(widths[c])]
            if tab in ("fasta2", "mfasta", "fastq"):
                lines.append([("text", [62 if tab != "fastq" else 64] + cell(0))])
                if tab == "mfasta":
                    seq = cell(1)
                    for k in range(0, max(len(seq), 1), skel["width"]):
                        lines.append([("text", seq[k:k + skel["width"]])])
                else:
                    lines.append([("text", cell(1))])
                if tab == "fastq":
                    lines.append([("text", [43])])
                    lines.append([("qual", cell(2))])
                continue
            row = []
            for c, (nm, kind) in enumerate(cols):
                if kind == "int":
                    row.append(("int", g(f"t{r}_{c}"), 1 if (tab in ("vcf", "vcf_entry") and nm == "position") else 0))
                elif kind == "strand":
                    row.append(("strand", g(f"t{r}_{c}")))
                elif kind == "ilist":
                    row.append(("ilist", cell(c)))
                elif kind == "fconst":
                    row.append(("text", list(str(float(skel["floats"][r])).encode())))      # float text is Python's shortest round-trip repr
                else:
                    row.append(("text", cell(c)))
            lines.append(row)
        return lines

    def _check_bytes(self, skel, x, got, conj):
        """got: list of bytes written (concrete separators, symbolic payload).  Appends constraints; returns False on a
        structural mismatch."""
        head = list(VCF_DEFAULT_HEADER.encode()) if skel["table"] in ("vcf", "vcf_entry") else []
        if got[:len(head)] != head:
            return False
        body = got[len(head):]
        exp_lines = self._lines(skel, lambda nm: x[nm].t)
        # split on the concrete separators
        lines, cur, cells = [], [], []
        for b in body:
            if isinstance(b, int) and b == 10:
                cells.append(cur); lines.append(cells); cur, cells = [], []
            elif isinstance(b, int) and b == 9:
                cells.append(cur); cur = []
            else:
                cur.append(b)
        if cur or cells:
            return False                      # no trailing newline
        if len(lines) != len(exp_lines):
            return False
        for gl, el in zip(lines, exp_lines):
            if len(gl) != len(el):
                return False
            for gc, ec in zip(gl, el):
                if ec[0] == "text":
                    if len(gc) != len(ec[1]):
                        return False
                    conj += [TI(a) == b for a, b in zip(gc, ec[1])]
                elif ec[0] == "qual":
                    if len(gc) != len(ec[1]):
                        return False
                    conj += [TI(a) == b + 33 for a, b in zip(gc, ec[1])]
                elif ec[0] == "strand":
                    if len(gc) != 1:
                        return False
                    conj.append(TI(gc[0]) == z3.If(ec[1] == 0, 43, z3.If(ec[1] == 1, 45, 46)))
                elif ec[0] == "ilist":
                    if not ec[1]:                  # an empty list is an empty cell
                        if gc:
                            return False
                        continue
                    # elements in canonical decimal joined by ',' (the commas are concrete bytes of the output)
                    parts, cur = [], []
                    for b in gc:
                        if isinstance(b, int) and b == 44:
                            parts.append(cur); cur = []
                        else:
                            cur.append(b)
                    parts.append(cur)
                    if len(parts) != len(ec[1]) or any(not p for p in parts):
                        return False
                    for p_, e_ in zip(parts, ec[1]):
                        conj.append(canonical_text_post(e_, len(p_), p_))
                else:
                    if not gc:
                        return False
                    conj.append(canonical_text_post(ec[1] + ec[2], len(gc), gc))
        return True

    def _concat_expected(self, skel, single):
        """the bytes of one write, followed by its record lines from the second record on (lines end with the concrete byte 10)"""
        n_header = 2 if skel["table"] in ("vcf", "vcf_entry") else 0
        ends = [i for i, b in enumerate(single) if isinstance(b, int) and b == 10]
        start_second = ends[n_header] + 1          # first byte after the first record's line
        return list(single) + list(single[start_second:])

    def post(self, skel, x, out):
        if isinstance(out, Exc):
            return False
        conj = []
        if not self._check_bytes(skel, x, out["single"], conj):
            return False
        for key in ("split", "again"):
            if key in out:
                if len(out[key]) != len(out["single"]):
                    return False
                conj += [TI(a) == TI(b) for a, b in zip(out[key], out["single"])]
        if "lazy_concat" in out:
            exp = self._concat_expected(skel, out["single"])
            if len(out["lazy_concat"]) != len(exp):
                return False
            conj += [TI(a) == TI(b) for a, b in zip(out["lazy_concat"], exp)]
        if "back" in out:
            n = len(skel["rows"])
            if out["n_back"] != n:
                return False
            for c, (nm, kind) in enumerate(TABLES[skel["table"]]["cols"]):
                col = out["back"][nm]
                if len(col) != n:
                    return False
                for r in range(n):
                    if kind == "fconst":
                        if not _close(col[r], skel["floats"][r]):
                            return False
                    elif kind in ("int", "strand"):
                        conj.append(TI(col[r]) == x[f"t{r}_{c}"].t)
                    else:
                        w = skel["rows"][r][c]
                        if len(col[r]) != w:
                            return False
                        conj += [TI(col[r][j]) == x[f"t{r}_{c}_{j}"].t for j in range(w)]
        return z_and(conj)

    def oracle(self, skel, cx, cout):
        if isinstance(cout, Exc):
            return f"raised {cout}"
        exp = list(VCF_DEFAULT_HEADER.encode()) if skel["table"] in ("vcf", "vcf_entry") else []
        for line in self._lines(skel, lambda nm: cx[nm]):
            for k, cell in enumerate(line):
                if cell[0] == "text":
                    exp += cell[1]
                elif cell[0] == "qual":
                    exp += [v + 33 for v in cell[1]]
                elif cell[0] == "strand":
                    exp += [ord("+-."[cell[1]])]
                elif cell[0] == "ilist":
                    exp += list(",".join(str(v) for v in cell[1]).encode())
                else:
                    exp += list(str(cell[1] + cell[2]).encode())
                exp += [9] if k < len(line) - 1 else [10]
        if cout["single"] != exp:
            return f"{skel['table']} table written as {bytes(cout['single'])!r}, canonical serialisation is {bytes(exp)!r}"
        if "split" in cout and cout["split"] != exp:
            return f"{skel['table']} table written in pieces at {skel['cuts']}: {bytes(cout['split'])!r}, one write gives {bytes(exp)!r}"
        if "lazy_concat" in cout and cout["lazy_concat"] != self._concat_expected(skel, exp):
            return (f"{skel['table']} table written, read back lazily, np.concatenate([table, table[1:]]) written: {bytes(cout['lazy_concat'])!r}, "
                    f"expected {bytes(self._concat_expected(skel, exp))!r}")
        if cout.get("again", exp) != exp:
            return f"{skel['table']} table written once more after the first writes: {bytes(cout['again'])!r}, the first write gave {bytes(exp)!r}"
        if "back" in cout:
            n = len(skel["rows"])
            for c, (nm, kind) in enumerate(TABLES[skel["table"]]["cols"]):
                for r in range(n):
                    if kind == "fconst":
                        if cout["n_back"] != n or not _close(cout["back"][nm][r], skel["floats"][r]):
                            return f"reading back {bytes(cout['single'])!r}: column {nm} row {r} = {cout['back'][nm][r] if cout['n_back']==n else None}, written value {skel['floats'][r]!r}"
                        continue
                    e = cx[f"t{r}_{c}"] if kind in ("int", "strand") else [cx[f"t{r}_{c}_{j}"] for j in range(skel["rows"][r][c])]
                    if cout["n_back"] != n or cout["back"][nm][r] != e:
                        return f"reading back {bytes(cout['single'])!r}: column {nm} row {r} = {cout['back'][nm][r] if cout['n_back']==n else None}, written value {e}"
        return None


from checks.C02 import VCF as _VCF, VCF_HEADER as _VCF_HEADER


class ParsedInfoWrite(_VCF):
    """a VCF whose header declares its INFO keys, read eagerly (INFO parsed into a table of typed columns), written again: the records
    written are the records read"""
    name = "parsed_info_write"
    functions = ("VCFBuffer.from_data", "DelimitedBuffer.from_data", "dump_csv.get_column", "VCFBuffer._get_info_field (read side as in C02)")
    bounds = {"quick": "sites-only VCF (INFO is the last column) with declared INFO keys, 1-2 records with symbolic CHROM/POS/ID/REF/ALT/FILTER "
                       "bytes and a symbolic 1-2 digit DP; read with lazy=False; the whole table and the selection [1:]",
              "thorough": "same"}

    def skeletons(self, tier, seed):
        R = lambda pos, dpw, info: dict(chrom=1, pos=pos, id=1, ref=1, alt=1, info=info, dpw=dpw, fmt="GT", samples=[])
        out = []
        for recs in ([R(1, 1, "dp")], [R(2, 2, "dp"), R(1, 1, "fl_dp")]):
            for select in (None,) + (((1,),) if len(recs) > 1 else ()):
                out.append(dict(recs=recs, buffer="VCFBuffer", crlf=False, prior=None, no_samples=True, select=select))
        return out

    def call(self, skel, x, ctx):
        from bionumpy.io.parser import NumpyFileReader
        from bionumpy.io.npdataclassreader import NpDataclassReader
        import bionumpy.io.vcf_buffers as vb
        vb.VCFBuffer.vcfentry_cache.clear()
        vb.VCFBuffer.info_cache.clear()
        d = NpDataclassReader(NumpyFileReader(ctx.file(self._content(skel, x)), vb.VCFBuffer), lazy=False).read()
        if skel.get("select") is not None:
            d = d[list(skel["select"])]
        return dict(written=ctx.lst(vb.VCFBuffer.from_data(d).raw()))

    def _expected(self, skel, x):
        header = _VCF_HEADER.replace("\tFORMAT\tS1\tS2", "")
        body = self._content(skel, x)[len(header.encode()):]
        lines, cur = [], []
        for b in body:
            cur.append(b)
            if isinstance(b, int) and b == 10:
                lines.append(cur); cur = []
        keep = range(len(lines)) if skel.get("select") is None else skel["select"]
        return [b for i in keep for b in lines[i]]

    def post(self, skel, x, out):
        if isinstance(out, Exc):
            return False
        exp = self._expected(skel, x)
        if len(out["written"]) != len(exp):
            return False
        return z_and([TI(a) == (b.t if hasattr(b, "t") else b) for a, b in zip(out["written"], exp)])

    def oracle(self, skel, cx, cout):
        text = bytes(self._content(skel, cx))
        if isinstance(cout, Exc):
            return f"VCF {text[-40:]!r} (INFO keys declared in the header) read eagerly and written again: raised {cout}"
        exp = bytes(self._expected(skel, cx))
        got = bytes(int(b) for b in cout["written"])
        return None if got == exp else f"VCF read eagerly and written again: records written {got!r}, records read {exp!r}"


HARNESSES = [Write(), ParsedInfoWrite()]
