"""C15 -- malformed input is reported, with the right line number, not mis-parsed."""
import itertools
import z3
from vlib.harness import Harness, Exc
from vlib.zutil import TI, TB, z_and, z_or
from checks import textfmt as F


class C0:
    def __getitem__(self, k):
        return 0


def fields_of(skel):
    if skel["fmt"] in F.SEQ_FORMATS:
        return ["name", "sequence"] + (["quality"] if skel["fmt"] == "fastq" else [])
    return [nm for nm, _ in F.FORMATS[skel["fmt"]]["cols"]]


def self_name_len(skel, r):
    return skel["records"][r][0]


class Malformed(Harness):
    name = "malformed"
    functions = ("OneLineBuffer._validate", "FastQBuffer._validate", "DelimitedBuffer._get_field_by_number (EncodingError -> FormatException)",
                 "NumpyFileReader.read_chunk (line number offsets)", "NpDataclassReader.read/read_chunk(s)", "ItemGetter.__call__",
                 "AlphabetEncoding._encode", "str_to_int")
    stubs = ("SymFile in place of the OS file / gzip stream",)
    bounds = {"quick": "FASTA/FASTQ records whose marker byte (or FASTQ '+') is any other byte; BED3/BED6 files with any non-digit byte in a "
                       "numeric cell or any byte outside '+-.' in the strand cell; 2-3 records, the violation at every record position; every "
                       "chunk size from the largest entry to file size + 1 (symbolic) and the whole-file read; lazy and eager; seek and prepend; "
                       "SAM (flag, position, mapq), VCF (position), GTF (start, stop), narrowPeak (stop, summit) files of 3 one-character records with a non-digit byte; "
                       "a deleted FASTQ '+' line at every record; float texts with two dots or no digit; empty integer cells",
              "thorough": "4 records, wider cells, violations in multi-digit cells at every digit position"}
    assumptions = ("chunk sizes smaller than the largest entry are outside this check (C01 covers them)",)

    def skeletons(self, tier, seed):
        out = []
        seqsets = {"fasta2": [[[1, 1], [1, 2]], [[1, 2], [2, 1], [1, 1]]], "fastq": [[[1, 1], [1, 2]], [[2, 2], [1, 1], [1, 3]]]}
        bedsets = {"bed3": [[[1, 1, 1], [1, 2, 2]], [[1, 1, 2], [2, 1, 1], [1, 3, 1]]],
                   "bed6": [[[1, 1, 1, 1, 1, 1], [1, 2, 1, 1, 2, 1]], [[1, 1, 1, 1, 1, 1], [1, 1, 1, 1, 2, 1], [1, 1, 1, 1, 1, 1]]]}
        if tier == "thorough":
            seqsets["fastq"].append([[1, 1], [1, 1], [1, 2], [1, 1]])
            bedsets["bed3"].append([[1, 1, 1], [1, 1, 1], [2, 3, 3], [1, 1, 1]])
        for fmt, recsets in seqsets.items():
            for recs in recsets:
                for bad in range(len(recs)):
                    kinds = ("marker", "plus", "plus_empty", "marker_empty") if fmt == "fastq" else ("marker", "marker_empty")
                    if fmt == "fastq":
                        kinds += ("plus_deleted",)       # the whole separator line is missing: every later record is shifted by one line,
                                                         # and the last entry of the file is a line short
                    for what in kinds:
                        for lazy, mode, chunked in ((True, "seek", True), (False, "seek", True), (True, "prepend", True), (True, "seek", False)):
                            out.append(dict(fmt=fmt, records=recs, bad=[bad, what], lazy=lazy, mode=mode, chunked=chunked))
        for fmt, rowsets in bedsets.items():
            for rows in rowsets:
                for bad in range(len(rows)):
                    cells = [(1, 0), (2, rows[bad][2] - 1)] + ([(5, 0), (4, 0)] if fmt == "bed6" else [])
                    for col, pos in cells:
                        for lazy, mode, chunked in ((True, "seek", True), (False, "seek", True), (True, "prepend", True), (True, "seek", False)):
                            if tier == "quick" and (col, mode) in ((2, "prepend"), (4, "prepend")):
                                continue
                            out.append(dict(fmt=fmt, rows=rows, bad=[bad, col, pos], lazy=lazy, mode=mode, chunked=chunked))
        # a line with a different number of columns (one fewer / one more than the others)
        for fmt, base in (("bed3", [[1, 1, 1], [1, 2, 2], [2, 1, 1]]), ("bed6", [[1, 1, 1, 1, 1, 1], [1, 2, 1, 1, 2, 1]])):
            for bad in range(len(base)):
                for delta in (-1, +1, len(base[0])):       # one field fewer, one more, and twice as many (a multiple of the line's count)
                    rows = [list(r) for r in base]
                    rows[bad] = rows[bad][:-1] if delta < 0 else rows[bad] + ([1] if delta == 1 else list(rows[bad]))
                    for lazy, mode, chunked in ((True, "seek", False), (False, "seek", False), (True, "seek", True)):
                        out.append(dict(fmt=fmt, rows=rows, bad=[bad, "ncols", delta], lazy=lazy, mode=mode, chunked=chunked))
        # float columns (bedGraph value): plain decimals, and a value in scientific notation before / after the offending record (the two
        # notations are parsed in separate batches); list-valued columns (BED12 block sizes)
        for exp in ({}, {"0_3": 1}, {"2_3": 1}, {"0_3": 1, "1_3": 1}):
            for bad in ((1, 3, 0), (2, 3, 2), (0, 3, 1), (1, 3, 2)):
                if f"{bad[0]}_3" in exp and bad[2] == 1:
                    continue
                dots = {k: -1 for k in exp}
                for lazy, mode, chunked in ((True, "seek", False), (False, "seek", True)):
                    out.append(dict(fmt="bedgraph", rows=[[1, 1, 1, 3]] * 3, exp=exp, dot=dots, bad=list(bad), lazy=lazy, mode=mode, chunked=chunked))
        # history: read_chunk() once, then read() of the rest: the line still counts from the start of the data
        for lazy in (True, False):
            for mode in ("seek", "prepend"):
                out.append(dict(fmt="bed3", rows=[[1, 1, 1], [1, 2, 2], [2, 1, 1], [1, 1, 1]], bad=[3, 1, 0], lazy=lazy, mode=mode, chunked=True, then_read=True))
                out.append(dict(fmt="bed3", rows=[[1, 1, 1], [1, 2, 2], [2, 1, 1]], bad=[1, 2, 1], lazy=lazy, mode=mode, chunked=True, then_read=True))
                out.append(dict(fmt="fastq", records=[[1, 1], [1, 2], [1, 1]], bad=[2, "marker"], lazy=lazy, mode=mode, chunked=True, then_read=True))
                out.append(dict(fmt="fastq", records=[[1, 1], [1, 2], [1, 1]], bad=[2, "plus_deleted"], lazy=lazy, mode=mode, chunked=True, then_read=True))
                out.append(dict(fmt="fasta2", records=[[1, 1], [1, 2], [1, 1]], bad=[1, "marker"], lazy=lazy, mode=mode, chunked=True, then_read=True))
        # the other delimited formats: SAM (flag, position, mapping quality), VCF (position), GTF (start, stop), narrowPeak (summit)
        one = lambda n: [1] * n
        for fmt, ncols, cells in (("sam", 11, ((1, 0), (3, 0), (4, 0))), ("vcf", 8, ((1, 0),)), ("gtf", 9, ((3, 0), (4, 0))), ("narrowpeak", 10, ((9, 0), (2, 0)))):
            base = [one(ncols) for _ in range(3)]
            if fmt == "narrowpeak":
                for r in base:
                    r[6] = r[7] = r[8] = 3
            for bad in ((1, 2) if tier == "quick" else (0, 1, 2)):
                for col, pos in cells:
                    for lazy, mode, chunked in ((True, "seek", False), (False, "seek", True)):
                        if tier == "quick" and (bad, lazy) == (2, True):
                            continue
                        out.append(dict(fmt=fmt, rows=base, bad=[bad, col, pos], lazy=lazy, mode=mode, chunked=chunked))
        # an empty numeric cell (the column count is right, the text between the separators is empty)
        for fmt, base, cells in (("bed3", [[1, 1, 1], [1, 2, 2], [2, 1, 1]], (1, 2)), ("bed6", [[1, 1, 1, 1, 1, 1], [1, 2, 1, 1, 2, 1], [1, 1, 2, 1, 1, 1]], (1, 2))):
            for bad in range(len(base)):
                for col in cells:
                    rows = [list(r) for r in base]
                    rows[bad][col] = 0
                    for lazy, mode, chunked in ((True, "seek", False), (False, "seek", True)) + (((True, "prepend", True),) if tier == "thorough" else ()):
                        out.append(dict(fmt=fmt, rows=rows, bad=[bad, "empty", col], lazy=lazy, mode=mode, chunked=chunked))
        # texts made of legal bytes that are not numbers: a second '.', and '.' or '-' alone
        for rows, bad in (([[1, 1, 1, 3]] * 3, (1, 3, 0)), ([[1, 1, 1, 3]] * 3, (2, 3, 2)), ([[1, 1, 1, 3]] * 3, (0, 3, 2)),
                          ([[1, 1, 1, 3], [1, 1, 1, 1], [1, 1, 1, 3]], (1, 3, 0)), ([[1, 1, 1, 1], [1, 1, 1, 3], [1, 1, 1, 3]], (0, 3, 0)),
                          ([[1, 1, 1, 1]] * 3, (2, 3, 0))):
            for lazy, mode, chunked in ((True, "seek", False), (False, "seek", True)):
                out.append(dict(fmt="bedgraph", rows=rows, structure=True, bad=list(bad), lazy=lazy, mode=mode, chunked=chunked))
        L = {"widths": [1, 1], "trailing": False}
        for bad in ((0, 10, 0), (1, 10, 2), (2, 11, 0), (1, 11, 2)):
            for lazy, mode, chunked in ((True, "seek", False), (False, "seek", True)):
                out.append(dict(fmt="bed12", rows=[[1, 1, 1, 1, 1, 1, 1, 1, 1, 1, 3, 3]] * 3, lists={f"{r}_{c}": L for r in range(3) for c in (10, 11)},
                                bad=list(bad), lazy=lazy, mode=mode, chunked=chunked))
        LT = {"widths": [1, 1], "trailing": True}          # the UCSC style: every list ends with the separator
        for bad in ((1, 10, 0), (2, 10, 2), (2, 11, 0)):
            for lazy, mode, chunked in ((True, "seek", False), (False, "seek", True)):
                out.append(dict(fmt="bed12", rows=[[1, 1, 1, 1, 1, 1, 1, 1, 1, 1, 4, 4]] * 3, lists={f"{r}_{c}": LT for r in range(3) for c in (10, 11)},
                                bad=list(bad), lazy=lazy, mode=mode, chunked=chunked))
        # a lazily read chunk turned into a table as a whole (get_data_object) before any single field is read
        for bad, col, pos in ((1, 1, 0), (2, 2, 0), (0, 1, 0)):
            out.append(dict(fmt="bed3", rows=[[1, 1, 1], [1, 2, 2], [2, 1, 1]], bad=[bad, col, pos], lazy=True, mode="seek", chunked=True, whole_object=True))
        # signed values (ragged integer path) in the records before the offending one, in the same column
        rows = [[1, 2, 1], [1, 2, 2], [1, 3, 1]]
        for bad, col, pos in ((2, 1, 0), (2, 1, 1), (1, 1, 1), (2, 2, 0)):
            signed = [[r, col] for r in range(bad)]
            for lazy, mode, chunked in ((True, "seek", False), (False, "seek", True)) + (((True, "prepend", True),) if tier == "thorough" else ()):
                out.append(dict(fmt="bed3", rows=rows, signed=signed, bad=[bad, col, pos], lazy=lazy, mode=mode, chunked=chunked))
        return out

    # ---- file construction
    def _content(self, skel, x):
        if skel["fmt"] in F.SEQ_FORMATS:
            base = F.seq_content(skel, x)
            # locate the byte to corrupt
            r, what = skel["bad"]
            off = 0
            for i, rec in enumerate(skel["records"]):
                size = len(F.seq_content(dict(skel, records=[rec]), C0()))
                if i == r:
                    if what.startswith("marker"):
                        pos = off
                    else:
                        pos = off + 1 + rec[0] + 1 + rec[1] + 1      # '@' name NL seq NL -> '+'
                    break
                off += size
            if what == "plus_deleted":
                del base[pos:pos + 2]                          # '+' and its line break: the line is gone
            elif what == "plus_empty":
                del base[pos]                                  # the separator line is empty
            elif what == "marker_empty":
                del base[pos:pos + 1 + self_name_len(skel, r)]  # the header line is empty
            else:
                base[pos] = x["bad"]
            return base
        return F.content(skel, x)

    def inputs(self, skel, V):
        if skel["fmt"] in F.SEQ_FORMATS:
            F.declare_seq(V, skel)
            b = V.int("bad", 33, 126)
            marker = ord("+") if skel["bad"][1].startswith("plus") else ord("@" if skel["fmt"] == "fastq" else ">")
            V.assume(b.t != marker)
            if skel["bad"][1] == "plus_deleted":
                # with a quality line that itself begins with '+' the file is a different one: a complete record whose quality is the next
                # header line, followed by junk; the deleted line is only identifiable when the quality does not pass for a separator
                V.assume(V.vars[f"qq{skel['bad'][0]}_0"].t != ord("+"))
        elif skel["bad"][1] in ("ncols", "empty"):
            F.declare_cells(V, skel)
        else:
            F.declare_cells(V, skel)
            r, c, j = skel["bad"]
            v = V.vars[f"c{r}_{c}_{j}"]
            # re-declare the offending byte: any printable byte that violates the column's class
            kind = F.FORMATS[skel["fmt"]]["cols"][c][1]
            from symnp import fresh_int
            nv = fresh_int(f"c{r}_{c}_{j}", 33, 126)
            V.vars[f"c{r}_{c}_{j}"] = nv
            from symnp import ENGINE
            # drop the class constraint of the original declaration by replacing the variable (same name, new bounds are added)
            ENGINE.base_pc[:] = [c_ for c_ in ENGINE.base_pc if f"c{r}_{c}_{j}" not in [str(d) for d in _vars(c_)]]
            ENGINE.assume(nv.t >= 33); ENGINE.assume(nv.t <= 126)
            if kind in ("int", "oint"):
                bad = z3.Or(nv.t < 48, nv.t > 57)
                if j == 0 and skel["rows"][r][c] > 1:
                    bad = z3.And(bad, nv.t != 43, nv.t != 45)        # a leading sign is legal when digits follow (a bare sign is not a number)
                if kind == "oint" and skel["rows"][r][c] == 1:
                    bad = z3.And(bad, nv.t != 46)
                ENGINE.assume(bad)
            elif kind == "float" and skel.get("structure"):
                # the byte is legal in a number but the text is not one: a second '.' in 'd.d', or '.' / '-' as the whole text
                ENGINE.assume(z3.Or(nv.t == 46, nv.t == 45) if skel["rows"][r][c] == 1 else nv.t == 46)
            elif kind == "float":     # no digit, no '.', no exponent mark, no sign
                ENGINE.assume(z3.And(z3.Or(nv.t < 48, nv.t > 57), nv.t != 46, nv.t != 101, nv.t != 69, nv.t != 43, nv.t != 45))
            elif kind == "ilist":     # neither a digit nor the separator
                ENGINE.assume(z3.And(z3.Or(nv.t < 48, nv.t > 57), nv.t != 44))
            else:   # strand
                ENGINE.assume(z3.And(nv.t != 43, nv.t != 45, nv.t != 46))
        size = len(self._content(skel, _Zero(V)))
        if skel["chunked"]:
            big = max(self._entry_sizes(skel))
            V.int("k", big, size + 1)

    def _entry_sizes(self, skel):
        if skel["fmt"] in F.SEQ_FORMATS:
            return [len(F.seq_content(dict(skel, records=[r]), C0())) for r in skel["records"]]
        return [len(F.content(dict(skel, rows=[r]), C0())) for r in skel["rows"]]

    def call(self, skel, x, ctx):
        from bionumpy.io.parser import NumpyFileReader
        from bionumpy.io.npdataclassreader import NpDataclassReader
        buf = F.get_seq_buffer(skel["fmt"]) if skel["fmt"] in F.SEQ_FORMATS else F.get_buffer(skel["fmt"])
        reader = NumpyFileReader(ctx.file(self._content(skel, x)), buf)
        if skel["mode"] == "prepend":
            reader.set_prepend_mode()
        r = NpDataclassReader(reader, lazy=skel["lazy"])
        n = len(skel.get("records", skel.get("rows")))
        if skel.get("then_read"):
            # history: one chunk is read, then the rest of the file with read(); the fields of the first table are read before the second
            # call only in the eager case (the lazy table is parsed when its fields are accessed below)
            chunks = [r.read_chunk(x["k"]), r.read()]
        else:
            chunks = [r.read()] if not skel["chunked"] else list(itertools.islice(r.read_chunks(x["k"]), n + 3))
        total = 0
        for ch in chunks:
            if skel.get("whole_object"):
                ch.get_data_object()      # all columns at once
            for f in fields_of(skel):
                getattr(ch, f)            # field access parses lazily read data
            total += len(ch)
        return dict(entries=total)

    def _bad_line(self, skel):
        if skel["fmt"] in F.SEQ_FORMATS:
            per = 4 if skel["fmt"] == "fastq" else 2
            if skel["bad"][1] == "plus_deleted" and skel["bad"][0] == len(skel["records"]) - 1:
                return skel["bad"][0] * per               # the truncated last entry is reported where it starts
            return skel["bad"][0] * per + (2 if skel["bad"][1].startswith("plus") else 0)
        return skel["bad"][0]

    def post(self, skel, x, out):
        if not isinstance(out, Exc):
            return False                                  # a table was returned although the file violates its format
        if out.type == "FormatException":
            if skel["bad"][1] == "ncols" and skel["bad"][0] == 0:
                return True         # the first line is the odd one: which line "differs" is a matter of reference, any line number is accepted
            return out.attrs.get("line_number") == self._bad_line(skel)
        return True                                       # other error types: an error is all the property asks for

    def oracle(self, skel, cx, cout):
        text = bytes(self._content(skel, cx))
        how = f"{'lazy' if skel['lazy'] else 'eager'}, {skel['mode']}, " + (f"min_chunk_size={cx['k']}" if skel["chunked"] else "read()")
        if not isinstance(cout, Exc):
            return f"malformed {skel['fmt']} file {text!r} ({how}) was read without error: {cout}"
        if skel["bad"][1] == "ncols" and skel["bad"][0] == 0:
            return None
        if cout.type == "FormatException" and cout.attrs.get("line_number") != self._bad_line(skel):
            return (f"malformed {skel['fmt']} file {text!r} ({how}): FormatException.line_number={cout.attrs.get('line_number')}, "
                    f"the first offending record is at line {self._bad_line(skel)}")
        return None


class _Zero:
    def __init__(self, V):
        pass

    def __getitem__(self, k):
        return 0


def _vars(e):
    seen, out, stack = set(), [], [e]
    while stack:
        t = stack.pop()
        if t.get_id() in seen:
            continue
        seen.add(t.get_id())
        if z3.is_const(t) and t.decl().kind() == z3.Z3_OP_UNINTERPRETED:
            out.append(t)
        stack.extend(t.children())
    return out


from checks.C02 import VCF as _VCF, VCF_HEADER as _VCF_HEADER


class MalformedInfo(_VCF):
    """a typed INFO key (Integer DP, declared in the header) whose value is not a number in one record: reading the key raises, and a
    FormatException carries the line of that record counted from the first record, for every chunk size, lazy and eager"""
    name = "malformed_info"
    functions = ("VCFBuffer._get_info_field/_get_dataclass_field", "NamedBufferExtractor.get_field_by_name", "ItemGetter.__call__ (start line)",
                 "NumpyFileReader.read_chunk (start_line of the buffer)")
    bounds = {"quick": "sites-only VCF with declared INFO keys, 3 records 'DP=<1-2 bytes>' / 'FL;DP=<byte>'; the first byte of DP of one record is any "
                       "letter; every record position; whole-file read and every chunk size from the largest record to the size of the records + 1 "
                       "(symbolic); lazy and eager",
              "thorough": "same"}
    assumptions = ("the offending byte is a letter (separators ; , = would make a different, well-formed text)",)

    def skeletons(self, tier, seed):
        R = lambda dpw, info: dict(chrom=1, pos=1, id=1, ref=1, alt=1, info=info, dpw=dpw, fmt="GT", samples=[])
        recs = [R(1, "dp"), R(2, "fl_dp"), R(1, "dp")]
        out = []
        for bad in range(3):
            for lazy in (True, False):
                for chunked in (False, True):
                    out.append(dict(recs=recs, buffer="VCFBuffer", crlf=False, prior=None, no_samples=True, bad=bad, lazy=lazy, chunked=chunked))
        return out

    def _body(self, skel, x):
        header = _VCF_HEADER.replace("\tFORMAT\tS1\tS2", "")
        return self._content(skel, x)[len(header.encode()):]

    def inputs(self, skel, V):
        super().inputs(skel, V)
        from symnp import fresh_int, ENGINE
        nm = f"v{skel['bad']}_d0"
        ENGINE.base_pc[:] = [c_ for c_ in ENGINE.base_pc if nm not in [str(d) for d in _vars(c_)]]
        nv = fresh_int(nm, 65, 122)
        V.vars[nm] = nv
        ENGINE.assume(nv.t >= 65); ENGINE.assume(nv.t <= 122); ENGINE.assume(z3.Or(nv.t <= 90, nv.t >= 97))
        if skel["chunked"]:
            body = self._body(skel, _Zero(V))
            lines, cur = [], 0
            for b in body:
                cur += 1
                if b == 10:
                    lines.append(cur); cur = 0
            V.int("k", max(lines), len(body) + 1)

    def call(self, skel, x, ctx):
        from bionumpy.io.parser import NumpyFileReader
        from bionumpy.io.npdataclassreader import NpDataclassReader
        import bionumpy.io.vcf_buffers as vb
        vb.VCFBuffer.vcfentry_cache.clear()
        vb.VCFBuffer.info_cache.clear()
        r = NpDataclassReader(NumpyFileReader(ctx.file(self._content(skel, x)), vb.VCFBuffer), lazy=skel["lazy"])
        chunks = list(itertools.islice(r.read_chunks(x["k"]), 6)) if skel["chunked"] else [r.read()]
        total = 0
        for ch in chunks:
            ctx.lst(ch.info.DP)
            total += len(ch)
        return dict(entries=total)

    def post(self, skel, x, out):
        if not isinstance(out, Exc):
            return False
        if out.type == "FormatException":
            return out.attrs.get("line_number") == skel["bad"]
        return True

    def oracle(self, skel, cx, cout):
        text = bytes(self._body(skel, cx))
        how = f"{'lazy' if skel['lazy'] else 'eager'}, " + (f"min_chunk_size={cx['k']}" if skel["chunked"] else "read()")
        if not isinstance(cout, Exc):
            return f"VCF records {text!r} with a non-numeric value of the Integer key DP ({how}): info.DP was read without error"
        if cout.type == "FormatException" and cout.attrs.get("line_number") != skel["bad"]:
            return (f"VCF records {text!r} with a non-numeric value of the Integer key DP ({how}): FormatException.line_number="
                    f"{cout.attrs.get('line_number')}, the offending record is record {skel['bad']}")
        return None


HARNESSES = [Malformed(), MalformedInfo()]
