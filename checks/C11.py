"""C11 -- streamed evaluation equals in-memory evaluation for every chunking."""
import itertools
import z3
from vlib.harness import Harness, Exc
from vlib.zutil import TI, TB, z_and, z_or


def chunkings(n):
    """all 2^(n-1) ways of cutting n entries into consecutive chunks, as lists of (a, b)"""
    out = []
    for bits in itertools.product([0, 1], repeat=max(n - 1, 0)):
        cuts = [0] + [i + 1 for i, b in enumerate(bits) if b] + [n]
        out.append([list(p) for p in zip(cuts[:-1], cuts[1:])])
    return out


def _eq_struct(a, b, conj):
    from symnp.core import T
    if isinstance(a, (list, tuple)) and isinstance(b, (list, tuple)):
        from vlib.harness import SStr
        if isinstance(a, SStr) or isinstance(b, SStr):
            m = min(len(a), len(b))
            conj.extend(TI(t) == 0 for t in list(a[m:]) + list(b[m:]))
            a, b = a[:m], b[:m]
        return len(a) == len(b) and all(_eq_struct(u, v, conj) for u, v in zip(a, b))
    if isinstance(a, dict) and isinstance(b, dict):
        return a.keys() == b.keys() and all(_eq_struct(a[k], b[k], conj) for k in a)
    if isinstance(a, (list, tuple, dict)) or isinstance(b, (list, tuple, dict)):
        return False
    if isinstance(a, str) or isinstance(b, str) or a is None or b is None:
        return a == b
    try:
        ta = a if z3.is_expr(a) else T(a)
        tb = b if z3.is_expr(b) else T(b)
    except TypeError:
        return False
    if z3.is_bool(ta) != z3.is_bool(tb):
        ta, tb = TI(a), TI(b)
    if z3.is_real(ta) != z3.is_real(tb):
        ta = z3.ToReal(ta) if not z3.is_real(ta) else ta
        tb = z3.ToReal(tb) if not z3.is_real(tb) else tb
    conj.append(ta == tb)
    return True


class Reductions(Harness):
    """streamable functions and reductions: result(stream of chunks) == result(concatenated data)"""
    name = "reductions"
    functions = ("streamable.__call__/_args_stream", "reductions.bincount_reduce/sum_and_n/mean", "count_kmers (sum reduction)",
                 "groupby/get_changes/join_groupbys", "streams.BnpStream")
    bounds = {"quick": "n = 4 entries (thorough 6) x ALL 2^(n-1) chunkings; mean (exact real), bincount and 3-bin histograms (with and without an explicit range) over values in [0,3], k-mer counts "
                       "(k=1,2 over ACGT rows), group-by on a sorted key with splits inside groups",
              "thorough": "n = 6"}
    assumptions = ("float means and histogram bin edges are compared in the exact-real model",)

    def skeletons(self, tier, seed):
        n = 4 if tier == "quick" else 6
        out = []
        for comp in ("mean", "mean_u8", "mean_i8", "bincount", "kmers", "groupby", "histogram_range", "histogram"):     # mean_*: data held in a narrow integer dtype
            for ch in chunkings(n):
                out.append(dict(comp=comp, n=n, chunks=ch))
        return out

    KEYS = ["a", "a", "b", "c", "c", "c"]

    def inputs(self, skel, V):
        n = skel["n"]
        if skel["comp"] in ("mean", "mean_u8", "mean_i8"):
            lo, hi = {"mean": (-20, 20), "mean_u8": (0, 255), "mean_i8": (-128, 127)}[skel["comp"]]
            for i in range(n):
                V.int(f"v{i}", lo, hi)
        elif skel["comp"] in ("bincount", "histogram_range", "histogram"):
            for i in range(n):
                V.int(f"v{i}", 0, 3)
        elif skel["comp"] == "kmers":
            for i in range(2 * n):
                V.int(f"v{i}", 0, 3)
        else:
            for i in range(n):
                V.int(f"v{i}", 0, 50)

    def call(self, skel, x, ctx):
        import bionumpy as bnp
        from bionumpy import streams
        from bionumpy.streams import BnpStream, NpDataclassStream
        n, comp, chunks = skel["n"], skel["comp"], skel["chunks"]
        if comp in ("mean", "mean_u8", "mean_i8", "bincount", "histogram_range", "histogram"):
            dt_ = {"mean_u8": "uint8", "mean_i8": "int8"}.get(comp, "int64")
            mk = lambda a, b: ctx.arr([x[f"v{i}"] for i in range(a, b)], dt_)
            whole = mk(0, n)
            stream = BnpStream(mk(a, b) for a, b in chunks)
            if comp.startswith("histogram"):
                kw = dict(bins=3, range=(0, 3)) if comp == "histogram_range" else dict(bins=3)
                hs, es = streams.histogram(stream, **kw)
                hw, ew = ctx.np.histogram(whole, **kw)
                return dict(stream=[ctx.lst(hs), ctx.lst(es)], whole=[ctx.lst(hw), ctx.lst(ew)])
            if comp.startswith("mean"):
                return dict(stream=ctx.lst(streams.mean(stream)), whole=ctx.lst(streams.mean(whole)))
            from bionumpy.streams.reductions import bincount
            return dict(stream=ctx.lst(bincount(stream)), whole=ctx.lst(ctx.np.bincount(whole)))
        if comp == "kmers":
            from bionumpy.encoded_array import EncodedArray, EncodedRaggedArray
            from bionumpy.sequence import count_kmers
            import bionumpy.encodings.alphabet_encoding as ae
            mk = lambda a, b: EncodedRaggedArray(EncodedArray(ctx.arr([x[f"v{i}"] for i in range(2 * a, 2 * b)], "uint8"), ae.ACGTEncoding),
                                                 [2] * (b - a))
            res = {}
            for k in (1, 2):
                s = count_kmers(BnpStream(mk(a, b) for a, b in chunks), k)
                w = count_kmers(mk(0, n), k)
                res[f"k{k}"] = dict(stream=ctx.lst(s.counts), whole=ctx.lst(w.counts))
            return res
        from bionumpy.datatypes import Interval
        from bionumpy.streams import groupby
        keys = self.KEYS[:n]
        mk = lambda a, b: Interval(keys[a:b], ctx.arr([x[f"v{i}"] for i in range(a, b)], "int64"),
                                   ctx.arr([x[f"v{i}"] + 1 for i in range(a, b)], "int64"))
        grouped = groupby(NpDataclassStream((mk(a, b) for a, b in chunks), Interval), "chromosome")
        return dict(groups=[[name, ctx.lst(g.start), g.chromosome.tolist()] for name, g in grouped])

    def post(self, skel, x, out):
        if isinstance(out, Exc):
            return False
        conj = []
        if skel["comp"] == "groupby":
            keys = self.KEYS[:skel["n"]]
            exp = [[k, [x[f"v{i}"].t for i in range(skel["n"]) if keys[i] == k], [k] * keys.count(k)] for k in dict.fromkeys(keys)]
            return z_and(conj) if _eq_struct(out["groups"], exp, conj) else False
        items = out.values() if skel["comp"] == "kmers" else [out]
        for it in items:
            if not _eq_struct(it["stream"], it["whole"], conj):
                return False
        if skel["comp"].startswith("mean"):
            # ... and both are the arithmetic mean of the VALUES (whatever integer dtype holds them)
            from symnp.core import T
            tot = z3.ToReal(sum([x[f"v{i}"].t for i in range(skel["n"])], z3.IntVal(0)))
            for key in ("stream", "whole"):
                v_ = out[key][0] if isinstance(out[key], list) else out[key]
                t_ = T(v_)
                conj.append((t_ if z3.is_real(t_) else z3.ToReal(t_)) * skel["n"] == tot)
        return z_and(conj)

    def oracle(self, skel, cx, cout):
        if isinstance(cout, Exc):
            return f"raised {cout}"
        from vlib.job import same
        vals = [cx[f"v{i}"] for i in range(skel["n"] * (2 if skel["comp"] == "kmers" else 1))]
        if skel["comp"] == "groupby":
            keys = self.KEYS[:skel["n"]]
            exp = [[k, [vals[i] for i in range(skel["n"]) if keys[i] == k], [k] * keys.count(k)] for k in dict.fromkeys(keys)]
            return None if cout["groups"] == exp else f"groupby over chunks {skel['chunks']} of keys {keys}, starts {vals}: {cout['groups']}, expected {exp}"
        items = cout.values() if skel["comp"] == "kmers" else [cout]
        for it in items:
            if not same(it["stream"], it["whole"]):
                return f"{skel['comp']} of data {vals} cut into chunks {skel['chunks']}: streamed {it['stream']}, in memory {it['whole']}"
        if skel["comp"].startswith("mean"):
            flat = lambda v: float(v[0] if isinstance(v, list) else v)
            want = sum(vals) / len(vals)
            if abs(flat(cout["stream"]) - want) > 1e-9 or abs(flat(cout["whole"]) - want) > 1e-9:
                return f"{skel['comp']} of data {vals} cut into chunks {skel['chunks']}: streamed {cout['stream']}, in memory {cout['whole']}, the mean is {want}"
        return None


class Rechunk(Harness):
    """chunk_entries / chunk_lines: chunks of exactly n entries except the last, order and content preserved"""
    name = "rechunk"
    functions = ("streams.chunk_entries._chunk_entries", "io.parser.chunk_lines")
    bounds = {"quick": "4 entries (thorough 6) in ALL 2^(n-1) input chunkings; target size n symbolic in [1, entries+1]",
              "thorough": "6 entries"}

    def skeletons(self, tier, seed):
        n = 4 if tier == "quick" else 6
        return [dict(fn=fn, n=n, chunks=ch) for fn in ("chunk_entries", "chunk_lines") for ch in chunkings(n)]

    def inputs(self, skel, V):
        for i in range(skel["n"]):
            V.int(f"v{i}", 0, 50)
        V.int("size", 1, skel["n"] + 1)

    def call(self, skel, x, ctx):
        from bionumpy.datatypes import Interval
        from bionumpy.streams import NpDataclassStream
        n, chunks = skel["n"], skel["chunks"]
        names = ["c%d" % (i % 3) for i in range(n)]
        mk = lambda a, b: Interval(names[a:b], ctx.arr([x[f"v{i}"] for i in range(a, b)], "int64"),
                                   ctx.arr([x[f"v{i}"] + 1 for i in range(a, b)], "int64"))
        size = x["size"]
        if skel["fn"] == "chunk_entries":
            from bionumpy.streams.chunk_entries import chunk_entries
            res = chunk_entries(NpDataclassStream((mk(a, b) for a, b in chunks), Interval), size)
        else:
            from bionumpy.io.parser import chunk_lines
            res = chunk_lines(iter([mk(a, b) for a, b in chunks]), size)
        out = [[ctx.lst(c.start), c.chromosome.tolist()] for c in itertools.islice(res, 3 * n + 3)]
        return dict(chunks=out, size=int(size))

    def _expected(self, skel, vals, size):
        n = skel["n"]
        names = ["c%d" % (i % 3) for i in range(n)]
        return [[vals[a:a + size], names[a:a + size]] for a in range(0, n, size)]

    def post(self, skel, x, out):
        if isinstance(out, Exc):
            return False
        exp = self._expected(skel, [x[f"v{i}"].t for i in range(skel["n"])], out["size"])
        got = [c for c in out["chunks"]]
        conj = []
        return z_and(conj) if _eq_struct(got, exp, conj) else False

    def oracle(self, skel, cx, cout):
        if isinstance(cout, Exc):
            return f"raised {cout}"
        vals = [cx[f"v{i}"] for i in range(skel["n"])]
        exp = self._expected(skel, vals, cout["size"])
        return None if cout["chunks"] == exp else (f"{skel['fn']}(stream cut as {skel['chunks']}, n={cout['size']}) of starts {vals}: chunks "
                                                   f"{[c[0] for c in cout['chunks']]}, expected {[c[0] for c in exp]}")


GENOMES = {"g2": {"chr1": 3, "chr2": 2}, "g3": {"chr1": 2, "chr2": 3, "chr3": 2}}


class Pipelines(Harness):
    """per-chromosome genomic pipelines built on streams and evaluated with compute == the in-memory result"""
    name = "genomic_pipelines"
    functions = ("GenomicIntervals.from_intervals (stream)", "GenomeContext.iter_chromosomes", "GenomicIntervalsStreamed.get_pileup/get_mask",
                 "GenomicArrayNode.get_data/sum", "computation_graph.StreamNode/ComputationNode/ReductionNode/compute",
                 "groupby/join_groupbys")
    bounds = {"quick": "genomes of 2-3 chromosomes (sizes 2-3); 3 sorted intervals with a concrete chromosome assignment (incl. chromosomes "
                       "without entries, also the last one) and symbolic coordinates; ALL 4 chunkings; pileup and mask records, sum; values of a streamed 2-record track under 2 streamed stranded "
                       "windows (strand symbols + - .) == the in-memory evaluation, for every cut of track and windows",
              "thorough": "4 intervals, all 8 chunkings"}

    def skeletons(self, tier, seed):
        out = []
        n = 3 if tier == "quick" else 4
        assign = {"g2": [[0, 0, 1], [0, 0, 0], [1, 1, 1]], "g3": [[0, 0, 1], [0, 2, 2], [1, 1, 1], [0, 1, 2]]}
        if tier == "thorough":
            assign = {"g2": [[0, 0, 1, 1], [0, 0, 0, 0]], "g3": [[0, 0, 1, 1], [0, 2, 2, 2], [1, 1, 1, 1], [0, 0, 1, 2]]}
        for g, sets in assign.items():
            for chroms in sets:
                for ch in chunkings(n):
                    for what in ("pileup", "mask"):
                        out.append(dict(genome=g, chroms=chroms, chunks=ch, what=what))
        # values of a streamed track under streamed stranded windows (all three strand symbols) == the in-memory evaluation
        whole, split = [[0, 2]], [[0, 1], [1, 2]]
        combos = [(whole, split, [0, 1]), (split, whole, [0, 1]), (split, split, [0, 1]), (split, split, [1, 1])]
        if tier == "thorough":
            combos += [(w, t, c) for w in (whole, split) for t in (whole, split) for c in ([0, 0], [1, 1], [0, 1]) if (w, t, c) not in combos]
        for wch, tch, wc in combos:
            out.append(dict(genome="g2", chroms=wc, chunks=wch, track_chunks=tch, what="values"))
        # per-window sums (axis=-1) of the values under the windows: one number per window, in window order
        out.append(dict(genome="g2", chroms=[0, 1], chunks=split, track_chunks=split, what="values", rowsum=True))
        out.append(dict(genome="g2", chroms=[0, 0], chunks=whole, track_chunks=split, what="values", rowsum=True))
        # windows held in memory (any order within a chromosome), track streamed: rows come back in the order of the windows
        out.append(dict(genome="g2", chroms=[0, 0], chunks=whole, track_chunks=split, what="values", windows_in_memory=True))
        out.append(dict(genome="g2", chroms=[0, 1], chunks=whole, track_chunks=split, what="values", windows_in_memory=True))
        # column means over windows of UNEQUAL width (a window cut short next to full-width ones; the widest window of every chromosome
        # has the same width, which the streamed mean requires): streamed == in memory
        for wch in ([[0, 2], [2, 3]],) + (([[0, 3]], [[0, 1], [1, 3]]) if tier == "thorough" else ()):
            out.append(dict(genome="g2", chroms=[0, 0, 1], chunks=wch, track_chunks=split, what="values", mean=True))
        out.append(dict(genome="g2", chroms=[0, 0, 1], chunks=[[0, 2], [2, 3]], track_chunks=split, what="values", mean=True, joint=True))
        return out

    def inputs(self, skel, V):
        sizes = list(GENOMES[skel["genome"]].values())
        if skel["what"] == "values":
            from checks.C09 import declare_track
            declare_track(V, [0, 1], sizes, "a")
            for i in range(len(skel["chroms"])):
                V.int(f"st{i}", 0, 0 if skel.get("mean") else 2)           # StrandEncoding code of + - . (the mean skeletons use '+' only)
        prev = None
        for i, c in enumerate(skel["chroms"]):
            s = V.int(f"s{i}", 0, sizes[c] - 1); e = V.int(f"e{i}", 1, sizes[c])
            V.assume(s.t < e.t)
            if skel.get("mean"):
                V.assume(e.t - s.t <= 2)
            if prev is not None and skel["chroms"][prev] == c and not skel.get("windows_in_memory"):
                V.assume(s.t >= V.vars[f"s{prev}"].t)
            prev = i
        if skel.get("mean"):
            for c in set(skel["chroms"]):
                V.assume(z_or([V.vars[f"e{i}"].t - V.vars[f"s{i}"].t == 2 for i, ci in enumerate(skel["chroms"]) if ci == c]))

    def call(self, skel, x, ctx):
        from bionumpy.datatypes import Interval
        from bionumpy.streams import NpDataclassStream
        from bionumpy.genomic_data import GenomicIntervals
        from bionumpy.genomic_data.genome_context import GenomeContext
        from bionumpy.computation_graph import compute
        genome = GENOMES[skel["genome"]]
        names = list(genome)
        n = len(skel["chroms"])
        context = GenomeContext.from_dict(dict(genome))
        mk = lambda a, b: Interval([names[c] for c in skel["chroms"][a:b]], ctx.arr([x[f"s{i}"] for i in range(a, b)], "int64"),
                                   ctx.arr([x[f"e{i}"] for i in range(a, b)], "int64"))

        def rows(d, with_value):
            r = dict(chrom=d.chromosome.tolist(), start=ctx.lst(d.start), stop=ctx.lst(d.stop))
            if with_value:
                r["value"] = ctx.lst(d.value)
            return r
        if skel["what"] == "values":
            import bionumpy as bnp
            from bionumpy.datatypes import BedGraph, StrandedInterval
            from bionumpy.encoded_array import EncodedArray
            from bionumpy.encodings import StrandEncoding
            g = bnp.Genome.from_dict(dict(genome))
            bg = lambda a, b: BedGraph([names[c] for c in [0, 1][a:b]], ctx.arr([x[f"as{i}"] for i in range(a, b)], "int64"),
                                       ctx.arr([x[f"ae{i}"] for i in range(a, b)], "int64"), ctx.arr([x[f"av{i}"] for i in range(a, b)], "int64"))
            win = lambda a, b: StrandedInterval([names[c] for c in skel["chroms"][a:b]], ctx.arr([x[f"s{i}"] for i in range(a, b)], "int64"),
                                                ctx.arr([x[f"e{i}"] for i in range(a, b)], "int64"),
                                                EncodedArray(ctx.arr([x[f"st{i}"] for i in range(a, b)], "uint8"), StrandEncoding))
            mk_track = lambda: g.get_track(NpDataclassStream((bg(a, b) for a, b in skel["track_chunks"]), BedGraph))
            mk_win = lambda: (g.get_intervals(win(0, n), stranded=True) if skel.get("windows_in_memory") else
                              g.get_intervals(NpDataclassStream((win(a, b) for a, b in skel["chunks"]), StrandedInterval), stranded=True))
            got = compute(mk_track()[mk_win()])
            mem = g.get_track(bg(0, 2))[g.get_intervals(win(0, n), stranded=True)]
            res = dict(streamed=[ctx.lst(got[i].to_array()) for i in range(n)], memory=[ctx.lst(mem[i].to_array()) for i in range(n)])
            if skel.get("rowsum"):
                rs = compute(mk_track()[mk_win()].sum(axis=-1))
                res["rowsum_streamed"] = ctx.lst(rs)
            if skel.get("mean"):
                if skel.get("joint"):
                    # the mean evaluated in ONE compute call together with a sum over a second stream of the same data
                    sm, joint_total = compute((mk_track()[mk_win()].mean(axis=0), ctx.np.sum(mk_track()[mk_win()])))
                    res["joint_total"] = ctx.lst(joint_total)
                else:
                    sm = compute(mk_track()[mk_win()].mean(axis=0))
                if hasattr(sm, "starts") and hasattr(sm, "values"):
                    # run-length result: expanded here run by run (the library's own expansion goes through the bit patterns of the doubles)
                    vals, st_, en_ = ctx.lst(sm.values), ctx.lst(sm.starts), ctx.lst(sm.ends)
                    dense = [None] * int(len(sm))
                    for v_, a_, b_ in zip(vals, st_, en_):
                        for p_ in range(int(a_), int(b_)):
                            dense[p_] = v_
                    res["mean_streamed"] = dense
                else:
                    res["mean_streamed"] = ctx.lst(sm)
            return res
        streamed = GenomicIntervals.from_intervals(NpDataclassStream((mk(a, b) for a, b in skel["chunks"]), Interval), context)
        if skel["what"] == "pileup":
            track = streamed.get_pileup()
            data = compute(track.get_data())
            streamed2 = GenomicIntervals.from_intervals(NpDataclassStream((mk(a, b) for a, b in skel["chunks"]), Interval), context)
            total = streamed2.get_pileup().sum().compute()
            return dict(records=rows(data, True), total=ctx.lst(total))
        data = compute(streamed.get_mask().get_data())
        return dict(records=rows(data, False))

    def _dense(self, skel, g):
        genome = GENOMES[skel["genome"]]
        names = list(genome)
        dense = {}
        for ci, nm in enumerate(names):
            col = []
            for p in range(genome[nm]):
                col.append([(g(f"s{i}"), g(f"e{i}")) for i, c in enumerate(skel["chroms"]) if c == ci])
            dense[nm] = col
        return dense

    def post(self, skel, x, out):
        if isinstance(out, Exc):
            return False
        genome = GENOMES[skel["genome"]]
        names = list(genome)
        if skel["what"] == "values":
            from checks.C09 import dense_terms
            dense = dense_terms(x, [0, 1], genome, "a")
            conj = []
            if len(out["streamed"]) != len(out["memory"]):
                return False
            for i, c in enumerate(skel["chroms"]):
                a, b = out["streamed"][i], out["memory"][i]
                if len(a) != len(b):
                    return False
                conj += [TI(u) == TI(v) for u, v in zip(a, b)]                      # streamed == in memory, for every strand symbol
                col = dense[names[c]]
                s_, e_ = x[f"s{i}"].t, x[f"e{i}"].t
                conj.append(e_ - s_ == len(b))
                for j in range(len(b)):
                    fwd = z3.IntVal(0); rev = z3.IntVal(0)
                    for p in range(len(col)):
                        fwd = z3.If(s_ + j == p, col[p], fwd)
                        rev = z3.If(e_ - 1 - j == p, col[p], rev)
                    # the definition for the two proper strands ('.' carries no direction: only the equality above is required)
                    conj.append(z3.Implies(x[f"st{i}"].t == 0, TI(b[j]) == fwd))
                    conj.append(z3.Implies(x[f"st{i}"].t == 1, TI(b[j]) == rev))
            if "rowsum_streamed" in out:
                rs = out["rowsum_streamed"]
                if not isinstance(rs, list) or len(rs) != len(out["memory"]):
                    return False
                conj += [TI(g_) == sum([TI(v) for v in row[1:]], TI(row[0])) for g_, row in zip(rs, out["memory"])]
            if "mean_streamed" in out:
                # column j: the mean over the windows that HAVE a column j (the in-memory definition of a mean over ragged rows)
                from symnp.core import T
                rows_ = out["memory"]
                W = max(len(r_) for r_ in rows_)
                if len(out["mean_streamed"]) != W:
                    return False
                for j in range(W):
                    col = [TI(r_[j]) for r_ in rows_ if len(r_) > j]
                    g_ = T(out["mean_streamed"][j])
                    g_ = z3.ToReal(g_) if not z3.is_real(g_) else g_
                    conj.append(g_ * len(col) == z3.ToReal(sum(col[1:], col[0])))
            return z_and(conj)
        r = out["records"]
        m = len(r["start"])
        order = [names.index(c) for c in r["chrom"]]
        if order != sorted(order):
            return False
        conj = []
        for j in range(m):
            conj.append(z3.And(TI(r["start"][j]) >= 0, TI(r["start"][j]) < TI(r["stop"][j]), TI(r["stop"][j]) <= genome[r["chrom"][j]]))
            if j and r["chrom"][j] == r["chrom"][j - 1]:
                conj.append(TI(r["start"][j]) >= TI(r["stop"][j - 1]))
        total = z3.IntVal(0)
        for ci, nm in enumerate(names):
            for p in range(genome[nm]):
                cov = [z3.And(x[f"s{i}"].t <= p, p < x[f"e{i}"].t) for i, c in enumerate(skel["chroms"]) if c == ci]
                count = sum([z3.If(cv, 1, 0) for cv in cov], z3.IntVal(0))
                total = total + count
                inrec = [z3.And(TI(r["start"][j]) <= p, p < TI(r["stop"][j])) for j in range(m) if r["chrom"][j] == nm]
                if skel["what"] == "mask":
                    conj.append(z_or(inrec) == (count > 0))
                else:
                    val = z3.IntVal(0)
                    for j in range(m):
                        if r["chrom"][j] == nm:
                            val = z3.If(z3.And(TI(r["start"][j]) <= p, p < TI(r["stop"][j])), TI(r["value"][j]), val)
                    conj.append(val == count)
                    # every base of every chromosome is described by the bedGraph of a pileup (zero runs included)
                    conj.append(z_or(inrec))
        if "total" in out:
            conj.append(TI(out["total"]) == total)
        return z_and(conj)

    def oracle(self, skel, cx, cout):
        if isinstance(cout, Exc):
            return f"raised {cout}"
        genome = GENOMES[skel["genome"]]
        names = list(genome)
        if skel["what"] == "values":
            from checks.C09 import dense_py
            dense = dense_py(cx, [0, 1], genome, "a")
            wins = [(names[c], cx[f"s{i}"], cx[f"e{i}"], "+-."[cx[f"st{i}"]]) for i, c in enumerate(skel["chroms"])]
            sm = [[int(v) for v in r] for r in cout["streamed"]]
            mm = [[int(v) for v in r] for r in cout["memory"]]
            if sm != mm:
                return (f"values of the track {dense} under stranded windows {wins}: streamed (track cut {skel['track_chunks']}, windows cut {skel['chunks']}) {sm}, "
                        f"in memory {mm}")
            for (nm, s_, e_, st), row in zip(wins, mm):
                exp = dense[nm][s_:e_] if st == "+" else (dense[nm][s_:e_][::-1] if st == "-" else None)
                if exp is not None and row != exp:
                    return f"values of the track {dense} under window {(nm, s_, e_, st)}: {row}, expected {exp}"
            if "rowsum_streamed" in cout:
                got = [int(v) for v in cout["rowsum_streamed"]] if isinstance(cout["rowsum_streamed"], list) else cout["rowsum_streamed"]
                if got != [sum(r_) for r_ in mm]:
                    return (f"per-window sums (axis=-1) of the track {dense} under stranded windows {wins} (rows {mm}): streamed {got}, "
                            f"expected {[sum(r_) for r_ in mm]}")
            if "mean_streamed" in cout:
                W = max(len(r_) for r_ in mm)
                exp = [sum(r_[j] for r_ in mm if len(r_) > j) / sum(1 for r_ in mm if len(r_) > j) for j in range(W)]
                got = [float(v) for v in cout["mean_streamed"]]
                if len(got) != W or any(abs(a_ - b_) > 1e-9 for a_, b_ in zip(got, exp)):
                    return (f"column means of the track {dense} under stranded windows {wins} (rows {mm}): streamed (windows cut {skel['chunks']}) {got}, "
                            f"mean over the windows that reach each column {exp}")
            return None
        iv = [(names[c], cx[f"s{i}"], cx[f"e{i}"]) for i, c in enumerate(skel["chroms"])]
        r = cout["records"]
        got = {nm: [None] * genome[nm] for nm in names}
        for j in range(len(r["start"])):
            for p in range(r["start"][j], r["stop"][j]):
                if 0 <= p < genome[r["chrom"][j]]:
                    got[r["chrom"][j]][p] = r["value"][j] if skel["what"] == "pileup" else True
        exp = {nm: [sum(1 for c, s, e in iv if c == nm and s <= p < e) for p in range(genome[nm])] for nm in names}
        if skel["what"] == "mask":
            exp = {nm: [True if v else None for v in col] for nm, col in exp.items()}
        desc = f"{skel['what']} of {iv} on {genome}, stream cut as {skel['chunks']}"
        if got != exp:
            return f"{desc}: streamed records {r} expand to {got}, per-base result is {exp}"
        if "total" in cout and cout["total"] != sum(sum(c) for c in exp.values()):
            return f"{desc}: streamed sum {cout['total']}"
        order = [names.index(c) for c in r["chrom"]]
        return None if order == sorted(order) else f"{desc}: records not in genome order"


from checks.C12 import GroupbyChunks      # chunking-independence of the streamed groupby (shared with C12)

HARNESSES = [Reductions(), Rechunk(), Pipelines(), GroupbyChunks()]
