"""C12 -- per-chromosome streaming never silently drops or misattributes entries.

The contig NAME of every data group is symbolic: an index into the table NAMES wrapped in a SymName object whose
comparisons / hashing are decided by the path explorer (z3 prunes infeasible outcomes), so every sequence of contig groups
-- all subsets in all orders, unknown and ignored names included -- is covered by the forks of the real control code."""
import itertools
import z3
from vlib.harness import Harness, Exc
from vlib.zutil import TI, TB, z_and, z_or

GENOME = ["chr1", "chr2", "chr3"]
NAMES = GENOME + ["chrUn", "chr1_alt"]          # index 3: not in the genome; index 4: ignored by default (underscore)
UNK, IGN = 3, 4


class SymName:
    """a contig name whose identity is a symbolic index into NAMES"""
    def __init__(self, sv):
        self.sv = sv

    def _idx_of(self, other):
        if isinstance(other, SymName):
            return other.sv
        if isinstance(other, str):
            return NAMES.index(other) if other in NAMES else -1
        return None

    def __eq__(self, other):
        from symnp import ENGINE
        from symnp.core import S_eq
        i = self._idx_of(other)
        if i is None:
            return False
        r = S_eq(self.sv, i)
        return bool(r)                      # forks when undetermined

    def __ne__(self, other):
        return not self.__eq__(other)

    def __hash__(self):
        return hash(NAMES[int(self.sv)])    # concretises (forks over the feasible names)

    def __str__(self):
        return "<contig>"

    __repr__ = __str__
    __format__ = lambda self, spec: "<contig>"


def mk_names(ctx, x, m):
    if ctx.mode == "plain":
        return [NAMES[x[f"g{j}"]] for j in range(m)]
    return [SymName(x[f"g{j}"]) for j in range(m)]


def token_table(ctx, j):
    from bionumpy.datatypes import Interval
    return Interval(["x"], [100 + j], [101 + j])


def tok(ctx, t):
    """token id of a yielded table, None for the empty table"""
    if t is None:
        return None
    if len(t) == 0:
        return None
    return int(ctx.lst(t.start)[0]) - 100


class ChromosomeSync(Harness):
    name = "contig_sync"
    functions = ("GenomeContext.iter_chromosomes/_included_groups/chromosome_order", "SynchedStream.__iter__", "left_join")
    stubs = ("groupby replaced by an iterator over the given pre-grouped (name, table) pairs (its contract for data whose equal names "
             "are adjacent); group payloads are opaque one-row tables")
    bounds = {"quick": "genome chr1, chr2, chr3 (+ unknown name chrUn, + ignored name chr1_alt); 0-3 data groups with pairwise distinct "
                       "SYMBOLIC names over the 5 names: all subsets in all orders; the consumer drains the iterator",
              "thorough": "0-4 groups"}
    assumptions = ("entries of one contig are contiguous in the data (precondition of the property): group names are pairwise distinct",)

    def skeletons(self, tier, seed):
        ms = (0, 1, 2, 3) if tier == "quick" else (0, 1, 2, 3, 4)
        return [dict(api=api, m=m) for api in ("iter_chromosomes", "synched_stream", "left_join") for m in ms]

    def inputs(self, skel, V):
        hi = len(NAMES) - 1 if skel["api"] != "left_join" else UNK
        for j in range(skel["m"]):
            V.int(f"g{j}", 0, hi)
        for a, b in itertools.combinations(range(skel["m"]), 2):
            V.assume(V.vars[f"g{a}"].t != V.vars[f"g{b}"].t)

    def call(self, skel, x, ctx):
        from bionumpy.datatypes import Interval
        m = skel["m"]
        names = mk_names(ctx, x, m)
        pairs = [(names[j], token_table(ctx, j)) for j in range(m)]
        if skel["api"] == "iter_chromosomes":
            import bionumpy.genomic_data.genome_context as gcm
            gc = gcm.GenomeContext.from_dict({"chr1": 10, "chr2": 10, "chr3": 10, "chr1_alt": 5})
            old = gcm.groupby
            gcm.groupby = lambda data, field=None: iter(data)
            try:
                out = [tok(ctx, t) for t in gc.iter_chromosomes(pairs, Interval)]
            finally:
                gcm.groupby = old
            return dict(yielded=out)
        if skel["api"] == "synched_stream":
            import bionumpy.streams.multistream as ms

            class S(list):
                dataclass = Interval
            old = ms.groupby
            ms.groupby = lambda stream, attr=None: iter(stream)
            try:
                out = [tok(ctx, t) for t in ms.SynchedStream(S(pairs), list(GENOME))]
            finally:
                ms.groupby = old
            return dict(yielded=out)
        from bionumpy.streams.left_join import left_join
        left = [(nm, "L" + nm) for nm in GENOME]
        out = [(nm, l, tok(ctx, r)) for nm, l, r in left_join(iter(left), iter(pairs))]
        return dict(joined=out)

    def post(self, skel, x, out):
        m = skel["m"]
        g = [x[f"g{j}"].t for j in range(m)]
        in_genome = lambda t: z3.And(t >= 0, t <= 2)
        unknown = z_or([t == UNK for t in g])
        disorder = z_or([z3.And(in_genome(g[a]), in_genome(g[b]), g[a] > g[b]) for a, b in itertools.combinations(range(m), 2)])
        ignored_ok = skel["api"] == "iter_chromosomes"      # only the genome context has the notion of ignored names
        foreign = unknown if ignored_ok else z_or([z3.Or(t == UNK, t == IGN) for t in g])
        if isinstance(out, Exc):
            # an error is only legitimate when the order is incompatible or a name is neither in the genome nor ignored
            return z3.Or(foreign, disorder)
        if skel["api"] == "left_join":
            rows = out["joined"]
            if [r[0] for r in rows] != GENOME or [r[1] for r in rows] != ["L" + n for n in GENOME]:
                return False
            yielded = [r[2] for r in rows]
        else:
            yielded = out["yielded"]
            if len(yielded) != len(GENOME):
                return False
        conj = []
        for c, t in enumerate(yielded):
            if t is None:
                conj.append(z_and([gj != c for gj in g]))            # no data group carries this contig's name
            else:
                if not 0 <= t < m:
                    return False
                conj.append(g[t] == c)                               # the group yielded for contig c carries its name
        for j in range(m):
            here = z3.BoolVal(j in yielded)
            conj.append(z3.Or(here, g[j] == IGN) if ignored_ok else here)   # no group silently left out
        return z_and(conj)

    def oracle(self, skel, cx, cout):
        m = skel["m"]
        names = [NAMES[cx[f"g{j}"]] for j in range(m)]
        pos = [GENOME.index(n) for n in names if n in GENOME]
        disorder = pos != sorted(pos)
        foreign = any(n == "chrUn" or (n == "chr1_alt" and skel["api"] != "iter_chromosomes") for n in names)
        if isinstance(cout, Exc):
            return None if (disorder or foreign) else f"{skel['api']}: groups {names} are compatible with genome {GENOME} but an error was raised: {cout}"
        yielded = cout["yielded"] if "yielded" in cout else [r[2] for r in cout["joined"]]
        exp = [names.index(c) if c in names else None for c in GENOME]
        if disorder or foreign:
            return f"{skel['api']}: groups {names} (order incompatible with {GENOME} or unknown contig) completed without error, yielding tokens {yielded}"
        return None if yielded == exp else f"{skel['api']}: groups {names}: per-contig yields {yielded}, expected {exp}"


HARNESSES = [ChromosomeSync()]
