"""C12 -- per-chromosome streaming never silently drops or misattributes entries.

The contig NAME of every data group is symbolic: an index into the table NAMES wrapped in a SymName object whose
comparisons / hashing are decided by the path explorer (z3 prunes infeasible outcomes), so every sequence of contig groups
-- all subsets in all orders, unknown and ignored names included -- is covered by the forks of the real control code."""
import itertools
import z3
from vlib.harness import Harness, Exc
from vlib.zutil import TI, TB, z_and, z_or

GENOME = ["chr1", "chr2", "chr10"]          # genome order is not the alphabetical order of the names
NAMES = GENOME + ["chrUn", "chr1_alt"]          # index 3: not in the genome; index 4: ignored by default (underscore)
UNK, IGN = 3, 4


class SymName:
    """a contig name whose identity is a symbolic index into NAMES"""
    def __init__(self, sv):
        self.sv = sv

    def _idx_of(self, other):
        if isinstance(other, SymName):
            return other.sv
        if isinstance(other, str):
            return NAMES.index(other) if other in NAMES else -1
        return None

    def __eq__(self, other):
        from symnp import ENGINE
        from symnp.core import S_eq
        i = self._idx_of(other)
        if i is None:
            return False
        r = S_eq(self.sv, i)
        return bool(r)                      # forks when undetermined

    def __ne__(self, other):
        return not self.__eq__(other)

    # ordering: the string order of the names (decided per feasible name: forks)
    def _name(self):
        return NAMES[int(self.sv)]

    def _other(self, other):
        return other._name() if isinstance(other, SymName) else other

    def __lt__(self, other):
        o = self._other(other)
        return self._name() < o if isinstance(o, str) else NotImplemented

    def __le__(self, other):
        o = self._other(other)
        return self._name() <= o if isinstance(o, str) else NotImplemented

    def __gt__(self, other):
        o = self._other(other)
        return self._name() > o if isinstance(o, str) else NotImplemented

    def __ge__(self, other):
        o = self._other(other)
        return self._name() >= o if isinstance(o, str) else NotImplemented

    def __hash__(self):
        return hash(NAMES[int(self.sv)])    # concretises (forks over the feasible names)

    def __str__(self):
        return "<contig>"

    __repr__ = __str__
    __format__ = lambda self, spec: "<contig>"


def mk_names(ctx, x, m):
    if ctx.mode == "plain":
        return [NAMES[x[f"g{j}"]] for j in range(m)]
    return [SymName(x[f"g{j}"]) for j in range(m)]


def token_table(ctx, j):
    from bionumpy.datatypes import Interval
    return Interval(["x"], [100 + j], [101 + j])


def tok(ctx, t):
    """token id of a yielded table, None for the empty table"""
    if t is None:
        return None
    if len(t) == 0:
        return None
    return int(ctx.lst(t.start)[0]) - 100


class ChromosomeSync(Harness):
    name = "contig_sync"
    functions = ("GenomeContext.iter_chromosomes/_included_groups/chromosome_order", "SynchedStream.__iter__", "left_join")
    stubs = ("groupby replaced by an iterator over the given pre-grouped (name, table) pairs (its contract for data whose equal names "
             "are adjacent); group payloads are opaque one-row tables")
    bounds = {"quick": "genome chr1, chr2, chr10 (+ unknown name chrUn, + ignored name chr1_alt); 0-3 data groups with pairwise distinct "
                       "SYMBOLIC names over the 5 names: all subsets in all orders; the consumer drains the iterator",
              "thorough": "0-4 groups"}
    assumptions = ("entries of one contig are contiguous in the data (precondition of the property): group names are pairwise distinct",)

    def skeletons(self, tier, seed):
        ms = (0, 1, 2, 3) if tier == "quick" else (0, 1, 2, 3, 4)
        return [dict(api=api, m=m) for api in ("iter_chromosomes", "synched_stream", "left_join") for m in ms] + \
               [dict(api="iter_chromosomes", m=m, derived_first=True) for m in (1, 2)] + \
               [dict(api="iter_chromosomes", m=m, lenient=how) for m in (1, 2) for how in ("list", "iterator")]

    def inputs(self, skel, V):
        hi = len(NAMES) - 1 if skel["api"] != "left_join" else UNK
        for j in range(skel["m"]):
            V.int(f"g{j}", 0, hi)
        for a, b in itertools.combinations(range(skel["m"]), 2):
            V.assume(V.vars[f"g{a}"].t != V.vars[f"g{b}"].t)

    def call(self, skel, x, ctx):
        from bionumpy.datatypes import Interval
        m = skel["m"]
        names = mk_names(ctx, x, m)
        pairs = [(names[j], token_table(ctx, j)) for j in range(m)]
        if skel["api"] == "iter_chromosomes":
            import bionumpy.genomic_data.genome_context as gcm
            gc = gcm.GenomeContext.from_dict({"chr1": 10, "chr2": 10, "chr10": 10, "chr1_alt": 5})
            if skel.get("derived_first"):
                gc.with_ignored_added(["chrUn"])        # a more lenient context is derived first; the original must stay as strict as it was
            if skel.get("lenient"):
                # the context derived with an extra ignored name (given as a list / as a one-shot iterator): chrUn is now as ignored as chr1_alt
                gc = gc.with_ignored_added(["chrUn"] if skel["lenient"] == "list" else iter(["chrUn"]))
            old = gcm.groupby
            gcm.groupby = lambda data, field=None: iter(data)
            try:
                out = [tok(ctx, t) for t in gc.iter_chromosomes(pairs, Interval)]
            finally:
                gcm.groupby = old
            return dict(yielded=out)
        if skel["api"] == "synched_stream":
            import bionumpy.streams.multistream as ms

            class S(list):
                dataclass = Interval
            old = ms.groupby
            ms.groupby = lambda stream, attr=None: iter(stream)
            try:
                out = [tok(ctx, t) for t in ms.SynchedStream(S(pairs), list(GENOME))]
            finally:
                ms.groupby = old
            return dict(yielded=out)
        from bionumpy.streams.left_join import left_join
        left = [(nm, "L" + nm) for nm in GENOME]
        out = [(nm, l, tok(ctx, r)) for nm, l, r in left_join(iter(left), iter(pairs))]
        return dict(joined=out)

    def post(self, skel, x, out):
        m = skel["m"]
        g = [x[f"g{j}"].t for j in range(m)]
        in_genome = lambda t: z3.And(t >= 0, t <= 2)
        unknown = z_or([t == UNK for t in g])
        disorder = z_or([z3.And(in_genome(g[a]), in_genome(g[b]), g[a] > g[b]) for a, b in itertools.combinations(range(m), 2)])
        ignored_ok = skel["api"] == "iter_chromosomes"      # only the genome context has the notion of ignored names
        foreign = unknown if ignored_ok else z_or([z3.Or(t == UNK, t == IGN) for t in g])
        if skel.get("lenient"):
            foreign = z3.BoolVal(False)
        if isinstance(out, Exc):
            # an error is only legitimate when the order is incompatible or a name is neither in the genome nor ignored
            return z3.Or(foreign, disorder)
        if skel["api"] == "left_join":
            rows = out["joined"]
            if [r[0] for r in rows] != GENOME or [r[1] for r in rows] != ["L" + n for n in GENOME]:
                return False
            yielded = [r[2] for r in rows]
        else:
            yielded = out["yielded"]
            if len(yielded) != len(GENOME):
                return False
        conj = []
        for c, t in enumerate(yielded):
            if t is None:
                conj.append(z_and([gj != c for gj in g]))            # no data group carries this contig's name
            else:
                if not 0 <= t < m:
                    return False
                conj.append(g[t] == c)                               # the group yielded for contig c carries its name
        for j in range(m):
            here = z3.BoolVal(j in yielded)
            conj.append(z3.Or(here, g[j] == IGN, z3.And(z3.BoolVal(bool(skel.get("lenient"))), g[j] == UNK)) if ignored_ok else here)   # no group silently left out
        return z_and(conj)

    def oracle(self, skel, cx, cout):
        m = skel["m"]
        names = [NAMES[cx[f"g{j}"]] for j in range(m)]
        pos = [GENOME.index(n) for n in names if n in GENOME]
        disorder = pos != sorted(pos)
        foreign = any((n == "chrUn" and not skel.get("lenient")) or (n == "chr1_alt" and skel["api"] != "iter_chromosomes") for n in names)
        if isinstance(cout, Exc):
            return None if (disorder or foreign) else f"{skel['api']}: groups {names} are compatible with genome {GENOME} but an error was raised: {cout}"
        yielded = cout["yielded"] if "yielded" in cout else [r[2] for r in cout["joined"]]
        exp = [names.index(c) if c in names else None for c in GENOME]
        if disorder or foreign:
            return f"{skel['api']}: groups {names} (order incompatible with {GENOME} or unknown contig) completed without error, yielding tokens {yielded}"
        return None if yielded == exp else f"{skel['api']}: groups {names}: per-contig yields {yielded}, expected {exp}"


def compositions(n):
    """all ways to cut n entries into consecutive non-empty chunks"""
    out = []
    for bits in itertools.product([0, 1], repeat=n - 1):
        sizes, cur = [], 1
        for b in bits:
            if b:
                sizes.append(cur); cur = 1
            else:
                cur += 1
        sizes.append(cur)
        out.append(sizes)
    return out


class GroupbyChunks(Harness):
    """the real streaming groupby (groupby per chunk + join_groupbys across chunk borders) and the per-chromosome iteration built on it:
    contig names are concrete per skeleton (the group key is a Python string), the entries' payload is symbolic"""
    name = "groupby_chunks"
    functions = ("groupby (get_changes/get_ragged_changes, single-group shortcut)", "join_groupbys", "streamable", "NpDataclassStream",
                 "GenomeContext.iter_chromosomes on a chunked stream")
    CONTIGS = ["1", "11", "2"]         # genome order; "1" is a suffix of "11"
    CONTIGS_U = ["1", "1_alt", "2"]    # a genome that KEEPS a contig with an underscore in its name (Genome.from_dict keeps every name)

    def _C(self, skel):
        return self.CONTIGS_U if skel.get("underscore") else self.CONTIGS
    bounds = {"quick": "4 entries with symbolic start/stop on contigs named 1, 11, 2 (genome order): every assignment of the entries to "
                       "1-3 contigs in genome order x every way to cut the stream into chunks (8) x {groupby on the stream, "
                       "iter_chromosomes on the stream}",
              "thorough": "5 entries (16 chunkings)"}
    assumptions = ("entries of one contig are contiguous; contigs come in genome order except in the encoded-column skeletons of groupby",)

    def skeletons(self, tier, seed):
        n = 4 if tier == "quick" else 5
        out = []
        for k in (1, 2, 3):
            for names in itertools.combinations(range(3), k):
                for sizes in [c for c in compositions(n) if len(c) == k]:
                    contigs = [names[g] for g, sz in enumerate(sizes) for _ in range(sz)]
                    for chunks in compositions(n):
                        for api in ("groupby", "iter_chromosomes"):
                            out.append(dict(n=n, contigs=contigs, chunks=chunks, api=api))
                        if len(chunks) <= 2:
                            # the same with a table whose contig column is declared `str` (ragged text: another change detector)
                            out.append(dict(n=n, contigs=contigs, chunks=chunks, api="groupby", col="str"))
        # the contig column encoded against the genome (as Genome.get_intervals(...).as_stream() delivers it), contigs in ANY order: groupby
        # itself only joins neighbours with the same key, whatever the order (the order check belongs to iter_chromosomes)
        for contigs in ([2, 2, 0, 0], [1, 0, 0, 2], [2, 1, 0, 0], [0, 2, 1, 1], [0, 0, 1, 2], [1, 1, 1, 1]):
            contigs = contigs + [contigs[-1]] * (n - 4)
            for chunks in compositions(n):
                if tier == "thorough" or len(chunks) <= 2:
                    out.append(dict(n=n, contigs=contigs, chunks=chunks, api="groupby", col="encoded"))
        # a streamed bedGraph turned into a track and summed (Genome.get_track(stream), compute): data in genome order gives the sum of all
        # entries; a contig that comes back after a later one, or an unknown name (index 3), also AFTER the data of the last contig, must raise
        for contigs in ([0, 0, 1, 2], [0, 2, 2, 2], [1, 1, 1, 1], [0, 2, 1, 1], [2, 2, 0, 0], [0, 1, 2, 3], [2, 3, 3, 3], [1, 2, 0, 0]):
            contigs = contigs + [contigs[-1]] * (n - 4)
            for chunks in compositions(n):
                if tier == "thorough" or len(chunks) <= 2 or chunks == [1] * n:
                    out.append(dict(n=n, contigs=contigs, chunks=chunks, api="track_sum"))
                    out.append(dict(n=n, contigs=contigs, chunks=chunks, api="track_sum", via="get_data"))
        # intervals turned into a streamed pileup and summed: an in-memory table streamed with as_stream() (its contigs in any order), and a
        # stream of STRANDED interval chunks handed to Genome.get_intervals(..., stranded=True): every entry counts, or an error is raised
        for contigs in ([0, 0, 1, 2], [0, 2, 2, 2], [1, 1, 1, 1], [0, 2, 1, 1], [2, 2, 0, 0], [2, 2, 2, 0], [0, 2, 2, 1], [1, 2, 0, 0], [0, 1, 2, 3]):
            contigs = contigs + [contigs[-1]] * (n - 4)
            out.append(dict(n=n, contigs=contigs, chunks=[n], api="pileup_sum", source="memory_as_stream"))
            for chunks in compositions(n):
                if tier == "thorough" or len(chunks) <= 2 or chunks == [1] * n:
                    out.append(dict(n=n, contigs=contigs, chunks=chunks, api="pileup_sum", source="stranded_stream"))
        # a streamed track read under windows (in memory or streamed) whose contigs are grouped but come in any order / name an unknown
        # contig, also AFTER the data of the genome's last contig: one row per window, or an error
        for contigs in ([0, 1, 2, 2], [0, 2, 2, 2], [2, 2, 0, 0], [1, 2, 0, 0], [2, 2, 2, 0], [0, 1, 2, 3], [2, 3, 3, 3], [1, 1, 1, 1]):
            contigs = contigs + [contigs[-1]] * (n - 4)
            for source in ("memory", "stream"):
                out.append(dict(n=n, contigs=contigs, chunks=[n], api="track_under_windows", source=source))
        # two interval sets synchronised contig by contig (MultiStream, as forbes / jaccard do) and reduced to their contingency table:
        # an offender in EITHER set -- also at its very end -- must raise, whichever set is passed first
        for contigs in ([0, 0, 1, 2], [0, 2, 2, 2], [0, 2, 1, 1], [2, 2, 0, 0], [0, 1, 2, 3], [1, 2, 0, 0]):
            contigs = contigs + [contigs[-1]] * (n - 4)
            for order in ("ab", "ba"):
                out.append(dict(n=n, contigs=contigs, chunks=[n], api="contingency", order=order))
        # a streamed track of one genome read under the intervals of ANOTHER genome object with the same contigs in another order: every
        # window gets the values of the contig it names, or the combination is refused -- never another contig's values
        for order in ([1, 0, 2], [2, 1, 0], [0, 1, 2]):
            out.append(dict(n=n, contigs=[0, 1, 2, 2] + [2] * (n - 4), chunks=[n], api="foreign_intervals", order=order))
        # history: a context over the SAME names and sizes was made earlier in the process with another (anonymous) filter that ignores "2"
        for contigs in ([0, 0, 1, 2], [0, 2, 2, 2], [2, 2, 2, 2]):
            contigs = contigs + [contigs[-1]] * (n - 4)
            for api in ("iter_chromosomes", "track_sum"):
                out.append(dict(n=n, contigs=contigs, chunks=[2, n - 2], api=api, prior_context=True))
        # a genome that keeps a contig whose name contains '_': it is a chromosome like the others in every streamed evaluation
        for contigs in ([0, 1, 2, 2], [0, 0, 2, 2], [1, 1, 1, 1], [0, 2, 2, 2]):
            contigs = contigs + [contigs[-1]] * (n - 4)
            for chunks in compositions(n):
                if tier == "thorough" or len(chunks) <= 2:
                    out.append(dict(n=n, contigs=contigs, chunks=chunks, api="iter_chromosomes", underscore=True))
                    out.append(dict(n=n, contigs=contigs, chunks=chunks, api="track_sum", underscore=True))
                    out.append(dict(n=n, contigs=contigs, chunks=chunks, api="track_sum", via="get_data", underscore=True))
        return out

    def inputs(self, skel, V):
        for i in range(skel["n"]):
            V.int(f"s{i}", 0, 5)
            V.int(f"w{i}", 1, 4)

    def call(self, skel, x, ctx):
        from bionumpy.datatypes import Interval
        from bionumpy.streams import NpDataclassStream
        from bionumpy.streams.groupby_func import groupby
        n = skel["n"]
        if skel.get("prior_context"):
            import bionumpy as bnp
            import bionumpy.genomic_data.genome_context as gcm0
            earlier = gcm0.GenomeContext.from_dict({c: 20 for c in self._C(skel)}, filter_function=lambda name: name != "2")
            assert list(earlier.chrom_sizes) == [c for c in self._C(skel) if c != "2"]
            bnp.Genome.from_dict({c: 20 for c in self._C(skel)}, filter_function=lambda name: name != "2")
        if skel["api"] == "track_sum":
            import bionumpy as bnp
            from bionumpy.datatypes import BedGraph
            from bionumpy.computation_graph import compute
            names = [(self._C(skel) + ["zz"])[c] for c in skel["contigs"]]
            pos = [3 * sum(1 for c in skel["contigs"][:i] if c == skel["contigs"][i]) for i in range(n)]     # records of a contig side by side
            chunks, k = [], 0
            for sz in skel["chunks"]:
                chunks.append(BedGraph(names[k:k + sz], pos[k:k + sz], [p + 2 for p in pos[k:k + sz]], ctx.arr([x[f"w{i}"] for i in range(k, k + sz)], "int64")))
                k += sz
            g = bnp.Genome.from_dict({c: 20 for c in self._C(skel)})
            track = g.get_track(NpDataclassStream(iter(chunks), dataclass=BedGraph))
            if skel.get("via") == "get_data":      # the bedGraph records of the streamed track, summed here
                d = compute(track.get_data())
                tot = 0
                for v_, a_, b_ in zip(ctx.lst(d.value), ctx.lst(d.start), ctx.lst(d.stop)):
                    tot = tot + v_ * (int(b_) - int(a_))
                return dict(total=tot, n_records=len(d))
            return dict(total=ctx.lst(compute(track.sum())))
        if skel["api"] == "track_under_windows":
            import bionumpy as bnp
            from bionumpy.datatypes import BedGraph
            from bionumpy.computation_graph import compute
            C = self._C(skel)
            g = bnp.Genome.from_dict({c: 20 for c in C})
            bg = BedGraph(list(C), [0] * len(C), [20] * len(C), ctx.arr([x[f"w{i}"] for i in range(len(C))], "int64"))     # value w_c on all of contig c
            track = g.get_track(NpDataclassStream(iter([bg]), dataclass=BedGraph))
            names = [(C + ["zz"])[c] for c in skel["contigs"]]
            pos = [3 * sum(1 for c in skel["contigs"][:i] if c == skel["contigs"][i]) for i in range(n)]
            iv = Interval(names, pos, [p + 2 for p in pos])
            windows = g.get_intervals(iv) if skel["source"] == "memory" else g.get_intervals(NpDataclassStream(iter([iv]), dataclass=Interval))
            got = compute(track[windows])
            return dict(rows=[ctx.lst(got[i].to_array()) for i in range(len(got))])
        if skel["api"] == "pileup_sum":
            import bionumpy as bnp
            from bionumpy.datatypes import StrandedInterval
            from bionumpy.computation_graph import compute
            names = [(self._C(skel) + ["zz"])[c] for c in skel["contigs"]]
            pos = [3 * sum(1 for c in skel["contigs"][:i] if c == skel["contigs"][i]) for i in range(n)]
            stops = [pos[i] + x[f"w{i}"] for i in range(n)]
            g = bnp.Genome.from_dict({c: 20 for c in self._C(skel)})
            if skel["source"] == "memory_as_stream":
                gi = g.get_intervals(Interval(names, ctx.arr(pos, "int64"), ctx.arr(stops, "int64"))).as_stream()
            else:
                chunks, k = [], 0
                for sz in skel["chunks"]:
                    chunks.append(StrandedInterval(names[k:k + sz], ctx.arr(pos[k:k + sz], "int64"), ctx.arr(stops[k:k + sz], "int64"), ["+"] * sz))
                    k += sz
                gi = g.get_intervals(NpDataclassStream(iter(chunks), dataclass=StrandedInterval), stranded=True)
            return dict(total=ctx.lst(compute(gi.get_pileup().sum())))
        if skel["api"] == "foreign_intervals":
            import bionumpy as bnp
            from bionumpy.datatypes import BedGraph
            from bionumpy.computation_graph import compute
            C = self._C(skel)
            names = [C[c] for c in skel["contigs"]]
            pos = [3 * sum(1 for c in skel["contigs"][:i] if c == skel["contigs"][i]) for i in range(n)]
            bg = BedGraph(names, pos, [p + 2 for p in pos], ctx.arr([x[f"w{i}"] for i in range(n)], "int64"))
            g_track = bnp.Genome.from_dict({c: 20 for c in C})
            g_other = bnp.Genome.from_dict({C[i]: 20 for i in skel["order"]})
            track = g_track.get_track(NpDataclassStream(iter([bg]), dataclass=BedGraph))
            windows = g_other.get_intervals(Interval([C[i] for i in skel["order"]], [0] * 3, [2] * 3))       # [0, 2) on every contig, in g_other's order
            got = compute(track[windows])
            return dict(rows=[ctx.lst(got[i].to_array()) for i in range(3)])
        if skel["api"] == "contingency":
            from bionumpy.streams import MultiStream
            from bionumpy.arithmetics.similarity_measures import get_contingency_table
            C = self._C(skel)
            names = [(C + ["zz"])[c] for c in skel["contigs"]]
            pos = [3 * sum(1 for c in skel["contigs"][:i] if c == skel["contigs"][i]) for i in range(n)]
            B = Interval(names, pos, [p + 2 for p in pos])
            A = Interval(list(C), [0] * len(C), [x[f"w{i}"] for i in range(len(C))] if False else [2] * len(C))     # [0, 2) on every contig
            first, second = (A, B) if skel["order"] == "ab" else (B, A)
            ms = MultiStream({c: 20 for c in C}, a=first, b=second)
            t = get_contingency_table(ms.a, ms.b, ms.lengths)
            return dict(table=ctx.lst(t))
        names = [self._C(skel)[c] for c in skel["contigs"]]
        starts = [x[f"s{i}"] for i in range(n)]
        stops = [x[f"s{i}"] + x[f"w{i}"] for i in range(n)]
        if skel.get("col") == "str":
            from bionumpy.bnpdataclass import bnpdataclass

            @bnpdataclass
            class StrInterval:
                chromosome: str
                start: int
                stop: int
            Table = StrInterval
        else:
            Table = Interval
        chunks, k = [], 0
        for sz in skel["chunks"]:
            col = names[k:k + sz]
            if skel.get("col") == "encoded":
                import bionumpy.genomic_data.genome_context as gcm
                from bionumpy.encoded_array import as_encoded_array
                col = as_encoded_array(col, gcm.GenomeContext.from_dict({c: 20 for c in self._C(skel)}, filter_function=None).encoding)
            chunks.append(Table(col, ctx.arr(starts[k:k + sz], "int64"), ctx.arr(stops[k:k + sz], "int64")))
            k += sz
        stream = NpDataclassStream(iter(chunks), dataclass=Table)
        if skel["api"] == "groupby":
            groups = [(key, g) for key, g in itertools.islice(groupby(stream, "chromosome"), n + 2)]
        else:
            import bionumpy.genomic_data.genome_context as gcm
            gc = gcm.GenomeContext.from_dict({c: 20 for c in self._C(skel)}, filter_function=None)      # every name is a contig of the genome
            groups = list(zip(self._C(skel), itertools.islice(gc.iter_chromosomes(stream, Interval), 5)))
        return dict(groups=[(str(key), [nm.to_string() for nm in g.chromosome], ctx.lst(g.start), ctx.lst(g.stop)) for key, g in groups])

    def _expected(self, skel):
        """[(contig name, [entry indices])] in stream order"""
        exp = []
        for i, c in enumerate(skel["contigs"]):
            if exp and exp[-1][0] == self._C(skel)[c]:
                exp[-1][1].append(i)
            else:
                exp.append((self._C(skel)[c], [i]))
        if skel["api"] == "iter_chromosomes":
            d = dict(exp)
            exp = [(c, d.get(c, [])) for c in self._C(skel)]
        return exp

    def _track_ok(self, skel):
        """data order compatible with the genome: known names, contigs contiguous and in genome order"""
        cs = [c for i, c in enumerate(skel["contigs"]) if i == 0 or skel["contigs"][i - 1] != c]
        return all(c < 3 for c in cs) and cs == sorted(set(cs))

    def post(self, skel, x, out):
        if skel["api"] == "foreign_intervals":
            if isinstance(out, Exc):
                return skel["order"] != [0, 1, 2]        # refusing is right when the two genomes order their contigs differently
            first = {c: skel["contigs"].index(c) for c in set(skel["contigs"])}      # the record at [0, 2) of each contig
            conj = []
            for j, ci in enumerate(skel["order"]):
                if len(out["rows"][j]) != 2:
                    return False
                conj += [TI(v) == x[f"w{first[ci]}"].t for v in out["rows"][j]]
            return z_and(conj)
        if skel["api"] == "contingency":
            if isinstance(out, Exc):
                return not self._track_ok(skel)
            if not self._track_ok(skel):
                return False                             # a table although entries of one set cannot be placed
            t = out["table"]
            both = 2 * len(set(skel["contigs"]))         # the first entry of every contig of B coincides with A's [0, 2)
            return [[int(v) for v in row] for row in t][0][0] == both and sum(int(v) for row in t for v in row) == 20 * len(self._C(skel))
        if skel["api"] == "track_under_windows":
            if isinstance(out, Exc):
                return not self._track_ok(skel)
            if not self._track_ok(skel) or len(out["rows"]) != skel["n"]:
                return False                      # a result although windows cannot be placed / a window without its row
            conj = []
            for i, c in enumerate(skel["contigs"]):
                if len(out["rows"][i]) != 2:
                    return False
                conj += [TI(v) == x[f"w{c}"].t for v in out["rows"][i]]
            return z_and(conj)
        if skel["api"] == "pileup_sum":
            if isinstance(out, Exc):
                return not self._track_ok(skel)
            if not self._track_ok(skel):
                return False
            return TI(out["total"]) == sum([x[f"w{i}"].t for i in range(skel["n"])], z3.IntVal(0))
        if skel["api"] == "track_sum":
            if isinstance(out, Exc):
                return not self._track_ok(skel)          # an error is due exactly when the order / the names do not fit the genome
            if not self._track_ok(skel):
                return False                             # a result although entries cannot be placed: entries were dropped silently
            return TI(out["total"]) == 2 * sum([x[f"w{i}"].t for i in range(skel["n"])], z3.IntVal(0))
        if isinstance(out, Exc):
            return False
        exp = self._expected(skel)
        got = out["groups"]
        if [g[0] for g in got] != [e[0] for e in exp]:
            return False
        conj = []
        for (key, names, starts, stops), (ename, idx) in zip(got, exp):
            if names != [ename] * len(idx) or len(starts) != len(idx) or len(stops) != len(idx):
                return False
            for j, i in enumerate(idx):
                conj.append(TI(starts[j]) == x[f"s{i}"].t)
                conj.append(TI(stops[j]) == x[f"s{i}"].t + x[f"w{i}"].t)
        return z_and(conj)

    def oracle(self, skel, cx, cout):
        if skel["api"] == "foreign_intervals":
            C = self._C(skel)
            desc = f"streamed track over genome {C} read under windows [0,2) of a genome ordered {[C[i] for i in skel['order']]}"
            if isinstance(cout, Exc):
                return None if skel["order"] != [0, 1, 2] else f"{desc}: raised {cout}"
            first = {c: skel["contigs"].index(c) for c in set(skel["contigs"])}
            exp = [[cx[f"w{first[ci]}"]] * 2 for ci in skel["order"]]
            got = [[int(v) for v in r] for r in cout["rows"]]
            return None if got == exp else f"{desc}: values {got}, the named contigs hold {exp}"
        if skel["api"] == "contingency":
            names = [(self._C(skel) + ["zz"])[c] for c in skel["contigs"]]
            desc = (f"contingency table of A = [0,2) on every contig of {self._C(skel)} and B = entries on contigs {names}, passed as "
                    f"({'A, B' if skel['order'] == 'ab' else 'B, A'}) through MultiStream")
            if isinstance(cout, Exc):
                return None if not self._track_ok(skel) else f"{desc}: raised {cout}"
            if not self._track_ok(skel):
                return f"{desc}: table {cout['table']} although the contigs of B do not fit the genome order / names (entries dropped without an error)"
            t = [[int(v) for v in row] for row in cout["table"]]
            ok = t[0][0] == 2 * len(set(skel["contigs"])) and sum(map(sum, t)) == 20 * len(self._C(skel))
            return None if ok else f"{desc}: table {t}"
        if skel["api"] == "track_under_windows":
            names = [(self._C(skel) + ["zz"])[c] for c in skel["contigs"]]
            desc = f"streamed track (value w_c on contig c of {self._C(skel)}, w = {[cx[f'w{i}'] for i in range(3)]}) read under {skel['source']} windows on contigs {names}"
            if isinstance(cout, Exc):
                return None if not self._track_ok(skel) else f"{desc}: raised {cout}"
            got = [[int(v) for v in r] for r in cout["rows"]]
            if not self._track_ok(skel):
                return f"{desc}: rows {got} although the windows' contig order / names do not fit the genome (windows dropped or misplaced without an error)"
            exp = [[cx[f"w{c}"]] * 2 for c in skel["contigs"]]
            return None if got == exp else f"{desc}: rows {got}, expected {exp}"
        if skel["api"] == "pileup_sum":
            names = [(self._C(skel) + ["zz"])[c] for c in skel["contigs"]]
            how = ("an in-memory table streamed with as_stream()" if skel["source"] == "memory_as_stream"
                   else f"a stream of stranded chunks of sizes {skel['chunks']} given to get_intervals(stranded=True)")
            desc = f"intervals on contigs {names} (genome {self._C(skel)}) of widths {[cx[f'w{i}'] for i in range(skel['n'])]}, {how}, pileup summed"
            if isinstance(cout, Exc):
                return None if not self._track_ok(skel) else f"{desc}: raised {cout}"
            if not self._track_ok(skel):
                return f"{desc}: sum = {cout['total']} although the contig order / names do not fit the genome (entries misplaced or dropped without an error)"
            exp = sum(cx[f"w{i}"] for i in range(skel["n"]))
            return None if float(cout["total"]) == exp else f"{desc}: sum = {cout['total']}, expected {exp}"
        if skel["api"] == "track_sum":
            names = [(self._C(skel) + ["zz"])[c] for c in skel["contigs"]]
            desc = f"bedGraph stream with contigs {names} (genome {self._C(skel)}) cut into chunks of sizes {skel['chunks']}, values {[cx[f'w{i}'] for i in range(skel['n'])]} on 2 bases each, evaluated through {skel.get('via', 'sum')}"
            if isinstance(cout, Exc):
                return None if not self._track_ok(skel) else f"{desc}: get_track(...).sum() raised {cout}"
            if not self._track_ok(skel):
                return f"{desc}: get_track(...).sum() = {cout['total']} although the contig order / names do not fit the genome (entries dropped without an error)"
            exp = 2 * sum(cx[f"w{i}"] for i in range(skel["n"]))
            return None if float(cout["total"]) == exp else f"{desc}: get_track(...).sum() = {cout['total']}, expected {exp}"
        if isinstance(cout, Exc):
            return f"{skel['api']} over chunks {skel['chunks']} of contigs {[self._C(skel)[c] for c in skel['contigs']]} raised {cout}"
        exp = [(nm, [(cx[f"s{i}"], cx[f"s{i}"] + cx[f"w{i}"]) for i in idx]) for nm, idx in self._expected(skel)]
        got = [(g[0], list(zip(g[2], g[3]))) for g in cout["groups"]]
        names_ok = all(g[1] == [g[0]] * len(g[2]) for g in cout["groups"])
        if got != exp or not names_ok:
            return (f"{skel['api']} over a stream of contigs {[self._C(skel)[c] for c in skel['contigs']]} cut into chunks of sizes {skel['chunks']}: "
                    f"groups {got}{'' if names_ok else ' (with entries of another contig inside)'}, expected {exp}")
        return None


HARNESSES = [ChromosomeSync(), GroupbyChunks()]
