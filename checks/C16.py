"""C16 -- BAM records decode to the values the BAM specification defines."""
import itertools
import z3
from vlib.harness import Harness, Exc
from vlib.zutil import TI, TB, z_and, z_or

BAM_SEQ = "=ACMGRSVTWYHKDBN"
CIGAR_OPS = "MIDNSHP=X"
REF_CONSUMING = set("MDN=X")


def le(n, k):
    return [(n >> (8 * i)) & 255 for i in range(k)]


def header_bytes(refs):
    text = b"@HD\tVN:1.6\n"
    out = list(b"BAM\x01") + le(len(text), 4) + list(text) + le(len(refs), 4)
    for name, length in refs:
        nm = name.encode() + b"\x00"
        out += le(len(nm), 4) + list(nm) + le(length, 4)
    return out


SEQ_LETTERS = "=ACMGRSVTWYHKDBN"          # SAM/BAM specification, section 4.2: the 4-bit sequence codes


def record_layout(rec):
    """rec: dict(name_len (without NUL), n_cigar, l_seq, n_tag, unmapped) -> (block_size, list of field specs)"""
    l_read_name = rec["name_len"] + 1
    nseqb = (rec["l_seq"] + 1) // 2
    size = 32 + l_read_name + 4 * rec["n_cigar"] + nseqb + rec["l_seq"] + rec["n_tag"]
    return size


def declare_record(V, i, rec, n_ref):
    v = {}
    v["ref"] = None if rec.get("unmapped") else V.int(f"r{i}_ref", 0, max(n_ref - 1, 0))
    if rec.get("pos_minus1"):                         # an unplaced read: pos = -1 (all four bytes 0xFF)
        v["pos"] = [V.int(f"r{i}_pos{k}", 255, 255) for k in range(4)]
    else:
        v["pos"] = [V.byte(f"r{i}_pos{k}") for k in range(4)]
        V.assume(V.vars[f"r{i}_pos3"].t < 128)            # non-negative 0-based position
    v["mapq"] = V.byte(f"r{i}_mapq")
    v["flag"] = [V.byte(f"r{i}_flag{k}") for k in range(2)]
    v["name"] = [V.int(f"r{i}_n{k}", 33, 126) for k in range(rec["name_len"])]
    v["cigar"] = []
    for c in range(rec["n_cigar"] if not rec.get("cigar_fixed") else 0):      # cigar_fixed: every word is the literal 1M (very long CIGARs)
        b = [V.byte(f"r{i}_c{c}_{k}") for k in range(4)]
        V.assume(V.vars[f"r{i}_c{c}_0"].t % 16 <= 8)  # one of the nine operations
        v["cigar"].append(b)
    v["seq"] = [V.byte(f"r{i}_s{k}") for k in range((rec["l_seq"] + 1) // 2)]
    v["qual"] = [V.int(f"r{i}_q{k}", 0, 93) for k in range(rec["l_seq"])]
    v["tag"] = [V.byte(f"r{i}_t{k}") for k in range(rec["n_tag"])]
    return v


def record_bytes(x, i, rec):
    g = lambda nm: x[nm]
    size = record_layout(rec)
    ref = [255, 255, 255, 255] if rec.get("unmapped") else [g(f"r{i}_ref"), 0, 0, 0]
    out = le(size, 4) + ref + [g(f"r{i}_pos{k}") for k in range(4)]
    out += [rec["name_len"] + 1, g(f"r{i}_mapq"), 0x12, 0x48]                     # l_read_name, mapq, bin
    out += le(rec["n_cigar"], 2) + [g(f"r{i}_flag0"), g(f"r{i}_flag1")] + le(rec["l_seq"], 4)
    out += [255, 255, 255, 255] + [255, 255, 255, 255] + le(0, 4)                # next_refID, next_pos, tlen
    out += [g(f"r{i}_n{k}") for k in range(rec["name_len"])] + [0]
    for c in range(rec["n_cigar"]):
        out += [0x10, 0, 0, 0] if rec.get("cigar_fixed") else [g(f"r{i}_c{c}_{k}") for k in range(4)]
    out += [g(f"r{i}_s{k}") for k in range((rec["l_seq"] + 1) // 2)]
    out += [g(f"r{i}_q{k}") for k in range(rec["l_seq"])]
    out += [g(f"r{i}_t{k}") for k in range(rec["n_tag"])]
    assert len(out) == size + 4
    return out


class Decode(Harness):
    name = "decode"
    functions = ("BamBuffer.read_header/_find_starts/from_raw_buffer/get_data", "BamBufferExtractor field getters/_get_ints",
                 "split_cigar", "count_reference_length", "BamIntervalBuffer", "NumpyFileReader.read/read_chunks")
    bounds = {"quick": "1-2 references, 1-2 records; read names 1-3 chars, 0-2 CIGAR ops, l_seq in {0,1,2,3}, 0-2 tag bytes; "
                       "whole read and chunk sizes >= largest record; mapped and unmapped (refID=-1)",
              "thorough": "up to 3 records, l_seq up to 5, 3 CIGAR ops, names up to 4"}
    assumptions = ("BGZF container not encoded: the reader is driven with the uncompressed BAM byte stream",
                   "positions non-negative; CIGAR words carry one of the nine operations")

    def skeletons(self, tier, seed):
        R = lambda name_len, n_cigar, l_seq, n_tag, unmapped=False: dict(name_len=name_len, n_cigar=n_cigar, l_seq=l_seq,
                                                                         n_tag=n_tag, unmapped=unmapped)
        sets = [
            [R(1, 0, 0, 0)], [R(2, 1, 1, 0)], [R(1, 2, 2, 1)], [R(3, 1, 3, 2)], [R(1, 1, 1, 0, True)],
            [R(2, 1, 1, 0), R(1, 2, 2, 0)], [R(1, 0, 3, 1), R(3, 1, 0, 0)], [R(1, 1, 2, 0, True), R(1, 1, 1, 2)],
        ]
        # a read name near the 254-character limit (l_read_name is one unsigned byte), followed by a short record
        sets += [[R(230, 1, 1, 0), R(1, 1, 1, 0)]]
        # an unplaced read (refID = -1, pos = -1) after a placed one
        sets += [[R(1, 1, 2, 0), dict(R(1, 0, 2, 0, True), pos_minus1=True)]]
        # a record with 16384 CIGAR operations (n_cigar_op * 4 reaches 2^16: long reads have such CIGARs), the words being the literal 1M
        sets += [[dict(R(1, 16384, 2, 1), cigar_fixed=True), R(1, 1, 1, 0)]]
        if tier == "thorough":
            sets += [[R(219, 0, 1, 0), R(2, 1, 2, 0)], [R(254, 1, 0, 0)]]
            sets += [[R(4, 3, 5, 0)], [R(1, 1, 4, 3)], [R(2, 2, 5, 1), R(1, 0, 1, 0), R(2, 1, 4, 0)],
                     [R(1, 1, 1, 0), R(1, 1, 1, 0), R(1, 1, 1, 0, True)], [R(3, 3, 3, 3), R(3, 3, 3, 3)]]
        out = []
        for recs in sets:
            for n_ref in (1, 2):
                if any(r["unmapped"] for r in recs) and n_ref == 1 and len(recs) > 1:
                    continue
                if any(r.get("cigar_fixed") for r in recs):         # 64 KiB of CIGAR words: whole read and interval view only
                    if n_ref == 1:
                        out.append(dict(recs=recs, n_ref=n_ref, chunk=None, interval=False))
                        out.append(dict(recs=recs, n_ref=n_ref, chunk=None, interval=True))
                    continue
                big = max(record_layout(r) + 4 for r in recs)
                total = sum(record_layout(r) + 4 for r in recs)
                chunks = [None] if len(recs) == 1 else sorted({None, big, big + 1, total, total + 1, total - 1}, key=lambda v: (v is not None, v))
                for ch in chunks:
                    if tier == "quick" and n_ref == 2 and ch not in (None, big):
                        continue
                    out.append(dict(recs=recs, n_ref=n_ref, chunk=ch, interval=False))
                out.append(dict(recs=recs, n_ref=n_ref, chunk=None, interval=True))
        # history: the reference intervals of the table are asked for (alignment_to_interval) before its fields are read
        out += [dict(recs=sets[2], n_ref=1, chunk=None, interval=False, interval_first=True),
                dict(recs=sets[5], n_ref=2, chunk=None, interval=False, interval_first=True)]
        return out

    REFS = [("chr1", 1000), ("chrX", 500)]

    def inputs(self, skel, V):
        for i, rec in enumerate(skel["recs"]):
            declare_record(V, i, rec, skel["n_ref"])

    def call(self, skel, x, ctx):
        from bionumpy.io.parser import NumpyFileReader
        from bionumpy.io.npdataclassreader import NpDataclassReader
        from bionumpy.io.bam import BamBuffer, BamIntervalBuffer
        import numpy as np
        refs = self.REFS[:skel["n_ref"]]
        content = header_bytes(refs)
        for i, rec in enumerate(skel["recs"]):
            content += record_bytes(x, i, rec)
        f = ctx.file(content)
        bt = BamIntervalBuffer if skel["interval"] else BamBuffer
        reader = NumpyFileReader(f, bt)
        if skel["chunk"] is None:
            bufs = [reader.read()]
        else:
            import itertools as _it
            # a file of n records never needs more than n+1 chunks: bound the loop so that a reader that stops
            # making progress shows up as a wrong record count instead of a hang
            bufs = list(_it.islice(reader.read_chunks(skel["chunk"]), len(skel["recs"]) + 3))
        rows = []
        for b in bufs:
            d = b.get_data()
            n = len(d)
            if skel["interval"]:
                for j in range(n):
                    st = ctx.lst(d.strand[j].raw())
                    rows.append(dict(chrom=d.chromosome[j].to_string(), start=ctx.lst(d.start[j]), stop=ctx.lst(d.stop[j]),
                                     name=ctx.lst(d.name[j].raw()), score=ctx.lst(d.score[j]),
                                     strand=st if isinstance(st, list) else [st]))
                continue
            if skel.get("interval_first"):
                from bionumpy.alignments import alignment_to_interval
                alignment_to_interval(d)
            for j in range(n):
                rows.append(dict(chrom=d.chromosome[j].to_string(), name=ctx.lst(d.name[j].raw()), flag=ctx.lst(d.flag[j]),
                                 pos=ctx.lst(d.position[j]), mapq=ctx.lst(d.mapq[j]), op=ctx.lst(d.cigar_op[j].raw()),
                                 oplen=ctx.lst(d.cigar_length[j]), seq=ctx.lst(d.sequence[j].raw()),
                                 seq_text=ctx.lst(d.sequence.encoding.decode(d.sequence[j]).raw()),      # the letters, through the library's own table
                                 op_text=ctx.lst(d.cigar_op.encoding.decode(d.cigar_op[j]).raw()),
                                 qual=ctx.lst(d.quality[j])))
        return dict(rows=rows, n_chunks=len(bufs))

    # ---- specification-level decoder over the symbolic bytes
    def _spec(self, skel, x, i, val=lambda v: v.t):
        rec = skel["recs"][i]
        g = lambda nm: val(x[nm])
        pos = g(f"r{i}_pos0") + 256 * g(f"r{i}_pos1") + 65536 * g(f"r{i}_pos2") + 16777216 * g(f"r{i}_pos3")
        if rec.get("pos_minus1"):
            pos = pos - 2 ** 32                      # int32: 0xFFFFFFFF is -1
        flag = g(f"r{i}_flag0") + 256 * g(f"r{i}_flag1")
        ops, lens = [], []
        for c in range(rec["n_cigar"]):
            if rec.get("cigar_fixed"):
                ops.append(0); lens.append(1)
                continue
            w = sum(g(f"r{i}_c{c}_{k}") * 256 ** k for k in range(4))
            ops.append(w % 16)
            lens.append(w / 16 if z3.is_expr(w) else w // 16)
        seq = []
        for k in range(rec["l_seq"]):
            b = g(f"r{i}_s{k // 2}")
            seq.append((b / 16 if z3.is_expr(b) else b // 16) if k % 2 == 0 else b % 16)   # high nibble first
        return dict(pos=pos, flag=flag, ops=ops, lens=lens, seq=seq,
                    name=[g(f"r{i}_n{k}") for k in range(rec["name_len"])], mapq=g(f"r{i}_mapq"),
                    qual=[g(f"r{i}_q{k}") for k in range(rec["l_seq"])])

    def _chrom(self, skel, i, refval):
        if skel["recs"][i].get("unmapped"):
            return None
        return refval

    def post(self, skel, x, out):
        if isinstance(out, Exc):
            return False
        n = len(skel["recs"])
        if len(out["rows"]) != n:
            return False
        conj = []
        for i, rec in enumerate(skel["recs"]):
            row, sp = out["rows"][i], self._spec(skel, x, i)
            # reference name: concrete string on this path, must be the name selected by refID, none ('*') if unmapped
            if rec.get("unmapped"):
                if row["chrom"] in [r[0] for r in self.REFS]:
                    return False
            else:
                names = [r[0] for r in self.REFS[:skel["n_ref"]]]
                if row["chrom"] not in names:
                    return False
                conj.append(x[f"r{i}_ref"].t == names.index(row["chrom"]))
            if len(row["name"]) != rec["name_len"]:
                return False
            conj += [TI(a) == b for a, b in zip(row["name"], sp["name"])]
            if skel["interval"]:
                reflen = sum([z3.If(z_or([op == CIGAR_OPS.index(c) for c in "MDN=X"]), ln, 0) for op, ln in zip(sp["ops"], sp["lens"])],
                             z3.IntVal(0))
                conj += [TI(row["start"]) == sp["pos"], TI(row["stop"]) == sp["pos"] + reflen, TI(row["score"]) == sp["mapq"]]
                if len(row["strand"]) != 1:
                    return False
                conj.append(TI(row["strand"][0]) == z3.If((sp["flag"] / 16) % 2 == 1, 1, 0))   # StrandEncoding codes of '-', '+'
                continue
            if len(row["op"]) != rec["n_cigar"] or len(row["oplen"]) != rec["n_cigar"] or len(row["seq"]) != rec["l_seq"] \
                    or len(row["qual"]) != rec["l_seq"]:
                return False
            conj += [TI(row["flag"]) == sp["flag"], TI(row["pos"]) == sp["pos"], TI(row["mapq"]) == sp["mapq"]]
            conj += [TI(a) == b for a, b in zip(row["op"], sp["ops"])] + [TI(a) == b for a, b in zip(row["oplen"], sp["lens"])]
            conj += [TI(a) == b for a, b in zip(row["seq"], sp["seq"])] + [TI(a) == b for a, b in zip(row["qual"], sp["qual"])]
            # the letters of the specification: 4-bit code k is the k-th character of '=ACMGRSVTWYHKDBN', CIGAR operation k of 'MIDNSHP=X'
            sel_ = lambda table, t: (lambda r_: [r_ := z3.If(t == k_, ord(ch_), r_) for k_, ch_ in enumerate(table)][-1])(z3.IntVal(-1))
            if len(row["seq_text"]) != rec["l_seq"] or len(row["op_text"]) != rec["n_cigar"]:
                return False
            conj += [TI(a) == sel_(SEQ_LETTERS, b) for a, b in zip(row["seq_text"], sp["seq"])]
            conj += [TI(a) == sel_(CIGAR_OPS, b) for a, b in zip(row["op_text"], sp["ops"])]
        return z_and(conj)

    def oracle(self, skel, cx, cout):
        if isinstance(cout, Exc):
            return f"raised {cout}"
        n = len(skel["recs"])
        if len(cout["rows"]) != n:
            return f"{len(cout['rows'])} records decoded from a BAM with {n} records (chunk size {skel['chunk']})"

        class C:
            def __init__(s, v): s.t = v
        for i, rec in enumerate(skel["recs"]):
            sp = self._spec(skel, {k: C(v) for k, v in cx.items()}, i)
            row = cout["rows"][i]
            chrom = None if rec.get("unmapped") else self.REFS[cx[f"r{i}_ref"]][0]
            if (row["chrom"] in [r[0] for r in self.REFS]) != (chrom is not None) or (chrom is not None and row["chrom"] != chrom):
                return f"record {i}: reference name {row['chrom']!r}, specification says {chrom!r} (refID={'-1' if chrom is None else cx[f'r{i}_ref']})"
            if row["name"] != sp["name"]:
                return f"record {i}: read name {row['name']} != {sp['name']}"
            if skel["interval"]:
                reflen = sum(l for o, l in zip(sp["ops"], sp["lens"]) if CIGAR_OPS[o] in REF_CONSUMING)
                exp = dict(start=sp["pos"], stop=sp["pos"] + reflen, score=sp["mapq"], strand=[1 if sp["flag"] & 16 else 0])
                got = {k: row[k] for k in exp}
                if got != exp:
                    return f"record {i}: interval {got}, specification {exp} (cigar {[(CIGAR_OPS[o], l) for o, l in zip(sp['ops'], sp['lens'])]})"
                continue
            exp = dict(flag=sp["flag"], pos=sp["pos"], mapq=sp["mapq"], op=sp["ops"], oplen=sp["lens"], seq=sp["seq"], qual=sp["qual"],
                       seq_text=[ord(SEQ_LETTERS[c]) for c in sp["seq"]], op_text=[ord(CIGAR_OPS[c]) for c in sp["ops"]])
            got = {k: row[k] for k in exp}
            if got != exp:
                return f"record {i} (layout {rec}): decoded {got}, specification {exp}"
        return None


class WriteBack(Harness):
    """records read from a BAM and written back (whole, filtered by a mask, reordered) are the original record bytes"""
    name = "writeback"
    functions = ("NpDataclassReader.read (lazy)", "LazyBNPDataClass.__getitem__/get_buffer", "BamBufferExtractor.__getitem__/_make_contigous",
                 "NpBufferedWriter.write", "BamBuffer.make_header")
    bounds = {"quick": "1-3 records of different sizes; selections: all, every boolean mask (symbolic), reversal, [2,0,0]; "
                       "3 re-orderings of 4 records; 4 histories 'read fields, write the re-ordered selection, read fields again'",
              "thorough": "adds mask followed by slice, 2 successive writes, all 23 re-orderings of 4 records, histories on 3 selections"}

    def skeletons(self, tier, seed):
        R = lambda name_len, n_cigar, l_seq, n_tag: dict(name_len=name_len, n_cigar=n_cigar, l_seq=l_seq, n_tag=n_tag, unmapped=False)
        sets = [[R(1, 0, 0, 0)], [R(2, 1, 1, 0), R(1, 2, 2, 1)], [R(1, 1, 1, 0), R(3, 0, 2, 2), R(2, 2, 3, 0)]]
        out = []
        for recs in sets:
            n = len(recs)
            sels = ["all", "mask", "reverse"] + (["fancy"] if n == 3 else [])
            if tier == "thorough":
                sels += ["mask_then_slice", "two_writes"]
            for sel in sels:
                out.append(dict(recs=recs, n_ref=2, sel=sel))
        # re-orderings of four records (first/last kept or moved), and histories around the write: fields read before and after it
        four = [R(1, 1, 1, 0), R(2, 0, 2, 1), R(1, 2, 1, 0), R(3, 1, 3, 2)]
        perms = [[0, 2, 1, 3], [1, 0, 3, 2], [3, 1, 2, 0]] if tier == "quick" else [list(p) for p in itertools.permutations(range(4))][1:]
        for p in perms:
            out.append(dict(recs=four, n_ref=2, sel="perm", order=p))
        hist = [(["name"], ["sequence"]), (["sequence", "cigar_op"], ["name", "quality"]), ([], ["position", "cigar_length"]),
                (["position"], ["position", "flag", "mapq"])]
        three = sets[2]
        for before, after in hist:
            out.append(dict(recs=three, n_ref=2, sel="perm", order=[2, 0, 1], before=before, after=after))
            if tier == "thorough":
                out.append(dict(recs=four, n_ref=2, sel="perm", order=[0, 2, 1, 3], before=before, after=after))
                out.append(dict(recs=three, n_ref=2, sel="perm", order=[1, 2], before=before, after=after))
        return out

    def inputs(self, skel, V):
        for i, rec in enumerate(skel["recs"]):
            declare_record(V, i, rec, skel["n_ref"])
        if skel["sel"] in ("mask", "mask_then_slice"):
            for i in range(len(skel["recs"])):
                V.int(f"m{i}", 0, 1)

    def call(self, skel, x, ctx):
        from bionumpy.io.parser import NumpyFileReader, NpBufferedWriter
        from bionumpy.io.npdataclassreader import NpDataclassReader
        from bionumpy.io.bam import BamBuffer
        refs = Decode.REFS[:skel["n_ref"]]
        content = header_bytes(refs)
        n = len(skel["recs"])
        for i, rec in enumerate(skel["recs"]):
            content += record_bytes(x, i, rec)
        data = NpDataclassReader(NumpyFileReader(ctx.file(content), BamBuffer)).read()
        out = ctx.wfile()
        w = NpBufferedWriter(out, BamBuffer)
        sel = skel["sel"]
        if sel == "all":
            w.write(data)
        elif sel == "reverse":
            w.write(data[::-1])
        elif sel == "fancy":
            w.write(data[ctx.arr([2, 0, 0], "int64") if ctx.mode == "plain" else [2, 0, 0]])
        elif sel in ("mask", "mask_then_slice"):
            mask = ctx.arr([x[f"m{i}"] for i in range(n)], "int64") == 1
            d = data[mask]
            w.write(d[1:] if sel == "mask_then_slice" else d)
        elif sel == "perm":
            d = data[ctx.arr(skel["order"], "int64") if ctx.mode == "plain" else list(skel["order"])]
            res = dict(n_in=len(data))
            get = lambda f: [ctx.lst(getattr(d, f)[j].raw() if f in ("name", "sequence", "cigar_op") else getattr(d, f)[j])
                             for j in range(len(skel["order"]))]
            res["before"] = {f: get(f) for f in skel.get("before", [])}
            w.write(d)
            res["after"] = {f: get(f) for f in skel.get("after", [])}      # the written table must still read as before the write
            res["bytes"] = ctx.file_bytes(out)
            return res
        else:
            w.write(data[:1]); w.write(data[1:])
        return dict(bytes=ctx.file_bytes(out), n_in=len(data))

    def _expected(self, skel, x, val):
        n = len(skel["recs"])
        recs = []
        for i, rec in enumerate(skel["recs"]):
            recs.append(record_bytes(x, i, rec))
        return header_bytes(Decode.REFS[:skel["n_ref"]]), recs

    def post(self, skel, x, out):
        if isinstance(out, Exc):
            return False
        n = len(skel["recs"])
        head, recs = self._expected(skel, x, None)
        sel = skel["sel"]
        got = out["bytes"]
        if sel in ("mask", "mask_then_slice"):
            # selection is symbolic: the output length is concrete on the path; enumerate masks of matching size
            opts = []
            for bits in itertools.product([0, 1], repeat=n):
                chosen = [i for i in range(n) if bits[i]]
                if sel == "mask_then_slice":
                    chosen = chosen[1:]
                exp = head + [b for i in chosen for b in recs[i]]
                if len(exp) != len(got):
                    continue
                opts.append(z3.And(*[x[f"m{i}"].t == bits[i] for i in range(n)],
                                   *[TI(g) == (e.t if hasattr(e, "t") else e) for g, e in zip(got, exp)]))
            return z_or(opts)
        order = self._order(skel)
        exp = head + [b for i in order for b in recs[i]]
        if len(exp) != len(got):
            return False
        conj = [TI(g) == (e.t if hasattr(e, "t") else e) for g, e in zip(got, exp)]
        for when in ("before", "after"):
            for f, vals in out.get(when, {}).items():
                if len(vals) != len(order):
                    return False
                for j, i in enumerate(order):
                    sp = Decode._spec(None, skel, x, i)[self.FIELD[f]]
                    v = vals[j]
                    if isinstance(sp, list):
                        if not isinstance(v, list) or len(v) != len(sp):
                            return False
                        conj += [TI(a) == b for a, b in zip(v, sp)]
                    else:
                        conj.append(TI(v) == sp)
        return z_and(conj)

    FIELD = dict(name="name", sequence="seq", quality="qual", cigar_op="ops", cigar_length="lens", position="pos", flag="flag", mapq="mapq")

    def _order(self, skel):
        n = len(skel["recs"])
        sel = skel["sel"]
        return skel["order"] if sel == "perm" else dict(all=list(range(n)), reverse=list(range(n))[::-1], fancy=[2, 0, 0],
                                                        two_writes=list(range(n)))[sel]

    def oracle(self, skel, cx, cout):
        if isinstance(cout, Exc):
            return f"raised {cout}"
        n = len(skel["recs"])
        head = header_bytes(Decode.REFS[:skel["n_ref"]])
        recs = [record_bytes(cx, i, rec) for i, rec in enumerate(skel["recs"])]
        sel = skel["sel"]
        if sel in ("mask", "mask_then_slice"):
            order = [i for i in range(n) if cx[f"m{i}"] == 1]
            if sel == "mask_then_slice":
                order = order[1:]
        else:
            order = self._order(skel)

        class C:
            def __init__(s, v): s.t = v
        for when in ("before", "after"):
            for f, vals in cout.get(when, {}).items():
                exp_f = [Decode._spec(None, skel, {k: C(v) for k, v in cx.items()}, i)[self.FIELD[f]] for i in order]
                if vals != exp_f:
                    return (f"records {order} selected from the file; field {f} read {when} writing the selection is {vals}, "
                            f"the records hold {exp_f}")
        exp = head + [b for i in order for b in recs[i]]
        if cout["bytes"] != exp:
            return (f"write-back of records {order} ({sel}): {len(cout['bytes'])} bytes written, expected {len(exp)} "
                    f"(header {len(head)} + records {[len(recs[i]) for i in order]}); first difference at byte "
                    f"{next((k for k, (a, b) in enumerate(zip(cout['bytes'], exp)) if a != b), min(len(exp), len(cout['bytes'])))}")
        return None


HARNESSES = [Decode(), WriteBack()]
