"""C01 -- chunked reading loses, duplicates or reorders no entry, for any chunk size."""
import itertools
import z3
from vlib.harness import Harness, Exc
from vlib.zutil import TI, TB, z_and, z_or
from checks import textfmt as F


def file_bytes(skel, x):
    if skel["fmt"] in F.SEQ_FORMATS:
        return F.seq_content(skel, x)
    return F.content(skel, x)


def buffer_class(skel):
    return F.get_seq_buffer(skel["fmt"]) if skel["fmt"] in F.SEQ_FORMATS else F.get_buffer(skel["fmt"])


def entry_sizes(skel):
    """byte size of each entry (with its line terminators), from the skeleton alone"""
    class C:
        def __getitem__(self, k):
            return 0
    one = lambda sub: len(file_bytes(sub, C()))
    if skel["fmt"] in F.SEQ_FORMATS:
        return [one(dict(skel, records=[r], no_final_newline=False)) for r in skel["records"]]
    return [one(dict(skel, rows=[r], no_final_newline=False, header=[])) for r in skel["rows"]]


class Chunks(Harness):
    name = "read_chunks"
    functions = ("NumpyFileReader.read_chunk/read_chunks/_get_buffer/__add_newline_to_end", "DelimitedBuffer.from_raw_buffer",
                 "OneLineBuffer.from_raw_buffer/contains_complete_entry", "MultiLineFastaBuffer.from_raw_buffer/contains_complete_entry",
                 "FileBuffer.read_header/contains_complete_entry")
    stubs = ("SymFile stands for the OS file / gzip stream: read(n) returns the next min(n, remaining) bytes; gzip = prepend mode",)
    bounds = {"quick": "BED3, BED6, two-line FASTA, FASTQ, wrapped FASTA (width 2), GTF, SAM with a header line; 1-3 entries with field "
                       "widths from {1,2,3}; EVERY min_chunk_size from 1 to file size + 2 (symbolic, forked by the file stub); seek mode (plain) "
                       "and prepend mode (gzip); final newline or none; LF (CRLF for BED3/FASTQ)",
              "thorough": "up to 4 entries, more width patterns, CRLF for all formats"}

    def skeletons(self, tier, seed):
        out = []
        D = {"bed3": [[[1, 1, 1]], [[2, 1, 1], [1, 1, 2]], [[1, 1, 1], [1, 2, 3], [2, 1, 1]]],
             "bed6": [[[1, 1, 1, 1, 1, 1], [1, 2, 2, 1, 1, 1]]],
             "gtf": [[[1, 1, 1, 1, 1, 1, 1, 1, 2], [1, 1, 1, 1, 1, 1, 1, 1, 1]]],
             "sam": [[[1, 1, 1, 1, 1, 1, 1, 1, 1, 1, 1], [1, 1, 1, 1, 1, 1, 1, 1, 1, 2, 2, 2]],
                     # records with and without optional tags in both orders (the tags column is compared as well)
                     [[1, 1, 1, 1, 1, 1, 1, 1, 1, 1, 1, 2, 1], [1, 1, 1, 1, 1, 1, 1, 1, 1, 1, 2], [1, 1, 1, 1, 1, 1, 1, 1, 1, 1, 1, 1]]]}
        S = {"fasta2": [[[1, 1]], [[1, 2], [2, 1]], [[1, 1], [1, 3], [1, 1]]],
             "fastq": [[[1, 1]], [[1, 2], [2, 1]]],
             "mfasta": [[[1, 3]], [[1, 3], [1, 2]], [[1, 4], [1, 1], [1, 2]],
                        [[1, 2], [1, 5], [1, 1]]]}       # a short record, then one longer than two reads of the first one's size
        # very unequal widths in one column: a number wider than everything before it in the buffer's first line
        D["bed3"].append([[1, 1, 1], [1, 4, 5], [2, 1, 1]])
        # names whose lengths differ but add up to a multiple of the first one's (2 + 3 + 1 = 3 x 2)
        S["fastq"].append([[2, 1], [3, 1], [1, 1], [4, 1]])
        S["fasta2"].append([[2, 1], [3, 1], [1, 1]])
        S["mfasta"].append([[2, 1], [3, 2], [1, 1]])
        if tier == "thorough":
            D["bed3"].append([[1, 1, 1], [3, 1, 1], [1, 1, 1], [1, 2, 2]])
            S["fastq"].append([[1, 1], [1, 3], [2, 2]])
            S["mfasta"].append([[1, 5], [2, 4], [1, 1], [1, 2]])
        for fmt, rowsets in D.items():
            for rows in rowsets:
                for mode in ("seek", "prepend"):
                    for nofinal in (False, True):
                        hdr = ["@HD\tVN:1.0"] if fmt == "sam" else (["#comment"] if fmt == "gtf" else [])
                        out.append(dict(fmt=fmt, rows=rows, mode=mode, no_final_newline=nofinal, crlf=False, header=hdr))
                    if fmt in ("bed3", "sam") or tier == "thorough":
                        out.append(dict(fmt=fmt, rows=rows, mode=mode, no_final_newline=False, crlf=True, header=[]))
                    if fmt == "sam":
                        # CRLF without a final newline, the unterminated last record with and without tags
                        out.append(dict(fmt=fmt, rows=rows, mode=mode, no_final_newline=True, crlf=True, header=[]))
                        out.append(dict(fmt=fmt, rows=rows[::-1], mode=mode, no_final_newline=True, crlf=True, header=[]))
        out.append(dict(fmt="bed3", rows=[[1, 1, 1], [1, 2, 3], [2, 1, 1]], mode="seek", no_final_newline=False, crlf=False, header=[], join_lazy=True))
        out.append(dict(fmt="bed3", rows=[[1, 1, 1], [3, 1, 1], [1, 1, 1], [1, 2, 2]], mode="prepend", no_final_newline=True, crlf=False, header=[], join_lazy=True))
        for mode in ("seek", "prepend"):
            out.append(dict(fmt="bed3", rows=[[1, 1, 1], [1, 2, 3], [2, 1, 1]], mode=mode, no_final_newline=False, crlf=False, header=[], then_read=True))
            out.append(dict(fmt="fastq", records=[[1, 2], [2, 1], [1, 1]], mode=mode, no_final_newline=True, crlf=False, width=2, then_read=True))
        # the user-level reader (NpDataclassReader.read_chunks) on wrapped FASTA whose records have one or several sequence lines
        for recs in ([[1, 3], [1, 2], [1, 4]], [[1, 2], [1, 1]], [[1, 1]]):
            for mode in ("seek", "prepend"):
                out.append(dict(fmt="mfasta", records=recs, mode=mode, no_final_newline=False, crlf=False, width=2, via="npdataclass"))
        out.append(dict(fmt="fastq", records=[[1, 1], [1, 2]], mode="seek", no_final_newline=False, crlf=False, width=2, via="npdataclass"))
        out.append(dict(fmt="bed3", rows=[[1, 1, 1], [1, 2, 2]], mode="seek", no_final_newline=False, crlf=False, header=[], via="npdataclass"))
        for fmt, recsets in S.items():
            for recs in recsets:
                for mode in ("seek", "prepend"):
                    for nofinal in (False, True):
                        out.append(dict(fmt=fmt, records=recs, mode=mode, no_final_newline=nofinal, crlf=False, width=2))
                    if fmt in ("fastq", "fasta2") or tier == "thorough":
                        out.append(dict(fmt=fmt, records=recs, mode=mode, no_final_newline=False, crlf=True, width=2))
                        if len(recs) > 1:
                            out.append(dict(fmt=fmt, records=recs, mode=mode, no_final_newline=True, crlf=True, width=2))
        return out

    def inputs(self, skel, V):
        if skel["fmt"] in F.SEQ_FORMATS:
            F.declare_seq(V, skel)
        else:
            F.declare_cells(V, skel)

        class C:
            def __getitem__(self, k):
                return 0
        size = len(file_bytes(skel, C()))
        V.int("k", 1, size + 2)

    def call(self, skel, x, ctx):
        from bionumpy.io.parser import NumpyFileReader
        content = file_bytes(skel, x)
        reader = NumpyFileReader(ctx.file(content), buffer_class(skel))
        if skel["mode"] == "prepend":
            reader.set_prepend_mode()
        n = len(skel.get("records", skel.get("rows")))
        if skel.get("via") == "npdataclass":
            # the chunks as the user-level reader delivers them (parsed tables; the stream ends at the first table without entries)
            from bionumpy.io.npdataclassreader import NpDataclassReader
            parsed = list(itertools.islice(NpDataclassReader(reader, lazy=False).read_chunks(x["k"]), n + 3))
            res = dict(data=None, counts=[len(d) for d in parsed])
        elif skel.get("then_read"):
            # history: one chunk is read, then the REST of the file with read(): together they are the file
            first = reader.read_chunk(x["k"])
            rest = reader.read()
            chunks = [c for c in (first, rest) if c is not None]
            parsed = [c.get_data() for c in chunks]
            res = dict(data=[ctx.lst(c.data.raw()) for c in chunks], counts=[len(d) for d in parsed])
        else:
            chunks = list(itertools.islice(reader.read_chunks(x["k"]), n + 3))    # a reader that stops making progress shows as extra chunks
            parsed = [c.get_data() for c in chunks]
            res = dict(data=[ctx.lst(c.data.raw()) for c in chunks], counts=[len(d) for d in parsed],
                       counted=[int(c.count_entries()) for c in chunks])      # what bnp.count_entries sums up
        # parsed content, concatenated over the chunks
        if skel["fmt"] in F.SEQ_FORMATS:
            res["name"] = [r for d in parsed for r in ctx.lst(d.name.raw())]
            res["seq"] = [r for d in parsed for r in ctx.lst(d.sequence)]
            if skel["fmt"] == "fastq":
                res["qual"] = [r for d in parsed for r in ctx.lst(d.quality)]
        else:
            cols = F.FORMATS[skel["fmt"]]["cols"]
            res["cols"] = {nm: [r for d in parsed for r in (ctx.lst(getattr(d, nm).raw()) if kind == "id" else ctx.lst(getattr(d, nm)))]
                           for nm, kind in cols if kind in ("id", "int", "str")}
            rest = F.FORMATS[skel["fmt"]].get("rest")
            if rest:
                res["cols"]["__rest__"] = [r for d in parsed for r in ctx.lst(getattr(d, rest))]
            if skel.get("join_lazy"):
                # the lazily read chunks of the same file, joined with np.concatenate without being parsed first
                from bionumpy.io.npdataclassreader import NpDataclassReader
                r2 = NumpyFileReader(ctx.file(content), buffer_class(skel))
                if skel["mode"] == "prepend":
                    r2.set_prepend_mode()
                lazy_chunks = list(itertools.islice(NpDataclassReader(r2, lazy=True).read_chunks(x["k"]), n + 3))
                joined = ctx.np.concatenate(lazy_chunks) if len(lazy_chunks) > 1 else lazy_chunks[0]
                res["joined"] = {nm: (ctx.lst(getattr(joined, nm).raw()) if kind == "id" else ctx.lst(getattr(joined, nm)))
                                 for nm, kind in cols if kind in ("id", "int", "str")}
        return res

    def _expected(self, skel, x):
        content = file_bytes(skel, x)
        nl = [13, 10] if skel.get("crlf") else [10]
        hdr = sum((list(h.encode()) + nl for h in skel.get("header", [])), [])
        body = content[len(hdr):]
        if skel.get("no_final_newline"):
            body = body + [10]
        return body

    def post(self, skel, x, out):
        if isinstance(out, Exc):
            # a chunk size too small to hold one entry may raise; otherwise the read must complete
            big = max(entry_sizes(skel))
            return x["k"].t < big
        n = len(skel.get("records", skel.get("rows")))
        exp = self._expected(skel, x)
        if out["data"] is None:
            if sum(out["counts"]) != n or any(c == 0 for c in out["counts"]):
                return False
            conj = []
        else:
            flat = [b for d in out["data"] for b in d]
            if sum(out["counts"]) != n or len(flat) != len(exp) or any(c == 0 for c in out["counts"]):
                return False
            if "counted" in out and out["counted"] != out["counts"]:
                return False                     # count_entries of a chunk is the number of entries the chunk parses to
            conj = [TI(g) == (e.t if hasattr(e, "t") else e) for g, e in zip(flat, exp)]
        pe = self._parsed_expected(skel, lambda nm: x[nm].t, z3=True)
        for key, rows in list(pe.items()) + ([("joined:" + k, v) for k, v in pe.items()] if "joined" in out else []):
            got = out["joined"][key[7:]] if key.startswith("joined:") else (out[key] if key in out else out["cols"][key])
            if len(got) != len(rows):
                return False
            for g, e in zip(got, rows):
                if isinstance(e, list):
                    if len(g) != len(e):
                        return False
                    conj += [TI(a) == b for a, b in zip(g, e)]
                else:
                    conj.append(TI(g) == e)
        return z_and(conj)

    def _parsed_expected(self, skel, g, z3=False):
        from vlib.zutil import digits_value
        exp = {}
        if skel["fmt"] in F.SEQ_FORMATS:
            exp["name"] = [[g(f"qn{r}_{j}") for j in range(nl)] for r, (nl, sl) in enumerate(skel["records"])]
            exp["seq"] = [[g(f"qs{r}_{j}") for j in range(sl)] for r, (nl, sl) in enumerate(skel["records"])]
            if skel["fmt"] == "fastq":
                exp["qual"] = [[g(f"qq{r}_{j}") - 33 for j in range(sl)] for r, (nl, sl) in enumerate(skel["records"])]
            return exp
        for c, (nm, kind) in enumerate(F.FORMATS[skel["fmt"]]["cols"]):
            if kind in ("id", "str"):
                exp[nm] = [[g(f"c{r}_{c}_{j}") for j in range(w[c])] for r, w in enumerate(skel["rows"])]
            elif kind == "int":
                exp[nm] = [(digits_value([g(f"c{r}_{c}_{j}") for j in range(w[c])], signed=False) if z3 else
                            int(bytes(g(f"c{r}_{c}_{j}") for j in range(w[c])))) for r, w in enumerate(skel["rows"])]
        if F.FORMATS[skel["fmt"]].get("rest"):
            # the rest of the line (SAM optional tags): the remaining cells joined by TAB, empty when there are none
            nc = len(F.FORMATS[skel["fmt"]]["cols"])
            exp["__rest__"] = [[t for k, c in enumerate(range(nc, len(w))) for t in (([9] if k else []) + [g(f"c{r}_{c}_{j}") for j in range(w[c])])]
                               for r, w in enumerate(skel["rows"])]
        return exp

    def oracle(self, skel, cx, cout):
        k = cx["k"]
        text = bytes(file_bytes(skel, cx))
        if isinstance(cout, Exc):
            big = max(entry_sizes(skel))
            return None if k < big else f"read_chunks({k}) raised {cout} although the largest entry has {big} bytes; file {text!r}"
        n = len(skel.get("records", skel.get("rows")))
        exp = self._expected(skel, cx)
        flat = [b for d in cout["data"] for b in d] if cout["data"] is not None else exp
        if sum(cout["counts"]) != n or flat != exp:
            return (f"{skel['fmt']} file {text!r} read with min_chunk_size={k} ({skel['mode']} mode): chunks hold {cout['counts']} entries "
                    f"(file has {n}); concatenated chunk bytes {bytes(flat)!r}, expected {bytes(exp)!r}")
        if "counted" in cout and cout["counted"] != cout["counts"]:
            return (f"{skel['fmt']} file {text!r} read with min_chunk_size={k} ({skel['mode']} mode): count_entries() of the chunks = {cout['counted']}, "
                    f"the chunks hold {cout['counts']} entries")
        pe = self._parsed_expected(skel, lambda nm: cx[nm])
        for key, rows in pe.items():
            got = cout[key] if key in cout else cout["cols"][key]
            if got != rows:
                return (f"{skel['fmt']} file {text!r} read with min_chunk_size={k} ({skel['mode']} mode): column {key} over all chunks = {got}, "
                        f"reading the whole file gives {rows}")
            if "joined" in cout and cout["joined"][key] != rows:
                return (f"{skel['fmt']} file {text!r} read lazily with min_chunk_size={k} ({skel['mode']} mode), chunks joined with np.concatenate: "
                        f"column {key} = {cout['joined'][key]}, reading the whole file gives {rows}")
        return None


HARNESSES = [Chunks()]
