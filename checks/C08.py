"""C08 -- interval-set operations equal their per-base definitions."""
import itertools
import z3
from vlib.harness import Harness, Exc
from vlib.zutil import TI, TB, z_and, z_or


def mk_intervals(ctx, starts, stops, chrom="c", strands=None):
    from bionumpy.datatypes import Interval, Bed6
    n = len(starts)
    if strands is None:
        return Interval([chrom] * n if isinstance(chrom, str) else list(chrom), ctx.arr(starts, "int64"), ctx.arr(stops, "int64"))
    from bionumpy.encodings import StrandEncoding
    from bionumpy.encoded_array import EncodedArray
    return Bed6([chrom] * n, ctx.arr(starts, "int64"), ctx.arr(stops, "int64"), ["."] * n, [0] * n,
                EncodedArray(ctx.arr(strands, "uint8"), StrandEncoding))


def declare(V, n, prefix="", size=None, sorted_starts=False, disjoint=False):
    """n intervals 0 <= start < stop (<= size)"""
    st = [V.int(f"{prefix}s{i}", 0, size if isinstance(size, int) else None) for i in range(n)]
    en = [V.int(f"{prefix}e{i}", 0, size if isinstance(size, int) else None) for i in range(n)]
    for i in range(n):
        V.assume(en[i].t > st[i].t)
        if size is not None:
            V.assume(en[i].t <= (size if isinstance(size, int) else size.t))
        if i and sorted_starts:
            V.assume(st[i].t >= st[i - 1].t)
        if i and disjoint:
            V.assume(st[i].t >= en[i - 1].t)
    return st, en


def cov(st, en, p):
    return [z3.And(TI(s) <= p, p < TI(e)) for s, e in zip(st, en)]


def getse(x, n, prefix=""):
    return [x[f"{prefix}s{i}"] for i in range(n)], [x[f"{prefix}e{i}"] for i in range(n)]


# -------------------------------------------------------------------------------------------------
class Merge(Harness):
    name = "merge_intervals"
    functions = ("bionumpy.arithmetics.intervals.merge_intervals",)
    bounds = {"quick": "0-3 intervals sorted by start, unbounded integer coordinates, merge distance d >= 0 symbolic (and d = 0)",
              "thorough": "0-4 intervals"}
    assumptions = ("merge_intervals precondition: intervals sorted on start (documented/asserted)",)

    def skeletons(self, tier, seed):
        ns = [0, 1, 2, 3] if tier == "quick" else [0, 1, 2, 3, 4]
        return [dict(n=n, dist=d) for n in ns for d in ("zero", "sym")]

    def inputs(self, skel, V):
        declare(V, skel["n"], sorted_starts=True)
        if skel["dist"] == "sym":
            V.int("d", 0, None)

    def call(self, skel, x, ctx):
        from bionumpy.arithmetics.intervals import merge_intervals
        n = skel["n"]
        st, en = getse(x, n)
        iv = mk_intervals(ctx, st, en)
        d = x["d"] if skel["dist"] == "sym" else 0
        out = merge_intervals(iv, d) if skel["dist"] == "sym" else merge_intervals(iv)
        return dict(start=ctx.lst(out.start), stop=ctx.lst(out.stop), arg_start=ctx.lst(iv.start), arg_stop=ctx.lst(iv.stop))

    def post(self, skel, x, out):
        if isinstance(out, Exc):
            return False
        n = skel["n"]
        st, en = getse(x, n)
        d = x["d"].t if skel["dist"] == "sym" else z3.IntVal(0)
        ms, me = out["start"], out["stop"]
        k = len(ms)
        if n == 0:
            return k == 0
        if k == 0 or len(me) != k:
            return False
        # reference: scan in start order; a new run starts when start_i > running max stop + d
        run_max = en[0].t
        rank = [z3.IntVal(0)]
        for i in range(1, n):
            b = st[i].t > run_max + d
            rank.append(rank[-1] + z3.If(b, 1, 0))
            run_max = z3.If(en[i].t > run_max, en[i].t, run_max)
        conj = [rank[-1] == k - 1]
        for j in range(k):
            # start of run j = min start with rank j ; stop = max stop with rank j
            for i in range(n):
                conj.append(z3.Implies(rank[i] == j, z3.And(TI(ms[j]) <= st[i].t, TI(me[j]) >= en[i].t)))
            conj.append(z3.Or(*[z3.And(rank[i] == j, TI(ms[j]) == st[i].t) for i in range(n)]))
            conj.append(z3.Or(*[z3.And(rank[i] == j, TI(me[j]) == en[i].t) for i in range(n)]))
        # argument unchanged
        conj += [TI(a) == s.t for a, s in zip(out["arg_start"], st)]
        conj += [TI(a) == e.t for a, e in zip(out["arg_stop"], en)]
        return z3.And(*conj)

    def oracle(self, skel, cx, cout):
        if isinstance(cout, Exc):
            return f"raised {cout}"
        n = skel["n"]
        iv = [(cx[f"s{i}"], cx[f"e{i}"]) for i in range(n)]
        d = cx.get("d", 0)
        exp = []
        for s, e in iv:
            if exp and s <= exp[-1][1] + d:
                exp[-1][1] = max(exp[-1][1], e)
            else:
                exp.append([s, e])
        got = [list(t) for t in zip(cout["start"], cout["stop"])]
        if got != exp:
            return f"merge_intervals({iv}, distance={d}) = {got}, expected {exp}"
        if cout["arg_start"] != [s for s, _ in iv] or cout["arg_stop"] != [e for _, e in iv]:
            return f"merge_intervals modified its argument: {iv} -> {list(zip(cout['arg_start'], cout['arg_stop']))}"
        return None


class Dense(Harness):
    """get_boolean_mask / get_pileup expanded to dense arrays on a contig of concrete size"""
    name = "mask_pileup"
    functions = ("get_boolean_mask", "get_pileup", "merge_intervals", "GenomicRunLengthArray.from_intervals/to_array",
                 "npstructures.RunLengthArray / RunLength2dArray")
    bounds = {"quick": "contig size S in 1..5, 0-2 intervals in arbitrary order (S=4: 3 intervals); every start/stop value",
              "thorough": "S in 1..7, 0-3 intervals (3 intervals up to S=6)"}

    def skeletons(self, tier, seed):
        out = []
        for which in ("mask", "pileup", "bedgraph_pileup"):
            if which == "bedgraph_pileup":     # arithmetics.bedgraph.get_pileup (sort + cumsum + de-duplication of coinciding endpoints)
                out += [dict(which=which, S=S, n=n) for S, n in ([(3, 1), (4, 2), (5, 2)] if tier == "quick" else [(4, 2), (5, 2), (6, 3), (5, 3)])]
                continue
            if tier == "quick":
                combos = [(S, n) for S in (1, 2, 3, 5) for n in (0, 1, 2)] + [(4, 3)]
            else:
                combos = [(S, n) for S in range(1, 8) for n in (0, 1, 2, 3) if not (S == 7 and n == 3)]   # (7, 3) exceeds 20 000 paths
            out += [dict(which=which, S=S, n=n) for S, n in combos]
        return out

    def inputs(self, skel, V):
        declare(V, skel["n"], size=skel["S"])

    def call(self, skel, x, ctx):
        from bionumpy.arithmetics.intervals import get_boolean_mask, get_pileup
        n = skel["n"]
        st, en = getse(x, n)
        iv = mk_intervals(ctx, st, en)
        if skel["which"] == "bedgraph_pileup":
            from bionumpy.arithmetics.bedgraph import get_pileup as bedgraph_pileup
            m = bedgraph_pileup(iv, skel["S"])
            return dict(dense=ctx.lst(m.to_array()), n=len(m), arg=[ctx.lst(iv.start), ctx.lst(iv.stop)])
        m = get_boolean_mask(iv, skel["S"]) if skel["which"] == "mask" else get_pileup(iv, skel["S"])
        return dict(dense=ctx.lst(m.to_array()), n=len(m), arg=[ctx.lst(iv.start), ctx.lst(iv.stop)])

    def post(self, skel, x, out):
        if isinstance(out, Exc):
            return False
        S, n = skel["S"], skel["n"]
        st, en = getse(x, n)
        if len(out["dense"]) != S or out["n"] != S:
            return False
        conj = []
        for p in range(S):
            c = cov(st, en, p)
            if skel["which"] == "mask":
                conj.append(TB(out["dense"][p]) == z_or(c))
            else:
                conj.append(TI(out["dense"][p]) == sum([z3.If(ci, 1, 0) for ci in c], z3.IntVal(0)))
        conj += [TI(a) == s.t for a, s in zip(out["arg"][0], st)] + [TI(a) == e.t for a, e in zip(out["arg"][1], en)]
        return z3.And(*conj)

    def oracle(self, skel, cx, cout):
        if isinstance(cout, Exc):
            return f"raised {cout}"
        S, n = skel["S"], skel["n"]
        iv = [(cx[f"s{i}"], cx[f"e{i}"]) for i in range(n)]
        counts = [sum(1 for s, e in iv if s <= p < e) for p in range(S)]
        exp = [c > 0 for c in counts] if skel["which"] == "mask" else counts
        got = [bool(v) for v in cout["dense"]] if skel["which"] == "mask" else [int(v) for v in cout["dense"]]
        if got != exp:
            return f"{skel['which']}({iv}, size={S}) = {got}, expected {exp}"
        if cout["arg"] != [[s for s, _ in iv], [e for _, e in iv]]:
            return "argument modified"
        return None


class Sort(Harness):
    name = "sort_intervals"
    functions = ("sort_intervals (python-sorted branch and StringEncoding/lexsort branch)",)
    bounds = {"quick": "1-3 intervals on chromosomes drawn from 2 names (all assignments), symbolic unbounded coordinates, both branches",
              "thorough": "1-4 intervals, 3 names"}

    def skeletons(self, tier, seed):
        out = []
        nmax, names = (3, 2) if tier == "quick" else (4, 3)
        for n in range(1, nmax + 1):
            for chroms in itertools.product(range(names), repeat=n):
                if chroms[0] != 0 and n > 1:
                    pass
                for branch in ("python", "lexsort"):
                    out.append(dict(n=n, chroms=list(chroms), branch=branch))
        return out

    NAMES = ["chr1", "chr10", "chr2"]

    def inputs(self, skel, V):
        declare(V, skel["n"])

    def call(self, skel, x, ctx):
        from bionumpy.arithmetics.intervals import sort_intervals
        from bionumpy.datatypes import Interval
        n = skel["n"]
        st, en = getse(x, n)
        names = [self.NAMES[c] for c in skel["chroms"]]
        if skel["branch"] == "lexsort":
            from bionumpy.encodings.string_encodings import StringEncoding
            from bionumpy.encoded_array import EncodedArray
            enc = StringEncoding(self.NAMES)
            chrom = EncodedArray(ctx.arr(list(skel["chroms"]), "int64"), enc)
            iv = Interval(chrom, ctx.arr(st, "int64"), ctx.arr(en, "int64"))
            out = sort_intervals(iv)
            return dict(chrom=ctx.lst(out.chromosome.raw()), start=ctx.lst(out.start), stop=ctx.lst(out.stop))
        iv = Interval(names, ctx.arr(st, "int64"), ctx.arr(en, "int64"))
        out = sort_intervals(iv, sort_order=self.NAMES)
        return dict(chrom=[self.NAMES.index(c) for c in out.chromosome.tolist()], start=ctx.lst(out.start), stop=ctx.lst(out.stop))

    def post(self, skel, x, out):
        if isinstance(out, Exc):
            return False
        n = skel["n"]
        st, en = getse(x, n)
        if len(out["start"]) != n or len(out["stop"]) != n or len(out["chrom"]) != n:
            return False
        rows_in = [(skel["chroms"][i], st[i].t, en[i].t) for i in range(n)]
        rows_out = [(out["chrom"][j], TI(out["start"][j]), TI(out["stop"][j])) for j in range(n)]
        # permutation: some bijection maps outputs to inputs
        perms = []
        for perm in itertools.permutations(range(n)):
            if all(rows_out[j][0] == rows_in[perm[j]][0] for j in range(n)):
                perms.append(z3.And(*[z3.And(rows_out[j][1] == rows_in[perm[j]][1], rows_out[j][2] == rows_in[perm[j]][2])
                                      for j in range(n)]))
        conj = [z_or(perms)]
        by_stop = skel["branch"] == "python"   # the lexsort branch orders by (chromosome, start) only
        for j in range(n - 1):
            a, b = rows_out[j], rows_out[j + 1]
            if a[0] > b[0]:
                return False
            if a[0] == b[0]:
                conj.append(z3.Or(a[1] < b[1], z3.And(a[1] == b[1], a[2] <= b[2]) if by_stop else a[1] == b[1]))
        return z3.And(*conj)

    def oracle(self, skel, cx, cout):
        if isinstance(cout, Exc):
            return f"raised {cout}"
        n = skel["n"]
        rows = [(skel["chroms"][i], cx[f"s{i}"], cx[f"e{i}"]) for i in range(n)]
        got = list(zip(cout["chrom"], cout["start"], cout["stop"]))
        if sorted(got) != sorted(rows):
            return f"sort_intervals({rows}) = {got}: not a permutation"
        key = (lambda r: r) if skel["branch"] == "python" else (lambda r: r[:2])
        if [key(r) for r in got] != sorted(key(r) for r in got):
            return f"sort_intervals({rows}) = {got}: not ordered by chromosome, start{', stop' if skel['branch']=='python' else ''}"
        return None


class ExtendClip(Harness):
    name = "extend_clip"
    functions = ("extend_to_size", "clip")
    bounds = {"quick": "1-3 stranded intervals, symbolic unbounded coordinates, fragment length and contig size",
              "thorough": "1-4"}

    def skeletons(self, tier, seed):
        ns = [1, 2, 3] if tier == "quick" else [1, 2, 3, 4]
        return [dict(n=n, op=op) for n in ns for op in ("extend", "clip")]

    def inputs(self, skel, V):
        n = skel["n"]
        S = V.int("S", 1, None)
        if skel["op"] == "extend":
            declare(V, n, size=S)
            V.int("L", 1, None)
            for i in range(n):
                V.int(f"strand{i}", 0, 1)       # codes of '+', '-'
        else:
            for i in range(n):                  # clip: arbitrary (also out-of-contig) coordinates
                s = V.int(f"s{i}"); e = V.int(f"e{i}")
                V.assume(e.t > s.t)
                V.assume(e.t > 0)
                V.assume(s.t < S.t)

    def call(self, skel, x, ctx):
        from bionumpy.arithmetics.intervals import extend_to_size, clip
        n = skel["n"]
        st, en = getse(x, n)
        if skel["op"] == "extend":
            iv = mk_intervals(ctx, st, en, strands=[x[f"strand{i}"] for i in range(n)])
            out = extend_to_size(iv, x["L"], x["S"])
        else:
            iv = mk_intervals(ctx, st, en)
            out = clip(iv, x["S"])
        return dict(start=ctx.lst(out.start), stop=ctx.lst(out.stop), arg=[ctx.lst(iv.start), ctx.lst(iv.stop)])

    def post(self, skel, x, out):
        if isinstance(out, Exc):
            return False
        n = skel["n"]
        st, en = getse(x, n)
        S = x["S"].t
        conj = []
        for i in range(n):
            os_, oe = TI(out["start"][i]), TI(out["stop"][i])
            conj += [os_ >= 0, oe <= S, os_ <= oe]
            if skel["op"] == "extend":
                L = x["L"].t
                fwd = x[f"strand{i}"].t == 0
                conj.append(z3.If(fwd, z3.And(os_ == st[i].t, oe == z3.If(st[i].t + L < S, st[i].t + L, S)),
                                  z3.And(oe == en[i].t, os_ == z3.If(en[i].t - L > 0, en[i].t - L, 0))))
            else:
                conj.append(os_ == z3.If(st[i].t > 0, st[i].t, 0))
                conj.append(oe == z3.If(en[i].t < S, en[i].t, S))
        conj += [TI(a) == s.t for a, s in zip(out["arg"][0], st)] + [TI(a) == e.t for a, e in zip(out["arg"][1], en)]
        return z3.And(*conj)

    def oracle(self, skel, cx, cout):
        if isinstance(cout, Exc):
            return f"raised {cout}"
        n, S = skel["n"], cx["S"]
        for i in range(n):
            s, e = cx[f"s{i}"], cx[f"e{i}"]
            if skel["op"] == "extend":
                L = cx["L"]
                exp = (s, min(s + L, S)) if cx[f"strand{i}"] == 0 else (max(e - L, 0), e)
            else:
                exp = (max(s, 0), min(e, S))
            got = (cout["start"][i], cout["stop"][i])
            if got != exp:
                return f"{skel['op']} interval {i} ({s},{e}) size={S}: got {got}, expected {exp}"
        if cout["arg"] != [[cx[f"s{i}"] for i in range(n)], [cx[f"e{i}"] for i in range(n)]]:
            return "argument modified"
        return None


class Binary(Harness):
    """operations on two interval sets (each sorted and non-overlapping) on a contig of concrete size"""
    name = "binary_sets"
    functions = ("count_overlap", "intersect", "unique_intersect", "similarity_measures.get_contingency_table (Jaccard/Forbes counts)")
    bounds = {"quick": "contig size 2..4; set a: 1-2 intervals, set b: 1-2 intervals, each set sorted and disjoint; all coordinates",
              "thorough": "contig size 2..6; up to 3 x 2 intervals"}
    assumptions = ("count_overlap / intersect: each input set is sorted and internally non-overlapping (contingency: sorted by start only)",
                   "Jaccard/Forbes: the four contingency counts are decided; the final float ratio a*N/((a+b)(a+c)) resp. a/(N-d) is not encoded")

    def skeletons(self, tier, seed):
        out = []
        if tier == "quick":
            combos = [(2, 1, 1), (3, 1, 2), (3, 2, 1), (4, 2, 2)]
        else:
            combos = [(S, na, nb) for S in (2, 3, 4, 5, 6) for na in (1, 2, 3) for nb in (1, 2) if na + nb <= S + 1]
        for op in ("count_overlap", "intersect", "unique_intersect", "contingency"):
            for S, na, nb in combos:
                out.append(dict(op=op, S=S, na=na, nb=nb))
        return out

    def inputs(self, skel, V):
        # the contingency counts come from masks: overlapping, nested and repeated intervals inside one set are legal there (sorted by start)
        dj = skel["op"] != "contingency"
        declare(V, skel["na"], "a", size=skel["S"], sorted_starts=True, disjoint=dj)
        declare(V, skel["nb"], "b", size=skel["S"], sorted_starts=True, disjoint=dj)

    def call(self, skel, x, ctx):
        from bionumpy.arithmetics import intervals as I
        sa, ea = getse(x, skel["na"], "a")
        sb, eb = getse(x, skel["nb"], "b")
        a, b = mk_intervals(ctx, sa, ea), mk_intervals(ctx, sb, eb)
        op = skel["op"]
        if op == "count_overlap":
            return dict(v=ctx.lst(I.count_overlap(a, b)))
        if op == "intersect":
            r = I.intersect(a, b)
            return dict(start=ctx.lst(r.start), stop=ctx.lst(r.stop))
        if op == "unique_intersect":
            r = I.unique_intersect(a, b, skel["S"])
            return dict(start=ctx.lst(r.start), stop=ctx.lst(r.stop))
        from bionumpy.arithmetics.similarity_measures import get_contingency_table
        t = get_contingency_table(a, b, skel["S"])
        return dict(table=ctx.lst(t))

    def _cov(self, skel, x):
        sa, ea = getse(x, skel["na"], "a")
        sb, eb = getse(x, skel["nb"], "b")
        ca = [z_or(cov(sa, ea, p)) for p in range(skel["S"])]
        cb = [z_or(cov(sb, eb, p)) for p in range(skel["S"])]
        return sa, ea, sb, eb, ca, cb

    def post(self, skel, x, out):
        if isinstance(out, Exc):
            return False
        S = skel["S"]
        sa, ea, sb, eb, ca, cb = self._cov(skel, x)
        cnt = lambda bs: sum([z3.If(b, 1, 0) for b in bs], z3.IntVal(0))
        op = skel["op"]
        if op == "count_overlap":
            return TI(out["v"]) == cnt([z3.And(a, b) for a, b in zip(ca, cb)])
        if op == "contingency":
            t = out["table"]
            return z3.And(TI(t[0][0]) == cnt([z3.And(a, b) for a, b in zip(ca, cb)]),
                          TI(t[0][1]) == cnt([z3.And(a, z3.Not(b)) for a, b in zip(ca, cb)]),
                          TI(t[1][0]) == cnt([z3.And(z3.Not(a), b) for a, b in zip(ca, cb)]),
                          TI(t[1][1]) == cnt([z3.And(z3.Not(a), z3.Not(b)) for a, b in zip(ca, cb)]))
        rs, re = out["start"], out["stop"]
        if len(rs) != len(re):
            return False
        if op == "intersect":
            # result intervals are sorted, non-empty, disjoint, and cover exactly the bases covered by both sets
            conj = []
            for j in range(len(rs)):
                conj.append(TI(rs[j]) < TI(re[j]))
                if j:
                    conj.append(TI(rs[j]) >= TI(re[j - 1]))
            for p in range(S):
                conj.append(z_or(cov(rs, re, p)) == z3.And(ca[p], cb[p]))
            return z3.And(*conj)
        # unique_intersect: the entries of a that overlap some base covered by b, in order
        keep = [z_or([z3.And(sa[i].t <= p, p < ea[i].t, cb[p]) for p in range(S)]) for i in range(skel["na"])]
        conj = [cnt(keep) == len(rs)]
        # j-th kept entry
        for j in range(len(rs)):
            opts = []
            for i in range(skel["na"]):
                opts.append(z3.And(keep[i], cnt(keep[:i]) == j, TI(rs[j]) == sa[i].t, TI(re[j]) == ea[i].t))
            conj.append(z_or(opts))
        return z3.And(*conj)

    def oracle(self, skel, cx, cout):
        if isinstance(cout, Exc):
            return f"raised {cout}"
        S = skel["S"]
        a = [(cx[f"as{i}"], cx[f"ae{i}"]) for i in range(skel["na"])]
        b = [(cx[f"bs{i}"], cx[f"be{i}"]) for i in range(skel["nb"])]
        ca = [any(s <= p < e for s, e in a) for p in range(S)]
        cb = [any(s <= p < e for s, e in b) for p in range(S)]
        op = skel["op"]
        if op == "count_overlap":
            exp = sum(1 for p in range(S) if ca[p] and cb[p])
            return None if cout["v"] == exp else f"count_overlap({a},{b}) = {cout['v']}, expected {exp}"
        if op == "contingency":
            exp = [[sum(1 for p in range(S) if ca[p] and cb[p]), sum(1 for p in range(S) if ca[p] and not cb[p])],
                   [sum(1 for p in range(S) if not ca[p] and cb[p]), sum(1 for p in range(S) if not ca[p] and not cb[p])]]
            return None if cout["table"] == exp else f"contingency({a},{b},size={S}) = {cout['table']}, expected {exp}"
        got = list(zip(cout["start"], cout["stop"]))
        if op == "intersect":
            cg = [any(s <= p < e for s, e in got) for p in range(S)]
            ok = cg == [x and y for x, y in zip(ca, cb)] and all(s < e for s, e in got) and \
                all(got[j][0] >= got[j - 1][1] for j in range(1, len(got)))
            return None if ok else f"intersect({a},{b}) = {got}: does not equal the per-base intersection"
        exp = [iv for iv in a if any(cb[p] for p in range(iv[0], iv[1]))]
        return None if got == exp else f"unique_intersect({a},{b},size={S}) = {got}, expected {exp}"


HARNESSES = [Merge(), Dense(), Sort(), ExtendClip(), Binary()]


def prelude(tier):
    """Concrete probes of the Geometry front end of the same operations (reported as real-run probes, not as solver verdicts): Geometry.sort
    on every pair / triple of intervals of a small two-chromosome genome (nested, equal starts, equal stops, across chromosomes) against
    Python's sorted by (chromosome, start), and Geometry.jaccard_all_vs_all on three interval sets against the per-base definition."""
    import time
    import numpy as np
    from bionumpy.genomic_data.geometry import Geometry
    from bionumpy.datatypes import Interval
    t0 = time.time()
    res = dict(obligations=0, discharged=0, queries=0, inconclusive=[], violations=[], samples=[])
    sizes = {"chr1": 5, "chr2": 4}
    geom = Geometry(sizes)
    names = list(sizes)
    ivs = [(c, a, b) for c in names for a in range(0, sizes[c], 1) for b in range(a + 1, sizes[c] + 1) if (a, b) in ((0, 4), (1, 2), (1, 3), (0, 2), (2, 4), (3, 4))]
    n = 0
    for k in (2, 3):
        for combo in itertools.product(ivs, repeat=k):
            n += 1
            try:
                r = geom.sort(Interval([c for c, _, _ in combo], [a for _, a, _ in combo], [b for _, _, b in combo]))
                got = list(zip([c_.to_string() for c_ in r.chromosome], r.start.tolist(), r.stop.tolist()))
            except Exception as e:
                got = ("raised", type(e).__name__)
            ok = isinstance(got, list) and sorted(got) == sorted(combo) and [(names.index(c), a) for c, a, _ in got] == sorted((names.index(c), a) for c, a, _ in combo)
            if not ok and len(res["violations"]) < 3:
                res["violations"].append(dict(obligation="geometry-sort", inputs=dict(intervals=[list(t) for t in combo]), output=repr(got),
                                              why=f"[real run, concrete probe] Geometry({sizes}).sort({list(combo)}) = {got}: not the same intervals ordered by chromosome, start"))
    sets = [[(0, 2)], [(1, 4)], [(3, 5)], [(0, 1), (2, 5)], [(1, 2)]]
    m = 0
    for trio in itertools.permutations(range(len(sets)), 3):
        m += 1
        masks = []
        for i in trio:
            d = np.zeros(5, dtype=bool)
            for a, b in sets[i]:
                d[a:b] = True
            masks.append(d)
        exp = np.zeros((3, 3))
        for i in range(3):
            for j in range(3):
                if i != j:
                    exp[i, j] = (masks[i] & masks[j]).sum() / (masks[i] | masks[j]).sum()
        try:
            got = Geometry({"chr1": 5}).jaccard_all_vs_all([Interval(["chr1"] * len(sets[i]), [a for a, _ in sets[i]], [b for _, b in sets[i]]) for i in trio])
            ok = np.allclose(np.asarray(got, dtype=float), exp)
        except Exception as e:
            got, ok = ("raised", type(e).__name__), False
        if not ok and len(res["violations"]) < 5:
            res["violations"].append(dict(obligation="jaccard-all-vs-all", inputs=dict(sets=[sets[i] for i in trio]), output=repr(got),
                                          why=f"[real run, concrete probe] jaccard_all_vs_all of the sets {[sets[i] for i in trio]} on a contig of size 5 = {np.asarray(got).tolist() if not isinstance(got, tuple) else got}, per-base definition {exp.tolist()}"))
    res["solver_s"] = time.time() - t0
    res["summary"] = f"Geometry.sort probed on {n} interval tuples, jaccard_all_vs_all on {m} triples of sets: {len(res['violations'])} deviations"
    return res
