"""Shared grammar for symbolic text files (used by C01-C05, C15, C20).

A skeleton fixes the record layout (which columns, the width of every cell, line terminator, final newline);
every cell byte is a symbolic variable constrained to the column's character class.  `reference` gives the value
the FORMAT assigns to each cell as z3 terms over those bytes (independent of the library's parsing code)."""
import z3
from vlib.zutil import digits_value, upper

# column kinds -> (lo, hi, extra constraint builder)
ID_LO, ID_HI = 48, 122      # identifier bytes: digits, letters, some punctuation; never TAB/LF/CR/'#'/'>'/'@'


def _id_ok(t):
    return z3.And(t != 62, t != 64, t != 59, t != 61)   # '>', '@', ';', '='


FORMATS = {
    "bed3": dict(buffer=("bionumpy.io.delimited_buffers", "BedBuffer"),
                 cols=[("chromosome", "id"), ("start", "int"), ("stop", "int")]),
    "bed6": dict(buffer=("bionumpy.io.delimited_buffers", "Bed6Buffer"),
                 cols=[("chromosome", "id"), ("start", "int"), ("stop", "int"), ("name", "id"), ("score", "oint"), ("strand", "strand")]),
    "chromsizes": dict(buffer=("bionumpy.io.delimited_buffers", "ChromosomeSizeBuffer"),
                       cols=[("name", "id"), ("size", "int")]),
    "bedgraph": dict(buffer=("bionumpy.io.delimited_buffers", "BdgBuffer"),
                     cols=[("chromosome", "id"), ("start", "int"), ("stop", "int"), ("value", "float")]),
    # wig files holding bedGraph lines (read through the buffer class that tolerates interior comment lines)
    "wig": dict(buffer=("bionumpy.io.wig", "WigBuffer"),
                cols=[("chromosome", "id"), ("start", "int"), ("stop", "int"), ("value", "float")]),
    # SAM: eleven fixed columns, the rest of the line (optional tags, TAB separated) is one field
    "sam": dict(buffer=("bionumpy.io.buffers.sam", "SAMBuffer"), rest="extra",
                cols=[("name", "id"), ("flag", "int"), ("chromosome", "id"), ("position", "int"), ("mapq", "int"), ("cigar", "str"),
                      ("next_chromosome", "str"), ("next_position", "int"), ("length", "int"), ("sequence", "str"), ("quality", "str")]),
    # VCF read with the default entry type (eight fixed columns); FORMAT and the sample columns are further cells of the line that the
    # entry type does not name (they must survive a write-back, modified or not)
    "vcf": dict(buffer=("bionumpy.io.vcf_buffers", "VCFBuffer"), write_offset={"position": 1},
                cols=[("chromosome", "id"), ("position", "int"), ("id", "str"), ("ref_seq", "str"), ("alt_seq", "str"), ("quality", "str"),
                      ("filter", "str"), ("info", "str")]),
    "gtf": dict(buffer=("bionumpy.io.delimited_buffers", "GTFBuffer"),
                cols=[("chromosome", "id"), ("source", "str"), ("feature_type", "id"), ("start", "int"), ("stop", "int"), ("score", "str"),
                      ("strand", "strand"), ("phase", "str"), ("atributes", "str")]),
    "bed12": dict(buffer=("bionumpy.io.delimited_buffers", "Bed12Buffer"),
                  cols=[("chromosome", "id"), ("start", "int"), ("stop", "int"), ("name", "id"), ("score", "oint"), ("strand", "strand"),
                        ("thick_start", "int"), ("thick_end", "int"), ("item_rgb", "str"), ("block_count", "int"),
                        ("block_sizes", "ilist"), ("block_starts", "ilist")]),
    "narrowpeak": dict(buffer=("bionumpy.io.delimited_buffers", "NarrowPeakBuffer"),
                       cols=[("chromosome", "id"), ("start", "int"), ("stop", "int"), ("name", "id"), ("score", "oint"), ("strand", "strand"),
                             ("signal_value", "float"), ("p_value", "float"), ("q_value", "float"), ("summit", "int")]),
    "pairs": dict(buffer=("bionumpy.io.pairs", "PairsBuffer"),
                  cols=[("read_id", "str"), ("chrom1", "id"), ("pos1", "int"), ("chrom2", "id"), ("pos2", "int"), ("strand1", "strand"),
                        ("strand2", "strand")]),
    # GFF3: same nine columns as GTF, comment lines may stand between the records (skel["comments"] = {row index: text})
    "gff": dict(buffer=("bionumpy.io.delimited_buffers", "GFFBuffer"),
                cols=[("chromosome", "id"), ("source", "str"), ("feature_type", "id"), ("start", "int"), ("stop", "int"), ("score", "str"),
                      ("strand", "strand"), ("phase", "str"), ("atributes", "str")]),
}


def get_buffer(fmt):
    import importlib
    mod, name = FORMATS[fmt]["buffer"]
    return getattr(importlib.import_module(mod), name)


def declare_cells(V, skel, prefix="c"):
    """skel["fmt"], skel["rows"] = [[width of each cell] per record], optional skel["signed"] = {(row,col)}"""
    cols = FORMATS[skel["fmt"]]["cols"]
    signed = {tuple(s) for s in skel.get("signed", [])}
    for r, widths in enumerate(skel["rows"]):
        for c, w in enumerate(widths):
            kind = cols[c][1] if c < len(cols) else "str"
            for j in range(w):
                nm = f"{prefix}{r}_{c}_{j}"
                if kind == "id" or kind == "str":
                    v = V.int(nm, ID_LO, ID_HI); V.assume(_id_ok(v.t))
                elif kind == "int":
                    if j == 0 and (r, c) in signed and w > 1:       # a sign needs digits after it: a one-character cell is a digit
                        v = V.int(nm, 43, 57); V.assume(z3.Or(v.t == 45, v.t == 43, v.t >= 48))
                    else:
                        v = V.int(nm, 48, 57)
                elif kind == "oint":
                    if skel.get("score_dots") is True or r in (skel.get("score_dots") or []):
                        v = V.int(nm, 46, 46)                              # the '.' placeholder in every record
                    else:
                        v = V.int(nm, 48, 57)
                elif kind == "strand":
                    v = V.int(nm, 43, 46); V.assume(v.t != 44)
                elif kind == "ilist":
                    # comma separated integers: skel["lists"]["r_c"] = dict(widths=[..], trailing=bool) fixes where the commas are
                    v = V.int(nm, 44, 44) if j in list_commas(skel, r, c) else V.int(nm, 48, 57)
                elif kind == "float":
                    # digits with exactly one '.' at a skeleton-chosen position (skel["dots"][r] or middle)
                    dot = skel.get("dot", {}).get(f"{r}_{c}", w // 2 if w >= 3 else None)
                    lit = skel.get("literal_floats")
                    if lit:                      # concrete text for the float cells (row r holds lit[r]): they pass through Python's float formatting
                        V.literal_singletons = True
                        v = V.int(nm, ord(lit[r][j]), ord(lit[r][j]))
                    elif dot is not None and j == dot:
                        v = V.int(nm, 46, 46)
                    elif j == skel.get("exp", {}).get(f"{r}_{c}", -1):       # scientific notation: the exponent mark at this position
                        v = V.int(nm, 101, 101)
                    else:
                        v = V.int(nm, 48, 57)
                else:
                    raise ValueError(kind)


def list_spec(skel, r, c):
    return skel["lists"][f"{r}_{c}"]


def list_commas(skel, r, c):
    sp = list_spec(skel, r, c)
    pos, k = set(), 0
    for i, w in enumerate(sp["widths"]):
        k += w
        if i < len(sp["widths"]) - 1 or sp.get("trailing"):
            pos.add(k); k += 1
    return pos


def list_width(sp):
    n = len(sp["widths"])
    return sum(sp["widths"]) + (n - 1 if n else 0) + (1 if sp.get("trailing") and n else 0)


def list_elements(sp, items):
    """split the cell's items (terms or ints) into the elements' digit lists"""
    out, k = [], 0
    for w in sp["widths"]:
        out.append(items[k:k + w]); k += w + 1
    return out


def cell(x, r, c, w, prefix="c"):
    return [x[f"{prefix}{r}_{c}_{j}"] for j in range(w)]


def content(skel, x, prefix="c"):
    """file bytes: cells joined by TAB, records ended by LF or CRLF; optional header lines"""
    nl = [13, 10] if skel.get("crlf") else [10]
    out = []
    for h in skel.get("header", []):
        out += list(h.encode()) + nl
    n = len(skel["rows"])
    for r, widths in enumerate(skel["rows"]):
        if str(r) in skel.get("comments", {}):
            out += list(skel["comments"][str(r)].encode()) + nl          # a comment line standing before record r
        for c, w in enumerate(widths):
            out += cell(x, r, c, w, prefix)
            out += [9] if c < len(widths) - 1 else []
        if r < n - 1 or not skel.get("no_final_newline"):
            out += nl
    return out


def ref_int(chars, signed):
    return digits_value(chars, signed=signed)


def ref_value(kind, cellvars, signed=False, dot=None):
    """z3 value of one cell per the format (list of byte terms for text kinds)"""
    ts = [v.t for v in cellvars]
    if kind in ("id", "str"):
        return ts
    if kind == "int":
        return ref_int(ts, signed)
    if kind == "oint":
        if len(ts) == 1:
            return z3.If(ts[0] == 46, 0, ts[0] - 48)       # '.' placeholder reads as the missing value 0
        return ref_int(ts, False)
    if kind == "strand":
        return z3.If(ts[0] == 43, 0, z3.If(ts[0] == 45, 1, 2))      # StrandEncoding code of + - . (one character)
    if kind == "ilist":
        return [ref_int(e, False) for e in list_elements(dot, ts)]      # `dot` carries the list spec for this kind
    if kind == "float":
        w = len(ts)
        if dot is None:
            return z3.ToReal(ref_int(ts, False))
        ip = ref_int(ts[:dot], False) if dot > 0 else z3.IntVal(0)
        fp = ref_int(ts[dot + 1:], False) if dot < w - 1 else z3.IntVal(0)
        return z3.ToReal(ip) + z3.ToReal(fp) / (10 ** (w - 1 - dot))
    raise ValueError(kind)


def py_value(kind, vals, signed=False, dot=None):
    s = bytes(vals).decode("latin1")
    if kind in ("id", "str"):
        return list(vals)
    if kind == "int":
        return int(s)
    if kind == "oint":
        return 0 if s == "." else int(s)
    if kind == "strand":
        return "+-.".index(s)
    if kind == "ilist":
        return [int(bytes(e).decode()) for e in list_elements(dot, list(vals))]
    if kind == "float":
        return float(s)
    raise ValueError(kind)


# ------------------------------------------------------------------------------------------------
# sequence formats: two-line FASTA, FASTQ, wrapped (multi-line) FASTA
SEQ_FORMATS = {
    "fasta2": ("bionumpy.io.one_line_buffer", "TwoLineFastaBuffer"),
    "fastq": ("bionumpy.io.fastq_buffer", "FastQBuffer"),
    "mfasta": ("bionumpy.io.multiline_buffer", "MultiLineFastaBuffer"),
}


def get_seq_buffer(fmt):
    import importlib
    mod, name = SEQ_FORMATS[fmt]
    return getattr(importlib.import_module(mod), name)


def declare_seq(V, skel, prefix="q"):
    """skel["records"] = [[name_len, seq_len], ...]; fastq: quality has seq_len bytes"""
    for r, (nl, sl) in enumerate(skel["records"]):
        for j in range(nl):
            v = V.int(f"{prefix}n{r}_{j}", ID_LO, ID_HI); V.assume(_id_ok(v.t))
        for j in range(sl):
            V.int(f"{prefix}s{r}_{j}", 65, 122)
        if skel["fmt"] == "fastq":
            for j in range(sl):
                V.int(f"{prefix}q{r}_{j}", 33, 126)


def seq_content(skel, x, prefix="q"):
    nl = [13, 10] if skel.get("crlf") else [10]
    out = []
    n = len(skel["records"])
    width = skel.get("width")
    for r, (nlen, sl) in enumerate(skel["records"]):
        last = r == n - 1 and skel.get("no_final_newline")
        name = [x[f"{prefix}n{r}_{j}"] for j in range(nlen)]
        seq = [x[f"{prefix}s{r}_{j}"] for j in range(sl)]
        out += [ord("@" if skel["fmt"] == "fastq" else ">")] + name + nl
        if skel["fmt"] == "mfasta":
            for k in range(0, sl, width):
                out += seq[k:k + width]
                if not (last and k + width >= sl):
                    out += nl
            continue
        out += seq
        if skel["fmt"] == "fasta2":
            out += [] if last else nl
            continue
        out += nl + [ord("+")] + (name if skel.get("plus_name") else []) + nl
        out += [x[f"{prefix}q{r}_{j}"] for j in range(sl)]
        out += [] if last else nl
    return out
