"""C07 -- encoded arrays behave like NumPy arrays of characters."""
import itertools
import z3
from vlib.harness import Harness, Exc
from vlib.zutil import TI, TB, z_and, z_or

ALPH = {"ascii": None, "ACGTnEncoding": "ACGTN", "ACGTEncoding": "ACGT"}


def enc_of(kind):
    from bionumpy.encoded_array import BaseEncoding
    import bionumpy.encodings.alphabet_encoding as ae
    return BaseEncoding if kind == "ascii" else getattr(ae, kind)


def letter(kind, ch):
    return ord(ch) if kind == "ascii" else ALPH[kind].index(ch)


# ---- programs on ragged arrays: each op has a library side (on the EncodedRaggedArray) and a model side (list of rows of terms)
def _rows(model):
    return [list(r) for r in model]


OPS = {
    "rows_tail": (lambda a, c: a[1:], lambda m, c: m[1:]),
    "rows_rev": (lambda a, c: a[::-1], lambda m, c: m[::-1]),
    "rows_step": (lambda a, c: a[::2], lambda m, c: m[::2]),
    "rows_list": (lambda a, c: a[[len(a) - 1, 0]], lambda m, c: [m[len(m) - 1], m[0]]),
    "rows_neg": (lambda a, c: a[-2:], lambda m, c: m[-2:]),
    "rows_empty": (lambda a, c: a[1:1], lambda m, c: m[1:1]),
    "cols_tail": (lambda a, c: a[:, 1:], lambda m, c: [r[1:] for r in m]),
    "cols_rev": (lambda a, c: a[:, ::-1], lambda m, c: [r[::-1] for r in m]),
    "cols_head": (lambda a, c: a[:, :2], lambda m, c: [r[:2] for r in m]),
    "cols_neg": (lambda a, c: a[:, :-1], lambda m, c: [r[:-1] for r in m]),
    "copy": (lambda a, c: a.copy(), lambda m, c: _rows(m)),
    "concat_self": (lambda a, c: c.np.concatenate([a, a[:1]]), lambda m, c: m + m[:1]),
}


NEED_ROWS = ("rows_list", "ROWSET_ASCII", "ROWSET_SAME", "ROW_GET")
CELL_OPS = ("CELLSET", "CELLSET_STR")          # a[row, 0] = one character (an encoded scalar / the Python string 'C')


def _may_write_operand(prog):
    """an in-place operation that is not preceded by a copy may write to the operand the program started from"""
    writes = [i for i, op in enumerate(prog) if op in ("ASSIGN", "ROWSET_ASCII", "ROWSET_SAME", "TWIN_ASSIGN") + CELL_OPS]
    return bool(writes) and "copy" not in prog[:writes[0]]


def op_rows_mask(a, c, bits):
    return a[c.ctx.arr(bits[:len(a)], "int64") == 1]


class Ragged(Harness):
    name = "ragged_ops"
    functions = ("EncodedRaggedArray.__getitem__/__setitem__/__array_ufunc__/copy/ravel/raw", "RaggedArray indexing (npstructures)",
                 "OneToOneEncoding.decode", "string_array", "EncodedArray.__array_function__ (concatenate)")
    bounds = {"quick": "encodings ASCII and ACGTN; row patterns [3,0,1,4], [2,2], [1], [0,0,2]; sequences of 1-3 operations from "
                       "{row slices (+/-, step, reversal, empty), integer list, symbolic row mask, column slices (+/-, reversal), copy, "
                       "concatenate, comparison with a symbolic character, masked item assignment, assignment on a copy}; results are only "
                       "normalised at the end, through ravel(), through encoding.decode() and through string_array()",
              "thorough": "all operation pairs and more triples, ACGT encoding too"}

    PROGS = [["rows_tail"], ["rows_rev"], ["rows_step"], ["rows_list"], ["rows_neg"], ["rows_empty"], ["cols_tail"], ["cols_rev"], ["cols_head"],
             ["cols_neg"], ["copy"], ["concat_self"], ["MASK"], ["EQ"], ["ASSIGN"],
             ["rows_tail", "cols_rev"], ["rows_rev", "cols_tail"], ["rows_list", "rows_rev"], ["cols_tail", "rows_step"], ["rows_rev", "copy"],
             ["MASK", "cols_rev"], ["rows_tail", "EQ"], ["cols_rev", "EQ"], ["rows_rev", "COPY_ASSIGN"], ["rows_list", "COPY_ASSIGN"],
             ["rows_tail", "concat_self"], ["rows_rev", "cols_tail", "copy"], ["cols_head", "rows_rev", "EQ"], ["MASK", "rows_rev", "cols_neg"],
             ["rows_step", "ASSIGN"],
             ["ROWSET_ASCII"], ["ROWSET_SAME"], ["ROWSET_ASCII", "rows_rev"], ["rows_tail", "ROWSET_ASCII"], ["ROWSET_ASCII", "EQ"],
             ["rows_empty", "copy"], ["rows_empty", "cols_tail"], ["rows_tail", "rows_empty"],
             ["ROW_GET"], ["rows_tail", "ROW_GET"], ["rows_rev", "copy", "ROW_GET"], ["cols_tail", "ROW_GET"], ["rows_list", "ROW_GET"],
             ["concat_self", "ROW_GET"],
             ["CELLSET"], ["CELLSET_STR"], ["rows_rev", "copy", "CELLSET_STR"], ["CELLSET", "cols_rev"], ["CELLSET_STR", "EQ"],
             # one element a[row, col] of a selection; a mask computed on a SECOND, equal selection of the same parent used on the first
             ["CELL_GET"], ["cols_rev", "CELL_GET"], ["cols_tail", "CELL_GET"], ["rows_rev", "CELL_GET"], ["cols_rev", "copy", "CELL_GET"],
             ["rows_tail", "TWIN_GET"], ["cols_tail", "TWIN_GET"], ["rows_step", "TWIN_GET"], ["rows_tail", "copy", "TWIN_GET"],
             ["rows_tail", "TWIN_ASSIGN"], ["cols_tail", "TWIN_ASSIGN"], ["rows_rev", "TWIN_ASSIGN"], ["rows_tail", "copy", "TWIN_ASSIGN"]]

    def skeletons(self, tier, seed):
        out = []
        shapes = [[3, 0, 1, 4], [2, 2], [1], [0, 0, 2]]
        kinds = ["ascii", "ACGTnEncoding"] + (["ACGTEncoding"] if tier == "thorough" else [])
        progs = list(self.PROGS)
        if tier == "thorough":
            singles = [p[0] for p in self.PROGS if len(p) == 1]
            progs += [[a, b] for a in singles for b in singles if [a, b] not in progs and a not in ("ASSIGN", "EQ", "ROW_GET")]
        for kind in kinds:
            for lens in shapes:
                for p in progs:
                    if tier == "quick" and lens != [3, 0, 1, 4] and len(p) > 1:
                        continue
                    for view in (["ravel", "decode", "string_array"] if "EQ" not in p else ["ravel"]):
                        if ("ROW_GET" in p or "CELL_GET" in p or "TWIN_GET" in p) and view == "string_array":
                            continue
                        if tier == "quick" and view != "ravel" and (kind == "ascii" or lens != [3, 0, 1, 4]):
                            continue
                        out.append(dict(kind=kind, lens=lens, prog=p, view=view))
        return out

    def inputs(self, skel, V):
        kind = skel["kind"]
        lo, hi = (65, 90) if kind == "ascii" else (0, len(ALPH[kind]) - 1)
        for i in range(sum(skel["lens"])):
            V.int(f"l{i}", lo, hi)
        V.int("ch", lo, hi)          # character compared / assigned
        V.int("ch2", lo, hi)
        for i in range(len(skel["lens"]) + 1):
            V.int(f"m{i}", 0, 1)
        for j in range(max(skel["lens"])):
            V.int(f"a{j}", lo, hi)      # letters of an assigned row (in the operand's alphabet)

    def call(self, skel, x, ctx):
        from bionumpy.encoded_array import EncodedArray, EncodedRaggedArray, as_encoded_array
        from bionumpy.string_array import string_array
        enc = enc_of(skel["kind"])
        n = sum(skel["lens"])

        class C:
            pass
        c = C(); c.ctx = ctx; c.np = ctx.np
        a = EncodedRaggedArray(EncodedArray(ctx.arr([x[f"l{i}"] for i in range(n)], "uint8"), enc), list(skel["lens"]))
        src = a
        ch = EncodedArray(ctx.arr([x["ch"]], "uint8"), enc)[0]
        ch2 = EncodedArray(ctx.arr([x["ch2"]], "uint8"), enc)[0]
        log = []
        result_kind = "rows"
        prev, last = None, None
        for op in skel["prog"]:
            if op in NEED_ROWS and len(a) == 0:
                break                              # nothing to index in a selection without rows: the program ends here
            if op in OPS:
                prev, last = a, op
            if op == "CELL_GET":
                r = next((i for i, L in enumerate(a.lengths) if int(L) > 1), None)       # the first row with a second letter
                if r is None:
                    break
                a = a[r, 1]
                result_kind = "cell"
                break
            if op == "TWIN_GET":
                twin = OPS[last][0](prev, c)
                mask = (twin == ch)
                log.append([bool(b) for row in ctx.lst(mask) for b in row])
                a = a[mask]                        # the letters equal to ch, as one flat array
                result_kind = "cell"
                break
            if op == "TWIN_ASSIGN":
                twin = OPS[last][0](prev, c)       # the same selection made a second time: an equal table, another object
                a[twin == ch] = ch2
                continue
            if op == "MASK":
                bits = [x[f"m{i}"] for i in range(len(a))]
                a = a[ctx.arr(bits, "int64") == 1]
                log.append([bool(b == 1) for b in bits])
            elif op == "EQ":
                a = (a == ch)
                result_kind = "bool"
            elif op == "ASSIGN":
                a[a == ch] = ch2
            elif op == "ROW_GET":
                a = a[len(a) - 1]                 # a single row (an EncodedArray)
                result_kind = "row"
            elif op in ("ROWSET_ASCII", "ROWSET_SAME"):
                # a[0] = value of the same length, given as an encoded array in ASCII / in the operand's own encoding
                L = int(a.lengths[0])
                codes = ctx.arr([x[f"a{j}"] for j in range(L)], "int64")
                if op == "ROWSET_ASCII" and skel["kind"] != "ascii":
                    from bionumpy.encoded_array import BaseEncoding
                    table = ctx.arr([ord(ch_) for ch_ in ALPH[skel["kind"]]], "uint8")
                    value = EncodedArray(table[codes], BaseEncoding)
                else:
                    value = EncodedArray(codes.astype("uint8"), enc if op == "ROWSET_SAME" else enc_of("ascii"))
                a[0] = value
            elif op in CELL_OPS:
                r = next((i for i, L in enumerate(a.lengths) if int(L) > 0), None)      # the first row that has a first letter
                if r is None:
                    break
                a[r, 0] = ch2 if op == "CELLSET" else "C"
            elif op == "COPY_ASSIGN":
                cp = a.copy()
                cp[cp == ch] = ch2
                log.append(("copy", ctx.lst(cp)))
            else:
                a = OPS[op][0](a, c)
        if result_kind == "bool":
            return dict(kind="bool", rows=ctx.lst(a), log=log, src=ctx.lst(src))
        assert a.encoding == enc, "encoding of the result differs from the operand's"
        if result_kind == "cell":
            return dict(kind="rows", rows=[ctx.lst(a.raw().reshape(-1)) if skel["view"] == "ravel" else ctx.lst(enc.decode(a).raw().reshape(-1))], log=log, src=ctx.lst(src))
        if result_kind == "row":
            row = ctx.lst(a) if skel["view"] == "ravel" else (ctx.lst(enc.decode(a)) if skel["view"] == "decode" else None)
            return dict(kind="rows", rows=[row], log=log, src=ctx.lst(src))
        if len(a) == 0:
            log.append(("tolist", list(a.tolist())))       # a selection without rows is the empty list of strings
        if skel["view"] == "ravel":
            rows = ctx.lst(a)
        elif skel["view"] == "decode":
            rows = ctx.lst(enc.decode(a))
        else:
            rows = ctx.lst(string_array(a).raw())
        return dict(kind="rows", rows=rows, log=log, src=ctx.lst(src))

    def _model(self, skel, g, log, I):
        """run the program on the list-of-rows model; g(name) gives a symbol; I(c, a, b) is if-then-else"""
        rows, k = [], 0
        for L in skel["lens"]:
            rows.append([g(f"l{k + j}") for j in range(L)]); k += L
        src = _rows(rows)
        log = list(log)
        extra = {}
        ch, ch2 = g("ch"), g("ch2")
        for op in skel["prog"]:
            if op in NEED_ROWS and len(rows) == 0:
                break
            if op == "MASK":
                bits = log.pop(0)
                rows = [r for r, b in zip(rows, bits) if b]
            elif op == "EQ":
                rows = [[("eq", t, ch) for t in r] for r in rows]
            elif op == "ASSIGN":
                rows = [[I(t, ch, ch2) for t in r] for r in rows]
                # item assignment on a selection of a ragged array does not write through to the source rows in general;
                # the model only tracks the object it was applied to
            elif op == "CELL_GET":
                r = next((i for i, row in enumerate(rows) if len(row) > 1), None)
                if r is None:
                    break
                rows = [[rows[r][1]]]
                break
            elif op == "TWIN_GET":
                bits = log.pop(0)
                rows = [[t for t, b in zip([t for r in rows for t in r], bits) if b]]
                break
            elif op == "TWIN_ASSIGN":
                rows = [[I(t, ch, ch2) for t in r] for r in rows]
            elif op == "ROW_GET":
                rows = [rows[len(rows) - 1]]
            elif op in ("ROWSET_ASCII", "ROWSET_SAME"):
                rows = [[g(f"a{j}") for j in range(len(rows[0]))]] + rows[1:]
            elif op in CELL_OPS:
                r = next((i for i, row in enumerate(rows) if len(row) > 0), None)
                if r is None:
                    break
                letter = ch2 if op == "CELLSET" else (ord("C") if skel["kind"] == "ascii" else ALPH[skel["kind"]].upper().index("C"))
                rows = [([letter] + list(row[1:])) if i == r else row for i, row in enumerate(rows)]
            elif op == "COPY_ASSIGN":
                extra["copy"] = [[I(t, ch, ch2) for t in r] for r in rows]
                log.pop(0)
            else:
                rows = OPS[op][1](rows, None)
        return rows, src, extra

    def _decode(self, skel, t, z):
        """model of the final view: ravel -> raw codes; decode/string_array -> ASCII text"""
        if skel["view"] == "ravel" or skel["kind"] == "ascii":
            return t
        alpha = ALPH[skel["kind"]]
        if not z:
            return ord(alpha[t])
        r = z3.IntVal(-1)
        for i, a in enumerate(alpha):
            r = z3.If(t == i, ord(a), r)
        return r

    def post(self, skel, x, out):
        if isinstance(out, Exc):
            return False
        rows, src, extra = self._model(skel, lambda nm: x[nm].t, out["log"], lambda t, a, b: z3.If(t == a, b, t))
        got = out["rows"]
        if len(got) != len(rows):
            return False
        conj = []
        for gr, er in zip(got, rows):
            from vlib.harness import SStr
            if isinstance(gr, SStr) and len(gr) > len(er):
                conj += [TI(t) == 0 for t in gr[len(er):]]
                gr = gr[:len(er)]
            if len(gr) != len(er):
                return False
            for gv, e in zip(gr, er):
                if out["kind"] == "bool":
                    conj.append(TB(gv) == (e[1] == e[2]))
                else:
                    conj.append(TI(gv) == self._decode(skel, e, True))
        # the operand the program started from is unchanged unless ASSIGN was applied to it directly (first op)
        for entry in out["log"]:
            if isinstance(entry, (list, tuple)) and len(entry) == 2 and entry[0] == "tolist" and list(entry[1]) != []:
                return False
        if not _may_write_operand(skel["prog"]):
            if [len(r) for r in out["src"]] != [len(r) for r in src]:
                return False
            conj += [TI(a) == b for ra, rb in zip(out["src"], src) for a, b in zip(ra, rb)]
        for entry in out["log"]:
            if isinstance(entry, (list, tuple)) and len(entry) == 2 and entry[0] == "copy":
                cp = entry[1]
                if [len(r) for r in cp] != [len(r) for r in extra["copy"]]:
                    return False
                conj += [TI(a) == b for ra, rb in zip(cp, extra["copy"]) for a, b in zip(ra, rb)]
        return z_and(conj)

    def oracle(self, skel, cx, cout):
        if isinstance(cout, Exc):
            return f"raised {cout}"
        rows, src, extra = self._model(skel, lambda nm: cx[nm], cout["log"], lambda t, a, b: b if t == a else t)
        if cout["kind"] == "bool":
            exp = [[e[1] == e[2] for e in r] for r in rows]
            got = [[bool(v) for v in r] for r in cout["rows"]]
        else:
            exp = [[self._decode(skel, e, False) for e in r] for r in rows]
            got = cout["rows"]
        desc = f"rows {src} ({skel['kind']}), program {skel['prog']} (choices {cout['log']}), view {skel['view']}, ch={cx['ch']}, ch2={cx['ch2']}"
        if got != exp:
            return f"{desc}: result {got}, the same operations on the list of strings give {exp}"
        if not _may_write_operand(skel["prog"]) and cout["src"] != src:
            return f"{desc}: the operand changed to {cout['src']}"
        for entry in cout["log"]:
            if isinstance(entry, (list, tuple)) and len(entry) == 2 and entry[0] == "tolist" and list(entry[1]) != []:
                return f"{desc}: tolist() of the result, which has no rows, is {entry[1]!r}, expected []"
        for entry in cout["log"]:
            if isinstance(entry, (list, tuple)) and len(entry) == 2 and entry[0] == "copy" and entry[1] != extra["copy"]:
                return f"{desc}: assignment on a copy gives {entry[1]}, expected {extra['copy']}"
        return None


class Flat(Harness):
    name = "flat_ops"
    functions = ("EncodedArray.__getitem__/__setitem__/__array_ufunc__/__array_function__/copy/ravel", "strops.split/join/str_equal")
    bounds = {"quick": "flat encoded arrays of length 0-4 (ASCII, ACGTN): integer (+/-), slice, reversal, symbolic mask and symbolic integer-list "
                       "indexing, comparison with a symbolic character and with an array, item assignment, concatenate, copy; split on a "
                       "symbolic-content text with separators at skeleton positions, join, str_equal",
              "thorough": "length up to 6"}

    def skeletons(self, tier, seed):
        out = []
        ns = (0, 1, 3, 4) if tier == "quick" else (0, 1, 2, 3, 4, 6)
        for kind in ("ascii", "ACGTnEncoding"):
            for n in ns:
                for op in ("idx_last", "slice_mid", "rev", "mask", "ilist", "eq_char", "eq_array", "assign_idx", "assign_mask", "concat", "copy",
                           "assign_idx_str", "assign_mask_str", "assign_slice_str",      # *_str: the assigned value is a Python str (documented)
                           "where", "append", "insert", "argsort", "lexsort", "zeros_like",       # NumPy array functions forwarded by __array_function__
                           "string_edit_string",        # history: converted to text, edited in place, converted again
                           "mask_pylist",                # the mask as a plain Python list of bools
                           "assign_via_rev", "assign_via_step"):     # assignment through a reversed / strided slice reaches the array it was taken from
                    if n == 0 and op in ("idx_last", "ilist", "assign_idx", "assign_idx_str", "insert", "string_edit_string", "assign_via_rev", "assign_via_step"):
                        continue
                    if op == "string_edit_string" and kind != "ascii":      # characters are compared as byte values
                        continue
                    out.append(dict(kind=kind, n=n, op=op))
        # operands in different encodings: the alphabet-encoded array combined with an ASCII array holding letters of the alphabet
        # (the result must be the text of both in the first operand's encoding, or a loud EncodingException -- never mixed raw codes)
        for op in ("concat_mixed", "concat_mixed_rev", "where_mixed", "append_mixed"):
            out.append(dict(kind="ACGTnEncoding", n=3, op=op))
        # history across arrays: an array built from a literal is edited in place, then the same literal is encoded / compared again
        # (alphabet encodings only: an ASCII array built from a str literal is a read-only buffer view and refuses assignment)
        out.append(dict(kind="ACGTnEncoding", n=4, op="literal_history"))
        for pattern in (["ab", "c"], ["a", "", "bc"], ["", "a"], ["abc"]) + ((["a", "b", "c", ""], ["", ""]) if tier == "thorough" else ()):
            for op in ("split", "join", "str_equal"):
                out.append(dict(kind="ascii", n=sum(len(p) for p in pattern), op=op, pattern=pattern))
        return out

    def inputs(self, skel, V):
        kind = skel["kind"]
        lo, hi = (65, 90) if kind == "ascii" else (0, len(ALPH[kind]) - 1)
        for i in range(skel["n"]):
            V.int(f"l{i}", lo, hi)
        V.int("ch", lo, hi); V.int("ch2", lo, hi)
        for i in range(max(skel["n"], 1)):
            V.int(f"m{i}", 0, 1)
            V.int(f"o{i}", lo, hi)
        V.int("i0", -max(skel["n"], 1), max(skel["n"] - 1, 0)); V.int("i1", -max(skel["n"], 1), max(skel["n"] - 1, 0))

    def call(self, skel, x, ctx):
        from bionumpy.encoded_array import EncodedArray, EncodedRaggedArray
        from bionumpy.io import strops
        enc = enc_of(skel["kind"])
        n, op = skel["n"], skel["op"]
        e = EncodedArray(ctx.arr([x[f"l{i}"] for i in range(n)], "uint8"), enc)
        src = e
        ch = EncodedArray(ctx.arr([x["ch"]], "uint8"), enc)[0]
        ch2 = EncodedArray(ctx.arr([x["ch2"]], "uint8"), enc)[0]
        log = None
        if op in ("split", "join", "str_equal"):
            pat = skel["pattern"]
            k = 0
            if op == "split":
                buf = []
                for pi, p in enumerate(pat):
                    buf += [x[f"l{k + j}"] for j in range(len(p))] + ([44] if pi < len(pat) - 1 else [])
                    k += len(p)
                r = strops.split(EncodedArray(ctx.arr(buf, "uint8"), enc), ",")
                return dict(kind="rows", v=ctx.lst(r))
            era = EncodedRaggedArray(e, [len(p) for p in pat])
            if op == "join":
                return dict(kind="flat", v=ctx.lst(strops.join(era, ",").raw()))
            other = EncodedRaggedArray(EncodedArray(ctx.arr([x[f"o{i}"] for i in range(n)], "uint8"), enc), [len(p) for p in pat])
            return dict(kind="flat", v=ctx.lst(strops.str_equal(era, other)))
        if op.endswith("_mixed") or op == "concat_mixed_rev":
            from bionumpy.encoded_array import BaseEncoding
            asc = [ord(c) for c in ALPH[skel["kind"]]]
            if ctx.mode == "plain":
                ob = [asc[x[f"o{i}"]] for i in range(n)]
            else:
                from symnp.core import S_select
                ob = [S_select(asc, x[f"o{i}"]) for i in range(n)]
            o = EncodedArray(ctx.arr(ob, "uint8"), BaseEncoding)
            if op == "concat_mixed":
                r = ctx.np.concatenate([e, o])
            elif op == "concat_mixed_rev":
                r = ctx.np.concatenate([o, e])
            elif op == "where_mixed":
                r = ctx.np.where(ctx.arr([x[f"m{i}"] for i in range(n)], "int64") == 1, e, o)
            else:
                r = ctx.np.append(e, o)
            return dict(kind="flat", v=ctx.lst(r.raw()), enc="ascii" if r.encoding == BaseEncoding else ("same" if r.encoding == enc else "other"),
                        src=ctx.lst(src.raw()))
        if op == "literal_history":
            from bionumpy.encoded_array import as_encoded_array
            a = as_encoded_array("ACGT", enc)
            a[ctx.arr([x[f"m{i}"] for i in range(4)], "int64") == 1] = ch2
            b = as_encoded_array("ACGT", enc)
            same = (b == "ACGT")
            return dict(kind="flat", v=ctx.lst(a.raw()) + ctx.lst(b.raw()) + [bool(v) for v in ctx.lst(same)])
        if op == "idx_last":
            r = e[-1]
            return dict(kind="scalar", v=ctx.lst(r.raw()), src=ctx.lst(src.raw()))
        if op == "slice_mid":
            r = e[1:-1]
        elif op == "rev":
            r = e[::-1]
        elif op == "mask":
            bits = [x[f"m{i}"] for i in range(n)]
            r = e[ctx.arr(bits, "int64") == 1]
            log = [bool(b == 1) for b in bits]
        elif op == "ilist":
            r = e[ctx.arr([x["i0"], x["i1"]], "int64")]
        elif op == "mask_pylist":
            log = [bool(x[f"m{i}"] == 1) for i in range(n)]
            r = e[list(log)]
        elif op in ("assign_via_rev", "assign_via_step"):
            r = e.copy()
            view = r[::-1] if op == "assign_via_rev" else r[::2]
            view[0 if op == "assign_via_rev" else -1] = ch2
        elif op == "eq_char":
            return dict(kind="flat", v=ctx.lst(e == ch), src=ctx.lst(src.raw()))
        elif op == "eq_array":
            o = EncodedArray(ctx.arr([x[f"o{i}"] for i in range(n)], "uint8"), enc)
            return dict(kind="flat", v=ctx.lst(e == o), src=ctx.lst(src.raw()))
        elif op == "assign_idx":
            r = e.copy()
            r[x["i0"]] = ch2
        elif op == "assign_mask":
            r = e.copy()
            r[r == ch] = ch2
        elif op == "string_edit_string":
            r = e.copy()
            before = r.to_string()
            r[x["i0"]] = ch2
            after = r.to_string()
            codes = lambda t: list(t.sym) if hasattr(t, "sym") else [ord(c_) for c_ in t]
            return dict(kind="flat", v=codes(before) + codes(after), src=ctx.lst(src.raw()))
        elif op == "assign_idx_str":
            r = e.copy()
            r[x["i0"]] = "G"
        elif op == "assign_mask_str":
            r = e.copy()
            r[r == ch] = "G"
        elif op == "assign_slice_str":
            r = e.copy()
            r[1:3] = "GT"[:len(range(n)[1:3])]
        elif op == "concat":
            r = ctx.np.concatenate([e, e[::-1]])
        elif op in ("where", "append"):
            o = EncodedArray(ctx.arr([x[f"o{i}"] for i in range(n)], "uint8"), enc)
            r = ctx.np.where(ctx.arr([x[f"m{i}"] for i in range(n)], "int64") == 1, e, o) if op == "where" else ctx.np.append(e, o)
        elif op == "insert":
            r = ctx.np.insert(e, 1, EncodedArray(ctx.arr([x["ch2"]], "uint8"), enc))
        elif op in ("argsort", "lexsort"):
            p_ = ctx.np.argsort(e) if op == "argsort" else ctx.np.lexsort((e,))
            return dict(kind="perm", v=[int(v) for v in ctx.lst(p_)], src=ctx.lst(src.raw()))
        elif op == "zeros_like":
            r = ctx.np.zeros_like(e)
        elif op == "copy":
            r = e.copy()
        assert r.encoding == enc
        return dict(kind="flat", v=ctx.lst(r.raw()), log=log, src=ctx.lst(src.raw()))

    def _model(self, skel, g, out, I, IDX):
        n, op = skel["n"], skel["op"]
        s = [g(f"l{i}") for i in range(n)]
        ch, ch2 = g("ch"), g("ch2")
        if op in ("split", "join", "str_equal"):
            pat = skel["pattern"]
            rows, k = [], 0
            for p in pat:
                rows.append(s[k:k + len(p)]); k += len(p)
            if op == "split":
                return rows
            if op == "join":
                return [t for i, r in enumerate(rows) for t in (r + ([44] if i < len(rows) - 1 else []))]
            o = [g(f"o{i}") for i in range(n)]
            orow, k = [], 0
            for p in pat:
                orow.append(o[k:k + len(p)]); k += len(p)
            return [("alleq", a, b) for a, b in zip(rows, orow)]
        if op == "idx_last":
            return s[-1]
        if op == "slice_mid":
            return s[1:-1]
        if op == "rev":
            return s[::-1]
        if op in ("mask", "mask_pylist"):
            return [t for t, b in zip(s, out["log"]) if b]
        if op == "assign_via_rev":
            return s[:-1] + [ch2]
        if op == "assign_via_step":
            k = 2 * ((n - 1) // 2)
            return s[:k] + [ch2] + s[k + 1:]
        if op == "ilist":
            return [IDX(s, g("i0")), IDX(s, g("i1"))]
        if op == "eq_char":
            return [("eq", t, ch) for t in s]
        if op == "eq_array":
            return [("eq", t, g(f"o{i}")) for i, t in enumerate(s)]
        if op == "assign_idx":
            return [("assign_at", i, t) for i, t in enumerate(s)]
        if op == "string_edit_string":      # the text before the edit, then the text after it (characters as byte values)
            return list(s) + [("assign_at", i, t, ch2) for i, t in enumerate(s)]
        if op == "assign_mask":
            return [I(t, ch, ch2) for t in s]
        if op == "assign_idx_str":
            return [("assign_at", i, t, letter(skel["kind"], "G")) for i, t in enumerate(s)]
        if op == "assign_mask_str":
            return [I(t, ch, letter(skel["kind"], "G")) for t in s]
        if op == "assign_slice_str":
            return [letter(skel["kind"], "GT"[i - 1]) if 1 <= i < 3 else t for i, t in enumerate(s)]
        if op == "concat":
            return s + s[::-1]
        if op == "where":
            return [I(g(f"m{i}"), 1, t, g(f"o{i}")) if False else ("ite", g(f"m{i}"), t, g(f"o{i}")) for i, t in enumerate(s)]
        if op == "append":
            return s + [g(f"o{i}") for i in range(n)]
        if op == "insert":
            return s[:1] + [ch2] + s[1:]
        if op == "zeros_like":
            return [0] * n
        return list(s)

    def _mixed_expect(self, skel, g, sel):
        """codes (first operand alphabet-encoded) or ASCII bytes (first operand ASCII) of the expected text"""
        n, op = skel["n"], skel["op"]
        s = [g(f"l{i}") for i in range(n)]
        o = [g(f"o{i}") for i in range(n)]
        asc = [ord(c) for c in ALPH[skel["kind"]]]
        if op == "concat_mixed_rev":
            return "ascii", [sel(asc, t) for t in o] + [sel(asc, t) for t in s]
        if op == "where_mixed":
            return "same", [("ite", g(f"m{i}"), s[i], o[i]) for i in range(n)]
        return "same", s + o

    def post(self, skel, x, out):
        if skel["op"].endswith("_mixed") or skel["op"] == "concat_mixed_rev":
            if isinstance(out, Exc):
                return out.type in ("EncodingException", "EncodingError")
            def sel(tab, t):
                r = z3.IntVal(-1)
                for i, v in enumerate(tab):
                    r = z3.If(t == i, v, r)
                return r
            enc, exp = self._mixed_expect(skel, lambda nm: x[nm].t, sel)
            if out["enc"] != enc or len(out["v"]) != len(exp):
                return False
            return z_and([TI(g) == (z3.If(e[1] == 1, e[2], e[3]) if isinstance(e, tuple) else e) for g, e in zip(out["v"], exp)] +
                         [TI(v) == x[f"l{i}"].t for i, v in enumerate(out["src"])])
        if isinstance(out, Exc):
            return False
        n = skel["n"]
        if skel["op"] == "literal_history":
            lit = [letter(skel["kind"], c) for c in "ACGT"]
            v = out["v"]
            if len(v) != 12 or v[8:] != [True] * 4:
                return False
            return z_and([TI(v[i]) == z3.If(x[f"m{i}"].t == 1, x["ch2"].t, lit[i]) for i in range(4)] + [TI(v[4 + i]) == lit[i] for i in range(4)])

        def IDX(s, i):
            t = z3.IntVal(-1)
            for k in range(len(s)):
                t = z3.If(z3.Or(i == k, i == k - len(s)), s[k], t)
            return t
        if skel["op"] in ("argsort", "lexsort"):
            p_ = out["v"]
            if sorted(p_) != list(range(n)):
                return False
            L = [x[f"l{i}"].t for i in range(n)]
            conj = [TI(v) == L[i] for i, v in enumerate(out["src"])]
            for a, b in zip(p_, p_[1:]):      # ordered; lexsort is stable (ties keep their order), argsort need not be
                conj.append(z3.Or(L[a] < L[b], z3.And(L[a] == L[b], a < b)) if skel["op"] == "lexsort" else L[a] <= L[b])
            return z_and(conj)
        exp = self._model(skel, lambda nm: x[nm].t, out, lambda t, a, b: z3.If(t == a, b, t), IDX)
        conj = []

        def cmp(g, e):
            if isinstance(e, list):
                if not isinstance(g, list) or len(g) != len(e):
                    conj.append(z3.BoolVal(False)); return
                for a, b in zip(g, e):
                    cmp(a, b)
            elif isinstance(e, tuple) and e[0] == "eq":
                conj.append(TB(g) == (e[1] == e[2]))
            elif isinstance(e, tuple) and e[0] == "alleq":
                conj.append(TB(g) == z_and([a == b for a, b in zip(e[1], e[2])]))
            elif isinstance(e, tuple) and e[0] == "ite":
                conj.append(TI(g) == z3.If(e[1] == 1, e[2], e[3]))
            elif isinstance(e, tuple) and e[0] == "assign_at":
                i0 = x["i0"].t
                conj.append(TI(g) == z3.If(z3.Or(i0 == e[1], i0 == e[1] - n), e[3] if len(e) > 3 else x["ch2"].t, e[2]))
            else:
                conj.append(TI(g) == e)
        cmp(out["v"], exp)
        if "src" in out:
            cmp(out["src"], [x[f"l{i}"].t for i in range(n)])
        return z_and(conj)

    def oracle(self, skel, cx, cout):
        if skel["op"].endswith("_mixed") or skel["op"] == "concat_mixed_rev":
            if isinstance(cout, Exc):
                return None if cout.type in ("EncodingException", "EncodingError") else f"raised {cout}"
            enc, exp = self._mixed_expect(skel, lambda nm: cx[nm], lambda tab, t: tab[t])
            exp = [(e[2] if e[1] == 1 else e[3]) if isinstance(e, tuple) else e for e in exp]
            alpha = ALPH[skel["kind"]]
            txt = lambda codes: "".join(alpha[c] for c in codes)
            s, o = [cx[f"l{i}"] for i in range(skel["n"])], [cx[f"o{i}"] for i in range(skel["n"])]
            if cout["enc"] != enc or [int(v) for v in cout["v"]] != exp:
                return (f"{skel['op']}: {skel['kind']} array {txt(s)!r} combined with the ASCII array {txt(o)!r}: result encoding {cout['enc']} "
                        f"raw {cout['v']}, expected encoding {enc} raw {exp} (or an EncodingException)")
            return None
        if isinstance(cout, Exc):
            return f"raised {cout}"
        n = skel["n"]
        if skel["op"] == "literal_history":
            lit = [letter(skel["kind"], c) for c in "ACGT"]
            exp = [cx["ch2"] if cx[f"m{i}"] == 1 else lit[i] for i in range(4)] + lit + [True] * 4
            return None if cout["v"] == exp else (f"array built from the literal 'ACGT' ({skel['kind']}), positions {[i for i in range(4) if cx[f'm{i}'] == 1]} set to "
                                                   f"{cx['ch2']}, then the literal encoded and compared again: edited array, fresh array, fresh == 'ACGT' = {cout['v']}, expected {exp}")
        if skel["op"] in ("argsort", "lexsort"):
            L = [cx[f"l{i}"] for i in range(n)]
            p_ = cout["v"]
            ok = sorted(p_) == list(range(n)) and all((L[a], a) < (L[b], b) if skel["op"] == "lexsort" else L[a] <= L[b] for a, b in zip(p_, p_[1:]))
            return None if ok and cout["src"] == L else f"{skel['op']} of {L} ({skel['kind']}) = {p_} (operand afterwards {cout['src']})"
        exp = self._model(skel, lambda nm: cx[nm], cout, lambda t, a, b: b if t == a else t, lambda s, i: s[i])

        def ev(e):
            if isinstance(e, tuple) and e[0] == "ite":
                return e[2] if e[1] == 1 else e[3]
            if isinstance(e, list):
                return [ev(i) for i in e]
            if isinstance(e, tuple) and e[0] == "eq":
                return e[1] == e[2]
            if isinstance(e, tuple) and e[0] == "alleq":
                return e[1] == e[2]
            if isinstance(e, tuple) and e[0] == "assign_at":
                return (e[3] if len(e) > 3 else cx["ch2"]) if cx["i0"] in (e[1], e[1] - n) else e[2]
            return e
        exp = ev(exp)
        got = cout["v"]
        norm = lambda v: [norm(i) for i in v] if isinstance(v, list) else (bool(v) if isinstance(v, bool) or isinstance(exp, bool) else v)
        s = [cx[f"l{i}"] for i in range(n)]
        if [bool(a) if isinstance(b, bool) else a for a, b in zip(got, exp)] != exp if isinstance(exp, list) and exp and not isinstance(exp[0], list) else got != exp:
            return f"{skel['op']} on {s} ({skel['kind']}; ch={cx['ch']}, ch2={cx['ch2']}, i0={cx['i0']}, i1={cx['i1']}): {got}, expected {exp}"
        if "src" in cout and cout["src"] != s:
            return f"{skel['op']}: operand changed from {s} to {cout['src']}"
        return None


class RaggedSlice(Harness):
    """bnp.ragged_slice: per-row column slices row[a_i:b_i] with per-row bounds"""
    name = "ragged_slice"
    functions = ("bionumpy.util.ragged_slice.ragged_slice", "npstructures ragged_slice / RaggedView.get_flat_indices")
    bounds = {"quick": "one row of 1 or 3 characters (ASCII, ACGTN), starts only / ends only / both; row patterns [2,2], [3,0,1] on the array and "
                       "on row selections (tail, reversal); starts 0..len+1, ends -len-1..len+1 symbolic per row",
              "thorough": "adds [1,3,2], [3,0,1,4] (starts or ends only), [0,0,2] with every selection and bound combination"}

    def skeletons(self, tier, seed):
        # on the current tree only one-row arrays with explicit starts are right (known finding C07-ragged-slice-flat-offsets); the
        # multi-row skeletons are kept small in the quick tier: they exist to notice when the finding's extent changes
        out = []
        for kind in ("ascii", "ACGTnEncoding"):
            for lens in ([1], [3]):
                for which in ("both", "starts", "ends"):
                    out.append(dict(kind=kind, lens=lens, sel="all", which=which))
        multi = [([2, 2], "all", "both"), ([3, 0, 1], "tail", "both"), ([2, 2], "rev", "starts")]
        if tier == "thorough":
            multi += [(l, s_, w) for l in ([1, 3, 2], [3, 0, 1, 4], [0, 0, 2]) for s_ in ("all", "tail", "rev") for w in ("both", "starts", "ends")
                      if not (len(l) == 4 and w == "both")]        # 8 symbolic bounds exceed the path budget
        for lens, sel, which in multi:
            out.append(dict(kind="ascii", lens=lens, sel=sel, which=which))
        return out

    def _sel_rows(self, skel):
        idx = list(range(len(skel["lens"])))
        return {"all": idx, "tail": idx[1:], "rev": idx[::-1]}[skel["sel"]]

    def inputs(self, skel, V):
        lo, hi = (65, 90) if skel["kind"] == "ascii" else (0, len(ALPH[skel["kind"]]) - 1)
        for i in range(sum(skel["lens"])):
            V.int(f"l{i}", lo, hi)
        for r in self._sel_rows(skel):
            L = skel["lens"][r]
            if skel["which"] in ("both", "starts"):
                V.int(f"a{r}", 0, L + 1)
            if skel["which"] in ("both", "ends"):
                V.int(f"b{r}", -L - 1, L + 1)

    def call(self, skel, x, ctx):
        import bionumpy as bnp
        from bionumpy.encoded_array import EncodedArray, EncodedRaggedArray
        enc = enc_of(skel["kind"])
        n = sum(skel["lens"])
        e = EncodedRaggedArray(EncodedArray(ctx.arr([x[f"l{i}"] for i in range(n)], "uint8"), enc), list(skel["lens"]))
        src = e
        e = {"all": lambda: e, "tail": lambda: e[1:], "rev": lambda: e[::-1]}[skel["sel"]]()
        rows = self._sel_rows(skel)
        starts = ctx.arr([x[f"a{r}"] for r in rows], "int64") if skel["which"] in ("both", "starts") else None
        ends = ctx.arr([x[f"b{r}"] for r in rows], "int64") if skel["which"] in ("both", "ends") else None
        r = bnp.ragged_slice(e, starts, ends)
        assert r.encoding == enc
        return dict(rows=_ragged_rows(ctx, r), src=ctx.lst(src.ravel().raw()))

    def _bounds(self, skel, r, g):
        L = skel["lens"][r]
        a = g(f"a{r}") if skel["which"] in ("both", "starts") else 0
        b = g(f"b{r}") if skel["which"] in ("both", "ends") else L
        return L, a, b

    def post(self, skel, x, out):
        if isinstance(out, Exc):
            return False
        rows = self._sel_rows(skel)
        if len(out["rows"]) != len(rows):
            return False
        offs = [sum(skel["lens"][:r]) for r in range(len(skel["lens"]))]
        conj = [TI(v) == x[f"l{i}"].t for i, v in enumerate(out["src"])] if len(out["src"]) == sum(skel["lens"]) else [z3.BoolVal(False)]
        for got, r in zip(out["rows"], rows):
            L, a, b = self._bounds(skel, r, lambda nm: x[nm].t)
            a = a if not isinstance(a, int) else z3.IntVal(a)
            b = b if not isinstance(b, int) else z3.IntVal(b)
            lo = z3.If(a > L, L, a)
            hi = z3.If(b < 0, z3.If(L + b < 0, 0, L + b), z3.If(b > L, L, b))
            cnt = z3.If(hi - lo > 0, hi - lo, 0)
            conj.append(cnt == len(got))
            for k, v in enumerate(got):
                t = z3.IntVal(-1)
                for p in range(L):
                    t = z3.If(lo + k == p, x[f"l{offs[r] + p}"].t, t)
                conj.append(TI(v) == t)
        return z_and(conj)

    def oracle(self, skel, cx, cout):
        if isinstance(cout, Exc):
            return f"ragged_slice raised {cout!r}"
        rows = self._sel_rows(skel)
        offs = [sum(skel["lens"][:r]) for r in range(len(skel["lens"]))]
        txt = lambda codes: "".join(chr(c) if skel["kind"] == "ascii" else ALPH[skel["kind"]][c] for c in codes)
        exp, args = [], []
        for r in rows:
            L, a, b = self._bounds(skel, r, lambda nm: cx[nm])
            row = [cx[f"l{offs[r] + p}"] for p in range(L)]
            exp.append(row[a:b])
            args.append((txt(row), a, b))
        got = [[int(v) for v in g] for g in cout["rows"]]
        if got != exp:
            return f"ragged_slice rows (text, start, end) = {args}: {[txt(g) for g in got]}, expected {[txt(g) for g in exp]}"
        return None


def _ragged_rows(ctx, r):
    flat = ctx.lst(r.ravel().raw())
    lens = [int(v) for v in ctx.lst(r.lengths)] if hasattr(r, "lengths") else [int(v) for v in ctx.lst(r.shape[-1])]
    out, k = [], 0
    for L in lens:
        out.append(flat[k:k + L]); k += L
    return out


HARNESSES = [Ragged(), Flat(), RaggedSlice()]
