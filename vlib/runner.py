"""CLI: run all harnesses of one property check, aggregate, write evidence, set the exit code.
exit 0 = every obligation explored was discharged; 1 = reproduced unlisted violation; 2 = inconclusive."""
import argparse
import hashlib
import importlib
import json
import multiprocessing as mp
import os
import sys
import time
import warnings

warnings.filterwarnings("ignore")
import logging
logging.disable(logging.ERROR)
VERIF = os.path.dirname(os.path.dirname(os.path.abspath(__file__)))
sys.path.insert(0, VERIF)


def cpu_budget():
    """usable cores: affinity mask and cgroup quota, whichever is smaller"""
    n = os.cpu_count() or 4
    try:
        n = min(n, len(os.sched_getaffinity(0)))
    except Exception:
        pass
    try:
        q, p = open("/sys/fs/cgroup/cpu.max").read().split()
        if q != "max":
            n = min(n, max(1, int(int(q) / int(p))))
    except Exception:
        pass
    return max(1, min(16, n))


def load_known(pid):
    p = os.path.join(VERIF, "known_findings.json")
    if not os.path.exists(p):
        return []
    data = json.load(open(p))
    return [k for k in data.get("findings", []) if k["property"] == pid and k.get("status") == "open"]


def _run(spec):
    from vlib.job import run_job
    return run_job(spec)


def replay(pid, path):
    from vlib.job import plain_call, jsonable
    d = json.load(open(path))
    mod = importlib.import_module(d["module"])
    H = {h.name: h for h in mod.HARNESSES}[d["harness"]]
    out = plain_call(d["module"], d["harness"], d["skel"], d["inputs"])
    why = H.oracle(d["skel"], d["inputs"], out)
    print(f"replay {path}\n harness={d['harness']} skeleton={H.describe(d['skel'])}\n inputs={d['inputs']}\n output={jsonable(out)}")
    if why is None:
        print("property holds for this input on the current tree")
        return 0
    print("VIOLATION reproduced:", why)
    return 1


def main(argv=None):
    ap = argparse.ArgumentParser()
    ap.add_argument("pid")
    ap.add_argument("--tier", default=os.environ.get("VERIF_TIER", "quick"))
    ap.add_argument("--replay")
    ap.add_argument("--jobs", type=int, default=int(os.environ.get("VERIF_JOBS", "0")) or cpu_budget())
    ap.add_argument("--only", default=None, help="comma separated harness names")
    ap.add_argument("--max-skel", type=int, default=0)
    ap.add_argument("--skel-filter", default=None, help="only skeletons whose repr contains this text (debugging)")
    ap.add_argument("--no-evidence", action="store_true")
    a = ap.parse_args(argv)
    pid = a.pid
    if a.replay:
        sys.exit(replay(pid, a.replay))
    tier = a.tier if a.tier in ("quick", "thorough") else "quick"
    seed = int(os.environ.get("VERIF_SEED", "0") or 0)
    t0 = time.time()
    module = f"checks.{pid}"
    mod = importlib.import_module(module)
    known = load_known(pid)
    specs = []
    hs = [h for h in mod.HARNESSES if a.only is None or h.name in a.only.split(",")]
    for h in hs:
        sk = list(h.skeletons(tier, seed))
        if a.skel_filter:
            sk = [k for k in sk if a.skel_filter in repr(k)]
        if a.max_skel:
            sk = sk[:a.max_skel]
        for s in sk:
            specs.append(dict(module=module, harness=h.name, skel=s, pid=pid, tier=tier, known=known))
    prelude = None
    if hasattr(mod, "prelude") and a.only is None:
        prelude = mod.prelude(tier)
    results = []
    if specs:
        ctx = mp.get_context("fork")
        with ctx.Pool(min(a.jobs, len(specs)), maxtasksperchild=50) as pool:
            for r in pool.imap_unordered(_run, specs, chunksize=1):
                results.append(r)
                if os.environ.get("VERIF_VERBOSE"):
                    print(f"  [{r['harness']}] {r['skel']} paths={r['paths']} disch={r['discharged']}/{r['obligations']} "
                          f"viol={len(r['violations'])} inc={len(r['inconclusive'])} mism={len(r['witness_mismatch'])} {r['wall_s']:.1f}s",
                          flush=True)
    # ---- aggregate
    agg = dict(paths=0, decisions=0, queries=0, proof_queries=0, obligations=0, discharged=0, witnesses_ok=0,
               solver_s=0.0, realisations=0, exc_paths=0)
    viol, inc, mism, khits, funcs, samples = [], [], [], {}, set(), []
    per_h = {}
    extra_w = dict(diverse=0, boundary=0)
    for r in results:
        for k in agg:
            agg[k] += r[k]
        ph = per_h.setdefault(r["harness"], dict(skeletons=0, paths=0, obligations=0, discharged=0, wall_s=0.0))
        ph["skeletons"] += 1; ph["paths"] += r["paths"]; ph["obligations"] += r["obligations"]
        ph["discharged"] += r["discharged"]; ph["wall_s"] = round(ph["wall_s"] + r["wall_s"], 2)
        extra_w["diverse"] += r.get("diverse_witnesses", 0)
        extra_w["boundary"] += r.get("boundary_witnesses", 0)
        for v in r["violations"]:
            viol.append((r, v))
        for i in r["inconclusive"]:
            inc.append((r, i))
        for m in r["witness_mismatch"]:
            mism.append((r, m))
        for k in r["known_hits"]:
            khits.setdefault(k["id"], []).append(dict(harness=r["harness"], skel=r["skel"], **k))
        funcs.update(r["functions"])
        if r["samples"] and len(samples) < 6:
            samples.append(r["samples"][0])
    if prelude:
        agg["obligations"] += prelude.get("obligations", 0)
        agg["discharged"] += prelude.get("discharged", 0)
        agg["proof_queries"] += prelude.get("queries", 0)
        agg["solver_s"] += prelude.get("solver_s", 0.0)
        for i in prelude.get("inconclusive", []):
            inc.append((dict(harness="prelude", skel=None), i))
        for v in prelude.get("violations", []):
            viol.append((dict(harness="prelude", skel=None), v))
        samples.extend(prelude.get("samples", [])[:2])
    # ---- report
    kmap = {k["id"]: k for k in known}
    for kid, hits in sorted(khits.items()):
        print(f"KNOWN-FINDING: property={pid} {kid}: {kmap[kid]['description']} (e.g. inputs={hits[0]['inputs']}; {len(hits)} path(s))")
    os.makedirs(os.path.join(VERIF, "evidence", "replay"), exist_ok=True)
    code = 0
    seen = set()
    for r, v in viol:
        rec = dict(property=pid, module=module, harness=r["harness"], skel=r["skel"], inputs=v.get("inputs"),
                   why=v.get("why"), output=v.get("output"))
        dig = hashlib.sha1(json.dumps(rec, sort_keys=True, default=str).encode()).hexdigest()[:12]
        path = os.path.join(VERIF, "evidence", "replay", f"{pid}-{dig}.json")
        json.dump(rec, open(path, "w"), indent=1, default=str)
        key = (r["harness"], v.get("why", "")[:80])
        if key in seen and len(seen) > 20:
            continue
        seen.add(key)
        print(f"VIOLATION property={pid} replay={path}")
        print(f"  harness={r['harness']} skel={r['skel']} inputs={v.get('inputs')}\n  {v.get('why')}")
        code = 1
    if (inc or mism) and code == 0:
        code = 2
    for r, m in mism[:5]:
        print(f"HARNESS-ERROR property={pid} witness mismatch harness={r['harness']} skel={r['skel']} {json.dumps(m, default=str)[:int(os.environ.get('VERIF_MISMATCH_CHARS', '700'))]}")
    for r, i in inc[:8]:
        print(f"INCONCLUSIVE property={pid} harness={r['harness']} skel={r['skel']} reason={i}")
    wall = time.time() - t0
    total_skel = len(specs)
    print(f"{pid} tier={tier}: {total_skel} skeletons, {agg['paths']} paths, {agg['discharged']}/{agg['obligations']} obligations discharged, "
          f"{agg['witnesses_ok']} witnesses replayed, {len(viol)} violations, {len(khits)} known findings hit, "
          f"{len(inc)} inconclusive, {len(mism)} witness mismatches, solver {agg['solver_s']:.1f}s, wall {wall:.1f}s -> exit {code}")
    if not a.no_evidence:
        import symnp.stubs
        h_assump, h_stubs, h_bounds = [], [], {}
        for h in hs:
            h_assump.extend(h.assumptions)
            h_stubs.extend(h.stubs)
            h_bounds[h.name] = getattr(h, "bounds", {}).get(tier, getattr(h, "bounds", {}))
        ev = dict(
            property_id=pid, tier=tier, seed=seed, level="model_checking",
            coverage=dict(
                states=max(agg["paths"], 1), transitions=max(agg["decisions"], 1),
                traces_validated_against_impl=agg["witnesses_ok"], samples=samples or [dict(note="no paths")],
                further_members_replayed=dict(extra_w, note="besides the solver's model of each path: a member whose inputs of equal range take "
                                              "pairwise different values where the path allows it (diverse), and members with every integer input "
                                              "at its upper / lower bound in the harnesses that ask for it (boundary); each was run on the real "
                                              "code and compared with the symbolic outcome"),
                obligations=agg["obligations"], discharged=agg["discharged"], undecided=len(inc),
                queries=agg["queries"] + agg["proof_queries"], solver_s=round(agg["solver_s"], 2),
                skeletons=total_skel, exception_paths=agg["exc_paths"], realisations=agg["realisations"],
                per_harness=per_h, bounds=h_bounds, functions_encoded=sorted(funcs),
                known_findings_hit=sorted(khits), prelude=(prelude or {}).get("summary"),
                exhaustive=(code == 0 and not a.only and not a.max_skel),
                explanation="each state is one feasible path of the real bionumpy code executed over z3 terms; each "
                            "obligation is PC => post decided by z3 (unsat of PC and not post); every path has a model "
                            "replayed on the unmodified library (plain NumPy) and compared with the symbolic outcome, and a second, "
                            "diverse member of the path where one exists"),
            assumptions=sorted(set(list(h_assump) + [
                "symnp scalar/array semantics equal NumPy's on the operations used (validated per path by witness replay)",
                "64-bit integer overflow not modelled (except abs(int64.min))",
                "z3 is sound"] + [f"stub: {s}" for s in list(h_stubs) + symnp.stubs.APPLIED_DESCR])),
            wall_s=round(wall, 2), violations=len(viol))
        json.dump(ev, open(os.path.join(VERIF, "evidence", f"{pid}.json"), "w"), indent=1, default=str)
    sys.exit(code)


if __name__ == "__main__":
    main()
