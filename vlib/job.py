"""Execute one (harness, skeleton) job: explore all paths of the real code symbolically, and per path
do witness replay, proof query, counterexample replay.  Runs inside a pool worker process."""
import importlib
import json
import hashlib
import os
import sys
import time
import traceback
import warnings
from fractions import Fraction
REPO = os.environ.get("VERIF_REPO", "/repo").rstrip("/")

warnings.filterwarnings("ignore")

VERIF = os.path.dirname(os.path.dirname(os.path.abspath(__file__)))

_plain = None


def plain_call(module, hname, skel, cx):
    """run harness.call on concrete inputs with the unmodified library in a separate process"""
    global _plain
    from .plainclient import PlainClient
    if _plain is None or not _plain.alive():
        _plain = PlainClient()
    return _plain.call(module, hname, skel, cx)


def eval_out(out, model):
    import z3
    from symnp import SV
    from symnp.core import XorSet
    from .harness import Exc
    if isinstance(out, SV):
        v = model.eval(out.t, model_completion=True)
        if z3.is_bool(v):
            return z3.is_true(v)
        if z3.is_int_value(v):
            return v.as_long()
        if z3.is_rational_value(v):
            return Fraction(v.numerator_as_long(), v.denominator_as_long())
        if z3.is_algebraic_value(v):
            return float(v.approx(20).as_decimal(20).rstrip("?"))
        raise ValueError(f"cannot evaluate {out}")
    if isinstance(out, XorSet):
        r = out.const
        for it in out.items.values():
            r ^= eval_out(it, model)
        return r
    if isinstance(out, list):
        from .harness import SStr
        r = [eval_out(o, model) for o in out]
        if isinstance(out, SStr):
            while r and r[-1] == 0:
                r.pop()
        return r
    if isinstance(out, tuple):
        return [eval_out(o, model) for o in out]
    if isinstance(out, dict):
        return {k: eval_out(v, model) for k, v in out.items()}
    return out


def same(a, b):
    """witness comparison: exact for ints/bools/strs, relative 1e-9 for floats"""
    from .harness import Exc
    if isinstance(a, Exc) or isinstance(b, Exc):
        return isinstance(a, Exc) and isinstance(b, Exc) and a.type == b.type and a.attrs == b.attrs
    if isinstance(a, (list, tuple)) and isinstance(b, (list, tuple)):
        return len(a) == len(b) and all(same(x, y) for x, y in zip(a, b))
    if isinstance(a, dict) and isinstance(b, dict):
        return a.keys() == b.keys() and all(same(a[k], b[k]) for k in a)
    if isinstance(a, (float, Fraction)) or isinstance(b, (float, Fraction)):
        try:
            fa, fb = float(a), float(b)
        except Exception:
            return False
        if fa != fa and fb != fb:
            return True
        return fa == fb or abs(fa - fb) <= 1e-9 * max(abs(fa), abs(fb), 1e-300)
    if isinstance(a, bool) or isinstance(b, bool):
        return bool(a) == bool(b) and isinstance(a, (bool, int)) and isinstance(b, (bool, int))
    return a == b


def jsonable(x):
    from .harness import Exc
    if isinstance(x, Exc):
        return x.to_json()
    if isinstance(x, (list, tuple)):
        return [jsonable(i) for i in x]
    if isinstance(x, dict):
        return {str(k): jsonable(v) for k, v in x.items()}
    if isinstance(x, Fraction):
        return float(x)
    if isinstance(x, (int, float, str, bool)) or x is None:
        return x
    return repr(x)


def region_eval(expr, x, skel):
    """evaluate a known-finding region predicate over inputs (symbolic or concrete)"""
    import z3
    from symnp import SV, TB

    def conv(v):
        if isinstance(v, SV):
            return v.t
        return v

    def And(*a):
        a = [conv(i) for i in a]
        if all(isinstance(i, bool) for i in a):
            return all(a)
        return z3.And(*[z3.BoolVal(i) if isinstance(i, bool) else i for i in a])

    def Or(*a):
        a = [conv(i) for i in a]
        if all(isinstance(i, bool) for i in a):
            return any(a)
        return z3.Or(*[z3.BoolVal(i) if isinstance(i, bool) else i for i in a])

    def Not(a):
        a = conv(a)
        return (not a) if isinstance(a, bool) else z3.Not(a)

    def Abs(a):
        if isinstance(a, SV):
            return SV(z3.If(a.t >= 0, a.t, -a.t))
        return abs(a)
    env = {"And": And, "Or": Or, "Not": Not, "Abs": Abs, "skel": skel, "x": x}
    env.update({k: v for k, v in x.items() if k.isidentifier()})
    r = eval(expr, {"__builtins__": {"len": len, "any": any, "all": all, "range": range, "min": min, "max": max,
                                      "True": True, "False": False, "None": None, "sum": sum, "isinstance": isinstance,
                                      "str": str, "int": int, "list": list, "enumerate": enumerate, "zip": zip, "tuple": tuple}}, env)
    return conv(r)


class JobResult(dict):
    pass


def run_job(spec):
    """spec: dict(module, harness, skel, pid, known (list of open findings), tier)"""
    t_start = time.time()
    import z3
    import symnp
    from symnp import ENGINE, explore, TB
    from symnp.core import EngineAbort
    from .harness import SymCtx, Vars, Exc, exc_outcome

    res = dict(harness=spec["harness"], skel=spec["skel"], paths=0, decisions=0, queries=0, proof_queries=0,
               discharged=0, obligations=0, witnesses_ok=0, witness_mismatch=[], inconclusive=[], violations=[],
               known_hits=[], solver_s=0.0, functions=[], samples=[], wall_s=0.0, realisations=0, exc_paths=0)
    import signal
    import resource
    try:
        mod = importlib.import_module(spec["module"])
        H = {h.name: h for h in mod.HARNESSES}[spec["harness"]]
        from symnp.core import BudgetExceeded
        # per-skeleton wall budget: the thorough tier may spend longer on one skeleton
        budget = getattr(H, "job_timeout_thorough_s", 6 * H.job_timeout_s) if spec.get("tier") == "thorough" else H.job_timeout_s

        def on_alarm(signum, frame):
            raise BudgetExceeded(f"job wall time budget ({budget}s)")
        signal.signal(signal.SIGALRM, on_alarm)
        signal.setitimer(signal.ITIMER_REAL, budget + 5)
        try:
            soft, hard = resource.getrlimit(resource.RLIMIT_AS)
            lim = 6 << 30
            resource.setrlimit(resource.RLIMIT_AS, (lim if hard == resource.RLIM_INFINITY else min(lim, hard), hard))
        except Exception:
            pass
        symnp.install()
        ENGINE.__init__()
        ENGINE.deadline = t_start + budget
        skel = spec["skel"]
        V = Vars()
        H.inputs(skel, V)
        x = V.vars
        ctx = SymCtx()
        funcs = set()

        def prof(frame, event, arg):
            if event == "call":
                fn = frame.f_code.co_filename
                if fn.startswith(REPO + "/bionumpy") or "/npstructures/" in fn:
                    funcs.add((fn.replace("/venv/lib/python3.12/site-packages/", "").replace(REPO, "/repo"), frame.f_code.co_firstlineno,
                               frame.f_code.co_name))

        first = [True]

        def body():
            if first[0]:
                sys.setprofile(prof)
            try:
                out = H.call(skel, x, ctx)
            finally:
                if first[0]:
                    sys.setprofile(None)
                    first[0] = False
            return out

        known_all = [k for k in spec.get("known", []) if k.get("harness") is None or spec["harness"] in str(k["harness"]).split(",")]
        for r in explore(body, max_paths=H.max_paths):
            res["paths"] += 1
            if r.abort is not None:
                # the model cannot follow this path.  One concrete member of it is still run on the real code: if that run breaks
                # the property (independent oracle) it is a reproduced violation; otherwise the path stays inconclusive.
                viol = None
                # (also when the code under analysis did not repeat its decisions on re-execution: it depends on state that
                # survives a call -- a cache, a class attribute -- which is exactly what the concrete runs in one worker process exercise)
                if r.pc and (type(r.abort).__name__ == "UnsupportedSymbolicOp" or "non-deterministic replay" in str(r.abort)):
                    try:
                        sa = z3.Solver(); sa.set("timeout", 20000); sa.add(*r.pc)
                        members = []
                        if sa.check() == z3.sat:
                            members.append(V.concrete(sa.model()))
                            # a second member: every integer input pushed as far up as the path allows (greedy)
                            ints = [nm for nm in V.names if V.kinds[nm] == "int" and V.vars[nm].hi is not None][:64]
                            for nm in ints:
                                sa.push(); sa.add(V.vars[nm].t == V.vars[nm].hi)
                                if sa.check() != z3.sat:
                                    sa.pop()
                            if sa.check() == z3.sat:
                                members.append(V.concrete(sa.model()))
                        for cxa in members:
                            real_a = plain_call(spec["module"], spec["harness"], skel, cxa)
                            why = H.oracle(skel, cxa, real_a)
                            if why is not None and not any(region_eval(k["region"], cxa, skel) is True for k in known_all):
                                viol = dict(obligation="aborted-path-replay", inputs=cxa, output=jsonable(real_a),
                                            why=(f"[real run of a member of a path the model could not follow ({r.abort})] " + why)[:1000])
                                break
                    except Exception:
                        viol = None
                if viol is not None:
                    res["violations"].append(viol)
                    break
                res["inconclusive"].append(f"{type(r.abort).__name__}: {r.abort}"[:300])
                if len(res["inconclusive"]) > 3:
                    break
                continue
            out = r.value if r.exc is None else exc_outcome(r.exc)
            if r.exc is not None:
                res["exc_paths"] += 1
                if os.environ.get("VERIF_DEBUG"):
                    traceback.print_exception(r.exc)
            s = z3.Solver()
            s.set("timeout", 120000)
            s.add(*r.pc)
            t0 = time.time()
            c = s.check()
            res["solver_s"] += time.time() - t0
            if c != z3.sat:
                res["inconclusive"].append(f"path condition {c}")
                continue
            m = s.model()
            # ---- 1. witness
            cx = V.concrete(m)
            try:
                sym_c = eval_out(out, m)
            except Exception as e:
                res["inconclusive"].append(f"witness evaluation failed: {e!r}"[:300])
                continue
            real_c = plain_call(spec["module"], spec["harness"], skel, cx)
            if not same(sym_c, real_c):
                # the model and the real code disagree on this input.  If the REAL outcome itself breaks the property (independent
                # oracle on the real run) that is a reproduced violation whatever the model says; otherwise the encoding is wrong.
                why = None
                try:
                    why = H.oracle(skel, cx, real_c)
                except Exception:
                    why = None
                if why is not None:
                    hit = None
                    for k in known_all:
                        try:
                            if region_eval(k["region"], cx, skel) is True:
                                hit = k
                                break
                        except Exception:
                            pass
                    if hit is not None:
                        res["known_hits"].append(dict(id=hit["id"], inputs=cx, why=why[:300]))
                    else:
                        res["violations"].append(dict(obligation="witness-replay", inputs=cx, output=jsonable(real_c),
                                                      why=("[real run of a path witness; the symbolic model diverges here] " + why)[:1000]))
                        break
                res["witness_mismatch"].append(dict(inputs=cx, symbolic=jsonable(sym_c), real=jsonable(real_c)))
                continue
            res["witnesses_ok"] += 1
            # ---- 1b. boundary witnesses (opt-in per harness): members of the path with every integer input at its upper / lower bound,
            # where the path allows it.  Effects outside the model (float rounding, wrap-around in compiled code) tend to sit there;
            # a disagreement is judged by the oracle on the REAL outcome exactly like a witness mismatch.
            stop = False
            if getattr(H, "boundary_witnesses", False) or (isinstance(skel, dict) and skel.get("boundary_witnesses")):
                ints = [nm for nm in V.names if V.kinds[nm] == "int" and V.vars[nm].hi is not None and V.vars[nm].lo is not None]
                for side in ("hi", "lo"):
                    s.push()
                    s.add(*[V.vars[nm].t == getattr(V.vars[nm], side) for nm in ints])
                    ok_b = s.check() == z3.sat
                    mb = s.model() if ok_b else None
                    s.pop()
                    if not ok_b:
                        continue
                    cxb = V.concrete(mb)
                    try:
                        sym_b = eval_out(out, mb)
                    except Exception:
                        continue
                    real_b = plain_call(spec["module"], spec["harness"], skel, cxb)
                    res["boundary_witnesses"] = res.get("boundary_witnesses", 0) + 1
                    if not same(sym_b, real_b):
                        why = None
                        try:
                            why = H.oracle(skel, cxb, real_b)
                        except Exception:
                            why = None
                        if why is not None and not any(region_eval(k["region"], cxb, skel) is True for k in known_all):
                            res["violations"].append(dict(obligation="boundary-witness", inputs=cxb, output=jsonable(real_b),
                                                          why=("[real run of a boundary member of the path; the symbolic model diverges here] " + why)[:1000]))
                        else:
                            res["witness_mismatch"].append(dict(inputs=cxb, symbolic=jsonable(sym_b), real=jsonable(real_b)))
                        stop = True
                        break
            # ---- 1c. a diverse witness: a member of the path on which inputs of the same range take pairwise different values where the
            # path allows it (the solver's first model tends to give every input the same smallest value, and an effect such as
            # "the write went to a copy" is invisible when the value written equals the value already there)
            if not stop and os.environ.get("VERIF_DIVERSE_WITNESS", "1") != "0":
                groups = {}
                for nm in V.names:
                    if V.kinds[nm] == "int" and V.vars[nm].hi is not None and V.vars[nm].lo is not None and V.vars[nm].hi > V.vars[nm].lo:
                        groups.setdefault((V.vars[nm].lo, V.vars[nm].hi), []).append(nm)
                pushes, budget = 0, [10]
                # proposed values: round-robin over the range within each group (cheap for the solver: plain equalities); a group
                # whose proposal does not fit the path is halved
                proposal = {}
                for (lo_, hi_), names_ in groups.items():
                    for i_, nm in enumerate(names_):
                        proposal[nm] = lo_ + (i_ + 1) % (hi_ - lo_ + 1)
                s.set("timeout", 300)

                def spread(names):
                    nonlocal pushes
                    if not names or budget[0] <= 0:
                        return
                    budget[0] -= 1
                    s.push()
                    s.add(*[V.vars[nm].t == proposal[nm] for nm in names])
                    if s.check() == z3.sat:
                        pushes += 1
                        return
                    s.pop()
                    if len(names) > 1:
                        spread(names[:len(names) // 2])
                        spread(names[len(names) // 2:])
                for key in sorted(groups, key=lambda k_: -len(groups[k_])):
                    spread(groups[key])
                md = None
                if pushes:
                    if s.check() == z3.sat:
                        md = s.model()
                    for _ in range(pushes):
                        s.pop()
                s.set("timeout", 120000)
                if md is not None:
                    cxd = V.concrete(md)
                    try:
                        sym_d = eval_out(out, md)
                    except Exception:
                        sym_d = None
                    if sym_d is not None and cxd != cx:
                        real_d = plain_call(spec["module"], spec["harness"], skel, cxd)
                        res["diverse_witnesses"] = res.get("diverse_witnesses", 0) + 1
                        if not same(sym_d, real_d):
                            why = None
                            try:
                                why = H.oracle(skel, cxd, real_d)
                            except Exception:
                                why = None
                            if why is not None and not any(region_eval(k["region"], cxd, skel) is True for k in known_all):
                                res["violations"].append(dict(obligation="diverse-witness", inputs=cxd, output=jsonable(real_d),
                                                              why=("[real run of a member of the path with pairwise different inputs; the symbolic model diverges here] " + why)[:1000]))
                            else:
                                res["witness_mismatch"].append(dict(inputs=cxd, symbolic=jsonable(sym_d), real=jsonable(real_d)))
                            stop = True
            if stop:
                if res["violations"]:
                    break
                continue
            # ---- 2. proof
            try:
                post = H.post(skel, x, out)
            except EngineAbort as e:
                res["inconclusive"].append(f"post: {type(e).__name__}: {e}"[:300])
                continue
            posts = post if isinstance(post, list) else [("post", post)]
            for pname, p in posts:
                known = [k for k in known_all if k.get("obligation") in (None, pname)]
                res["obligations"] += 1
                pt = z3.BoolVal(p) if isinstance(p, bool) else (p.t if hasattr(p, "t") else p)
                excl = []
                ok = None
                for _round in range(8):
                    s.push()
                    s.add(z3.Not(pt), *excl)
                    t0 = time.time()
                    c = s.check()
                    res["solver_s"] += time.time() - t0
                    res["proof_queries"] += 1
                    m2 = s.model() if c == z3.sat else None
                    s.pop()
                    if c == z3.unsat:
                        ok = True
                        break
                    if c != z3.sat:
                        res["inconclusive"].append(f"{pname}: solver {c} ({s.reason_unknown()})")
                        ok = None
                        break
                    # ---- 3. counterexample replay on the unmodified library
                    cx2 = V.concrete(m2)
                    real2 = plain_call(spec["module"], spec["harness"], skel, cx2)
                    # a harness with several obligations may judge each one separately
                    why = H.oracle_ob(pname, skel, cx2, real2) if hasattr(H, "oracle_ob") else H.oracle(skel, cx2, real2)
                    if why is None:
                        # the symbolic model diverges from the real code on this path (e.g. symbolic bytes reached compiled code).  As for a
                        # path the model cannot follow, greedy members of the path (every integer input pushed up / down as far as the
                        # path allows) are run on the real code; a reproduced violation is reported, otherwise the path stays inconclusive.
                        viol = None
                        try:
                            for side in ("hi", "lo"):
                                s.push()
                                pushed = 1
                                for nm in [nm for nm in V.names if V.kinds[nm] == "int" and getattr(V.vars[nm], side) is not None][:64]:
                                    s.push(); pushed += 1
                                    s.add(V.vars[nm].t == getattr(V.vars[nm], side))
                                    if s.check() != z3.sat:
                                        s.pop(); pushed -= 1
                                mem = V.concrete(s.model()) if s.check() == z3.sat else None
                                for _ in range(pushed):
                                    s.pop()
                                if mem is None:
                                    continue
                                real_m = plain_call(spec["module"], spec["harness"], skel, mem)
                                why_m = H.oracle_ob(pname, skel, mem, real_m) if hasattr(H, "oracle_ob") else H.oracle(skel, mem, real_m)
                                if why_m is not None and not any(region_eval(k["region"], mem, skel) is True for k in known):
                                    viol = dict(obligation=pname, inputs=mem, output=jsonable(real_m),
                                                why=("[real run of a member of a path on which the symbolic model diverges] " + why_m)[:1000])
                                    break
                        except Exception:
                            viol = None
                        if viol is not None:
                            res["violations"].append(viol)
                            ok = False
                            break
                        res["inconclusive"].append(
                            f"{pname}: counterexample does not reproduce (encoding/oracle mismatch): inputs={cx2} out={jsonable(real2)!r}"[:600])
                        ok = None
                        break
                    hit = None
                    for k in known:
                        try:
                            if region_eval(k["region"], cx2, skel) is True:
                                hit = k
                                break
                        except Exception as e:
                            res["inconclusive"].append(f"known-finding region error {k['id']}: {e!r}")
                    if hit is not None:
                        res["known_hits"].append(dict(id=hit["id"], inputs=cx2, why=why[:300]))
                        rs = region_eval(hit["region"], x, skel)
                        rs = z3.BoolVal(rs) if isinstance(rs, bool) else rs
                        if not z3.is_true(m2.eval(rs, model_completion=True)):
                            res["inconclusive"].append(f"known-finding region {hit['id']} not consistent symbolically")
                            ok = None
                            break
                        excl.append(z3.Not(rs))
                        continue
                    res["violations"].append(dict(obligation=pname, inputs=cx2, output=jsonable(real2), why=why[:1000]))
                    ok = False
                    break
                else:
                    res["inconclusive"].append(f"{pname}: too many known-finding rounds")
                if ok:
                    res["discharged"] += 1
            if len(res["samples"]) < 2:
                res["samples"].append(dict(skeleton=H.describe(skel), decisions=len(r.trace), witness_input=cx,
                                           outcome=jsonable(sym_c) if len(repr(sym_c)) < 400 else repr(sym_c)[:400],
                                           verdict="discharged" if res["discharged"] else "see violations"))
            if res["violations"]:
                break
        res["decisions"] = ENGINE.n_decisions
        res["queries"] = ENGINE.n_queries
        res["solver_s"] += ENGINE.solver_s
        res["realisations"] = ENGINE.realisations
        res["functions"] = sorted(f"{a}:{b} {c}" for a, b, c in funcs)
    except BaseException as e:
        res["inconclusive"].append("job crashed: " + "".join(traceback.format_exception(e))[-1500:])
    finally:
        signal.setitimer(signal.ITIMER_REAL, 0)
    res["wall_s"] = time.time() - t_start
    return res
