"""Harness base class and the two execution contexts (symbolic / plain NumPy).

A harness' `call` is written once and runs (a) in the checking process on SymArrays over the real
bionumpy code with `np` rebound to symnp, and (b) in the plain worker on ordinary ndarrays with the
unmodified library -- (b) is the witness / counterexample replay.
"""
import io
import numpy as np


class Exc:
    """normalised library exception outcome"""
    def __init__(self, type_name, attrs=None, msg=""):
        self.type = type_name
        self.attrs = attrs or {}
        self.msg = msg

    def __repr__(self):
        return f"Exc({self.type}, {self.attrs})"

    def __eq__(self, o):
        return isinstance(o, Exc) and self.type == o.type and self.attrs == o.attrs

    def to_json(self):
        return {"__exc__": self.type, "attrs": self.attrs, "msg": self.msg[:200]}


def exc_outcome(e):
    attrs = {}
    for a in ("line_number", "offset"):
        if hasattr(e, a):
            v = getattr(e, a)
            try:
                attrs[a] = None if v is None else int(v)
            except Exception:
                attrs[a] = repr(v)
    return Exc(type(e).__name__, attrs, str(e)[:200] if not _has_sym_text(e) else "")


def _has_sym_text(e):
    try:
        str(e)
        return False
    except BaseException:
        return True


class PlainCtx:
    mode = "plain"
    np = np

    def arr(self, values, dtype):
        return np.array(list(values), dtype=dtype) if not isinstance(values, np.ndarray) else values.astype(dtype)

    def arr2(self, rows, dtype):
        return np.array([list(r) for r in rows], dtype=dtype)

    def file(self, content):
        return io.BytesIO(bytes(int(c) for c in content))

    def text(self, codes):
        return "".join(chr(int(c)) for c in codes)

    def wfile(self):
        return io.BytesIO()

    def file_bytes(self, f):
        return list(f.getvalue())

    def lst(self, x):
        return to_list(x)

    def scalar(self, v):
        return v

    def pre(self):
        pass


class SymCtx(PlainCtx):
    mode = "sym"

    @property
    def np(self):
        from symnp import symnp
        return symnp

    def arr(self, values, dtype):
        from symnp import SymArray
        values = list(values)
        a = np.empty(len(values), dtype=object)
        for i, v in enumerate(values):
            a[i] = v
        return SymArray(a, dtype)

    def arr2(self, rows, dtype):
        from symnp import SymArray
        rows = [list(r) for r in rows]
        a = np.empty((len(rows), len(rows[0]) if rows else 0), dtype=object)
        for i, r in enumerate(rows):
            for j, v in enumerate(r):
                a[i, j] = v
        return SymArray(a, dtype)

    def file(self, content):
        from symnp import SymFile
        return SymFile(content)

    def text(self, codes):
        from symnp.strs import SymStr
        return SymStr(codes)

    def wfile(self):
        from symnp import SymFile
        return SymFile([])

    def file_bytes(self, f):
        return list(f.content)


def to_list(x):
    """normalise arrays / encoded arrays / ragged arrays / dataclasses to nested Python lists"""
    from symnp import SymArray, SV
    if x is None or isinstance(x, (bool, int, float, str, SV)):
        return x
    if isinstance(x, SymArray):
        if x.dtype.kind == "S":
            return _strip_nul(x.vals.tolist(), x.ndim)
        return _pyscalars(x.vals.tolist())
    if isinstance(x, np.ndarray):
        if x.dtype.kind == "S":
            k = x.dtype.itemsize
            return _strip_nul(np.frombuffer(x.tobytes(), dtype=np.uint8).reshape(x.shape + (k,)).tolist(), x.ndim)
        return x.tolist()
    if isinstance(x, np.generic):
        return x.item()
    if isinstance(x, (list, tuple)):
        return [to_list(i) for i in x]
    if isinstance(x, dict):
        return {k: to_list(v) for k, v in x.items()}
    if isinstance(x, bytes):
        from symnp import SymBytes
        return list(x.sym) if isinstance(x, SymBytes) else list(x)
    from bionumpy.encoded_array import EncodedArray, EncodedRaggedArray
    from npstructures import RaggedArray
    if isinstance(x, EncodedRaggedArray):
        d = x.ravel().raw()     # materialises views (and re-bases x._shape) before the offsets are read
        return [to_list(d[s:e]) for s, e in zip(_starts(x), _ends(x))]
    if isinstance(x, EncodedArray):
        return to_list(x.raw())
    if isinstance(x, RaggedArray):
        d = x.ravel()
        return [to_list(d[s:e]) for s, e in zip(_starts(x), _ends(x))]
    if hasattr(x, "raw"):
        return to_list(x.raw())
    import dataclasses
    if dataclasses.is_dataclass(x):
        return {f.name: to_list(getattr(x, f.name)) for f in dataclasses.fields(x)}
    raise TypeError(f"to_list: {type(x)}")


def _pyscalars(v):
    if isinstance(v, list):
        return [_pyscalars(i) for i in v]
    return v.item() if isinstance(v, np.generic) else v


class SStr(list):
    """one byte string of an 'S' array; trailing NUL padding is not significant (it may still be symbolic here:
    job.eval_out strips it after evaluation, posts must accept a tail of zeros)"""


def _strip_nul(v, depth):
    """byte strings ('S' arrays): drop the trailing NUL padding of each string"""
    if depth == 0:
        v = [i.item() if isinstance(i, np.generic) else i for i in v]
        while v and isinstance(v[-1], int) and v[-1] == 0:
            v.pop()
        return SStr(v)
    return [_strip_nul(i, depth - 1) for i in v]


def _starts(r):
    return [int(v) for v in np.asarray(r._shape.starts)]


def _ends(r):
    return [int(v) for v in np.asarray(r._shape.ends)]


class Vars:
    """declares the symbolic payload of one skeleton; the same object lists names for model extraction"""
    def __init__(self):
        self.names = []
        self.vars = {}
        self.kinds = {}

    def int(self, name, lo=None, hi=None):
        from symnp import fresh_int
        if lo is not None and lo == hi and getattr(self, "literal_singletons", False):
            # a one-value range is a literal: the input is a concrete number (text made of it can pass through str(), float(), ...)
            import z3
            from symnp import SV
            v = SV(z3.IntVal(lo), lo, hi)
        else:
            v = fresh_int(name, lo, hi)
        self.names.append(name); self.vars[name] = v; self.kinds[name] = "int"
        return v

    def bool(self, name):
        from symnp import fresh_bool
        v = fresh_bool(name)
        self.names.append(name); self.vars[name] = v; self.kinds[name] = "bool"
        return v

    def byte(self, name):
        return self.int(name, 0, 255)

    def ints(self, prefix, n, lo=None, hi=None):
        return [self.int(f"{prefix}{i}", lo, hi) for i in range(n)]

    def assume(self, c):
        from symnp import ENGINE
        ENGINE.assume(c)

    def concrete(self, model):
        import z3
        out = {}
        for n in self.names:
            v = model.eval(self.vars[n].t, model_completion=True)
            out[n] = z3.is_true(v) if self.kinds[n] == "bool" else v.as_long()
        return out


class Harness:
    """subclass and put instances in a check module's HARNESSES list"""
    name = "?"
    functions = ()          # informal list of entry points, for the evidence
    stubs = ()
    assumptions = ()
    max_paths = 20000
    job_timeout_s = 300

    def skeletons(self, tier, seed):
        raise NotImplementedError

    def inputs(self, skel, V):
        raise NotImplementedError

    def call(self, skel, x, ctx):
        raise NotImplementedError

    def post(self, skel, x, out):
        """z3 Bool (or Python bool) over the symbolic inputs x and the normalised output"""
        raise NotImplementedError

    def oracle(self, skel, cx, cout):
        """independent concrete reference: None if the property holds for this concrete run, else a
        description of expected vs actual"""
        raise NotImplementedError

    def describe(self, skel):
        return repr(skel)
