"""z3 helper functions shared by check modules"""
import z3
from symnp.core import SV, T, TI, TB


def z_and(xs):
    xs = list(xs)
    return z3.And(*xs) if xs else z3.BoolVal(True)


def z_or(xs):
    xs = list(xs)
    return z3.Or(*xs) if xs else z3.BoolVal(False)


def digits_value(chars, signed=True):
    """Int term: value of decimal text given as byte terms (first may be '+'/'-' when signed)"""
    n = len(chars)
    digs = []
    for j, c in enumerate(chars):
        d = c - 48
        if j == 0 and signed:
            d = z3.If(z3.Or(c == 45, c == 43), 0, d)
        digs.append(d)
    val = sum(d * 10 ** (n - 1 - j) for j, d in enumerate(digs))
    if signed:
        val = z3.If(chars[0] == 45, -val, val)
    return val


def is_digit(c):
    return z3.And(c >= 48, c <= 57)


def upper(c):
    """ASCII upper-casing of a byte term (letters only)"""
    return z3.If(z3.And(c >= 97, c <= 122), c - 32, c)


def in_set(c, values):
    return z3.Or(*[c == v for v in values]) if values else z3.BoolVal(False)
