"""client side of the plain-NumPy replay worker (one persistent subprocess per pool worker)"""
import os
import pickle
import struct
import subprocess
import sys

VERIF = os.path.dirname(os.path.dirname(os.path.abspath(__file__)))


class PlainClient:
    def __init__(self):
        env = dict(os.environ)
        env["PYTHONPATH"] = VERIF + os.pathsep + env.get("PYTHONPATH", "")
        env["PYTHONWARNINGS"] = "ignore"
        self.p = subprocess.Popen([sys.executable, "-m", "vlib.plainworker"], stdin=subprocess.PIPE,
                                  stdout=subprocess.PIPE, stderr=subprocess.DEVNULL, env=env, cwd=VERIF)

    def alive(self):
        return self.p.poll() is None

    def call(self, module, hname, skel, cx):
        data = pickle.dumps((module, hname, skel, cx))
        self.p.stdin.write(struct.pack("<I", len(data)) + data)
        self.p.stdin.flush()
        hdr = self.p.stdout.read(4)
        if len(hdr) < 4:
            raise RuntimeError("plain worker died")
        n = struct.unpack("<I", hdr)[0]
        kind, payload = pickle.loads(self.p.stdout.read(n))
        if kind == "error":
            raise RuntimeError("plain worker: " + payload)
        return payload

    def close(self):
        try:
            self.p.stdin.close()
            self.p.wait(timeout=5)
        except Exception:
            self.p.kill()
