"""Replay worker: imports /repo's bionumpy with plain NumPy (no symnp) and runs harness.call on concrete inputs."""
import importlib
import os
import pickle
import struct
import sys
import traceback
import warnings

warnings.filterwarnings("ignore")
import logging
logging.disable(logging.ERROR)


def main():
    inp, out = sys.stdin.buffer, sys.stdout.buffer
    sys.stdout = sys.stderr  # library prints must not corrupt the pipe
    from vlib.harness import PlainCtx, exc_outcome
    ctx = PlainCtx()
    while True:
        hdr = inp.read(4)
        if len(hdr) < 4:
            return
        n = struct.unpack("<I", hdr)[0]
        module, hname, skel, cx = pickle.loads(inp.read(n))
        try:
            mod = importlib.import_module(module)
            H = {h.name: h for h in mod.HARNESSES}[hname]
            try:
                res = H.call(skel, cx, ctx)
            except Exception as e:
                res = exc_outcome(e)
            msg = ("ok", res)
            data = pickle.dumps(msg)
        except BaseException as e:
            data = pickle.dumps(("error", "".join(traceback.format_exception(e))[-2000:]))
        out.write(struct.pack("<I", len(data)) + data)
        out.flush()


if __name__ == "__main__":
    main()
